//! shared plumbing: virtual clock, recorders, pipe endpoint, panic capture, watchdog progress counter

use serde_json::{json, Value};
use std::collections::HashMap;
use std::sync::atomic::{AtomicU64, Ordering};
use std::sync::{Arc, Mutex};
use tokio::io::{AsyncReadExt, AsyncWriteExt};

use crate::codec;

pub static PROGRESS: AtomicU64 = AtomicU64::new(0);
pub static PANIC_INFO: Mutex<Option<(String, String)>> = Mutex::new(None);
/// description of what is being executed right now (for the watchdog's hang report)
pub static CURRENT: Mutex<String> = Mutex::new(String::new());

pub static OUT: Mutex<Option<std::io::BufWriter<std::fs::File>>> = Mutex::new(None);

/// append one line to the trace
pub fn emit(v: Value) {
    use std::io::Write;
    let mut g = OUT.lock().unwrap();
    if let Some(w) = g.as_mut() {
        let _ = serde_json::to_writer(&mut *w, &v);
        let _ = w.write_all(b"\n");
    }
}

pub fn flush_out() {
    use std::io::Write;
    if let Some(w) = OUT.lock().unwrap().as_mut() {
        let _ = w.flush();
    }
}

pub fn tick() {
    PROGRESS.fetch_add(1, Ordering::SeqCst);
}

pub fn set_current(s: String) {
    *CURRENT.lock().unwrap() = s;
}

pub fn install_panic_hook() {
    std::panic::set_hook(Box::new(|info| {
        let msg = if let Some(s) = info.payload().downcast_ref::<&str>() {
            s.to_string()
        } else if let Some(s) = info.payload().downcast_ref::<String>() {
            s.clone()
        } else {
            "<non-string panic>".to_string()
        };
        let loc = info
            .location()
            .map(|l| format!("{}:{}", l.file(), l.line()))
            .unwrap_or_default();
        *PANIC_INFO.lock().unwrap() = Some((msg, loc));
    }));
}

pub fn take_panic() -> Option<Value> {
    PANIC_INFO.lock().unwrap().take().map(|(msg, loc)| {
        // strip the absolute prefix so traces are stable
        let loc = loc.replace("/repo/", "");
        json!({"msg": msg, "loc": loc})
    })
}

/// virtual clock (ms since scenario start)
#[derive(Clone, Copy)]
pub struct Clock {
    start: tokio::time::Instant,
}

impl Clock {
    pub fn new() -> Self {
        Self {
            start: tokio::time::Instant::now(),
        }
    }
    pub fn now(&self) -> i64 {
        (tokio::time::Instant::now() - self.start).as_millis() as i64
    }
}

/// time-stamped log shared between callbacks (any thread) and the driver
#[derive(Clone)]
pub struct Recorder {
    clock: Clock,
    items: Arc<Mutex<Vec<(i64, Value)>>>,
}

impl Recorder {
    pub fn new(clock: Clock) -> Self {
        Self {
            clock,
            items: Arc::new(Mutex::new(Vec::new())),
        }
    }
    pub fn push(&self, v: Value) {
        let t = self.clock.now();
        self.items.lock().unwrap().push((t, v));
    }
    pub fn drain(&self) -> Vec<(i64, Value)> {
        std::mem::take(&mut *self.items.lock().unwrap())
    }
}

/// interning of byte strings -> small integers ("byte identity")
#[derive(Default)]
pub struct Interner {
    map: HashMap<Vec<u8>, i64>,
}

impl Interner {
    pub fn id(&mut self, data: &[u8]) -> i64 {
        let n = self.map.len() as i64 + 1;
        *self.map.entry(data.to_vec()).or_insert(n)
    }
}

/// pair mode keeps the raw bytes every endpoint writes (for forwarding)
pub static TAP_ON: std::sync::atomic::AtomicBool = std::sync::atomic::AtomicBool::new(false);

pub enum Chunk {
    Data(i64, Vec<u8>),
    Eof(i64),
}

/// the harness end of one connection
pub struct Conn {
    pub writer: tokio::io::WriteHalf<tokio::io::DuplexStream>,
    pub rx: Arc<Mutex<Vec<Chunk>>>,
    pub reader_task: tokio::task::JoinHandle<()>,
    /// bytes received but not yet parsed into complete frames
    pub pending: Vec<u8>,
    pub reasm: codec::Reassembler,
    pub tseq: u8,
    pub eof_seen: bool,
    /// pair mode: raw chunks the endpoint wrote, kept for forwarding to the peer
    pub tap: Option<Vec<(i64, Vec<u8>)>>,
}

impl Conn {
    /// create a pipe; returns (harness side, endpoint side)
    pub fn open(clock: Clock) -> (Conn, tokio::io::DuplexStream) {
        let (mine, theirs) = tokio::io::duplex(1 << 20);
        let (mut rd, wr) = tokio::io::split(mine);
        let rx: Arc<Mutex<Vec<Chunk>>> = Arc::new(Mutex::new(Vec::new()));
        let rx2 = rx.clone();
        let reader_task = tokio::spawn(async move {
            let mut buf = vec![0u8; 65536];
            loop {
                match rd.read(&mut buf).await {
                    Ok(0) | Err(_) => {
                        rx2.lock().unwrap().push(Chunk::Eof(clock.now()));
                        return;
                    }
                    Ok(n) => {
                        rx2.lock()
                            .unwrap()
                            .push(Chunk::Data(clock.now(), buf[..n].to_vec()));
                    }
                }
            }
        });
        (
            Conn {
                writer: wr,
                rx,
                reader_task,
                pending: Vec::new(),
                reasm: codec::Reassembler::new(),
                tseq: 0,
                eof_seen: false,
                tap: if TAP_ON.load(std::sync::atomic::Ordering::SeqCst) { Some(Vec::new()) } else { None },
            },
            theirs,
        )
    }

    pub async fn write(&mut self, data: &[u8]) -> bool {
        self.writer.write_all(data).await.is_ok()
    }

    /// write an application fragment as link frames (unconfirmed user data), optionally split
    pub async fn send_fragment(
        &mut self,
        frag: &[u8],
        ctrl: u8,
        dst: u16,
        src: u16,
    ) -> (usize, bool) {
        let segs = codec::segment(frag, self.tseq);
        self.tseq = (self.tseq + segs.len() as u8) & 0x3F;
        let mut ok = true;
        for s in &segs {
            let f = codec::build_link_frame(ctrl, dst, src, s);
            ok &= self.write(&f).await;
        }
        (segs.len(), ok)
    }

    /// what the endpoint transmitted since the last call
    pub fn drain(&mut self) -> Vec<Chunk> {
        std::mem::take(&mut *self.rx.lock().unwrap())
    }
}

/// outputs decoded from the wire: application fragments, link-layer frames, anomalies
#[derive(Default)]
pub struct WireOut {
    /// (t, fragment bytes, link dst, link src)
    pub frags: Vec<(i64, Vec<u8>, u16, u16)>,
    /// (t, link frame) for non-data frames
    pub link: Vec<(i64, codec::LinkFrame)>,
    pub errors: Vec<String>,
    pub eof: bool,
}

/// decode everything drained from a connection
pub fn decode_wire(conn: &mut Conn) -> WireOut {
    let mut out = WireOut::default();
    for c in conn.drain() {
        match c {
            Chunk::Eof(_) => {
                out.eof = true;
                conn.eof_seen = true;
            }
            Chunk::Data(t, bytes) => {
                if let Some(tap) = conn.tap.as_mut() {
                    tap.push((t, bytes.clone()));
                }
                conn.pending.extend_from_slice(&bytes);
                let (frames, rest, err) = codec::parse_clean_stream(&conn.pending);
                match err {
                    Some("incomplete") | None => conn.pending = rest,
                    Some(e) => {
                        out.errors.push(format!("bad_link_tx:{e}:{}", codec::hex(&rest)));
                        conn.pending.clear();
                    }
                }
                for f in frames {
                    let func = f.func();
                    if func == codec::FN_PRI_UNCONFIRMED_DATA || func == codec::FN_PRI_CONFIRMED_DATA
                    {
                        match conn.reasm.push(&f.payload) {
                            Ok(Some(frag)) => out.frags.push((t, frag, f.dst, f.src)),
                            Ok(None) => {}
                            Err(e) => out.errors.push(format!("bad_transport_tx:{e}")),
                        }
                    } else {
                        out.link.push((t, f));
                    }
                }
            }
        }
    }
    out
}

pub fn link_json(t: i64, f: &codec::LinkFrame) -> Value {
    json!({
        "t": t,
        "fn": f.func_name(),
        "ctrl": f.ctrl as i64,
        "dst": f.dst as i64,
        "src": f.src as i64,
        "dir": f.ctrl & codec::CTRL_DIR != 0,
        "fcb": f.ctrl & codec::CTRL_FCB != 0,
        "fcv": f.ctrl & codec::CTRL_FCV != 0,
    })
}

pub fn decode_level(name: &str) -> dnp3::decode::DecodeLevel {
    use dnp3::decode::*;
    match name {
        "header" => DecodeLevel::new(
            AppDecodeLevel::Header,
            TransportDecodeLevel::Header,
            LinkDecodeLevel::Header,
            PhysDecodeLevel::Length,
        ),
        "object_headers" => DecodeLevel::new(
            AppDecodeLevel::ObjectHeaders,
            TransportDecodeLevel::Header,
            LinkDecodeLevel::Header,
            PhysDecodeLevel::Length,
        ),
        "object_values" | "all" => DecodeLevel::new(
            AppDecodeLevel::ObjectValues,
            TransportDecodeLevel::Payload,
            LinkDecodeLevel::Payload,
            PhysDecodeLevel::Data,
        ),
        _ => DecodeLevel::nothing(),
    }
}

pub fn error_mode(name: &str) -> dnp3::link::LinkErrorMode {
    match name {
        "discard" => dnp3::link::LinkErrorMode::Discard,
        _ => dnp3::link::LinkErrorMode::Close,
    }
}

/// settle: let every task run to quiescence at the current virtual instant (+1 ms)
pub async fn settle() {
    tokio::time::sleep(std::time::Duration::from_millis(1)).await;
    quiesce().await;
    tick();
}

/// let everything that became runnable at the current virtual instant (timers that fired together
/// with the driver's own sleep, and what they caused) run before the driver looks at the outputs.
/// Yielding never advances the paused clock.
pub async fn quiesce() {
    for _ in 0..64 {
        tokio::task::yield_now().await;
    }
}


/// C09 cross-check: a fragment the endpoint under test transmitted is parsed by the library's parser in the
/// peer's role and compared with what the harness codec reads: function / control / IIN bytes, object headers
/// (group, variation, qualifier, count, range).  "ok" or a description of the first difference.
pub fn peer_check(frag: &[u8], is_response: bool) -> String {
    let f = frag.to_vec();
    let res = std::panic::catch_unwind(move || {
        dnp3::verif_shim::parse_summary(&f, !is_response, dnp3::decode::AppDecodeLevel::ObjectValues)
    });
    let s = match res {
        Ok(s) => s,
        Err(_) => {
            let _ = take_panic();
            return "panic".to_string();
        }
    };
    let hdr_len = if is_response { 4 } else { 2 };
    if frag.len() < hdr_len {
        return "short".to_string();
    }
    if s.header != "ok" {
        return format!("header:{}", s.header);
    }
    if s.role != "ok" {
        return format!("role:{}", s.role);
    }
    if s.objects != "ok" {
        return format!("objects:{}", s.objects);
    }
    let with_data = is_response || frag[1] != 1;
    let w = codec::walk_objects(&frag[hdr_len..], with_data);
    if w.error.is_some() {
        return format!("reference:{:?}", w.error);
    }
    if w.headers.len() != s.headers.len() {
        return format!("header-count:{}!={}", s.headers.len(), w.headers.len());
    }
    for (a, b) in s.headers.iter().zip(w.headers.iter()) {
        let count = match (b.range, b.count) {
            (Some((x, y)), _) => (y - x + 1) as usize,
            (None, Some(c)) => c as usize,
            _ => 0,
        };
        let rng = b.range.map(|(x, y)| (Some(x), Some(y))).unwrap_or((None, None));
        if a.group != b.g || a.variation != b.v || a.qualifier != b.q || a.count != count || (a.first, a.last) != rng {
            return format!("header:g{}v{} q{:02x} count {} vs g{}v{} q{:02x} count {}", a.group, a.variation, a.qualifier, a.count, b.g, b.v, b.q, count);
        }
    }
    "ok".to_string()
}
