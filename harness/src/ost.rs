//! Outstation-side scenario runner: drives the production outstation stack over a pipe with a
//! paused clock and records an O-trace (DESIGN.md §3.1).  No expectations live here.

use serde::Deserialize;
use serde_json::{json, Map, Value};
use std::sync::{Arc, Mutex};
use std::time::Duration;

use dnp3::app::control::*;
use dnp3::app::measurement::*;
use dnp3::app::{BufferSize, MaybeAsync, RequestHeader, Sequence, Timeout, Timestamp};
use dnp3::link::EndpointAddress;
use dnp3::outstation::database::*;
use dnp3::outstation::*;
use dnp3::verif_shim as shim;

use crate::codec;
use crate::common::*;

fn d_true() -> bool {
    true
}
fn d_5000() -> u64 {
    5000
}
fn d_2048() -> usize {
    2048
}
fn d_oaddr() -> u16 {
    1024
}
fn d_maddr() -> u16 {
    1
}
fn d_close() -> String {
    "close".into()
}
fn d_nothing() -> String {
    "nothing".into()
}
fn d_evmax() -> Vec<u16> {
    vec![10; 8]
}

#[derive(Deserialize, Clone, Debug)]
pub struct PointCfg {
    pub ty: String,
    pub ix: u16,
    #[serde(default)]
    pub cls: u8,
    #[serde(default)]
    pub svar: u8,
    #[serde(default)]
    pub evar: u8,
    #[serde(default)]
    pub db: f64,
    /// initial value set before the endpoint starts (no event, no trace line)
    #[serde(default)]
    pub init: Value,
}

#[derive(Deserialize, Clone, Debug)]
pub struct OstCfg {
    #[serde(default = "d_oaddr")]
    pub oaddr: u16,
    #[serde(default = "d_maddr")]
    pub maddr: u16,
    #[serde(default = "d_2048")]
    pub sol_buf: usize,
    #[serde(default = "d_2048")]
    pub unsol_buf: usize,
    #[serde(default = "d_2048")]
    pub rx_buf: usize,
    #[serde(default = "d_5000")]
    pub confirm_to: u64,
    #[serde(default = "d_5000")]
    pub select_to: u64,
    #[serde(default = "d_true")]
    pub unsol: bool,
    #[serde(default = "d_true")]
    pub broadcast: bool,
    #[serde(default)]
    pub self_addr: bool,
    #[serde(default)]
    pub any_master: bool,
    #[serde(default)]
    pub max_retries: Option<usize>,
    #[serde(default = "d_5000")]
    pub retry_delay: u64,
    #[serde(default)]
    pub keep_alive: Option<u64>,
    #[serde(default)]
    pub max_controls: Option<u16>,
    #[serde(default)]
    pub max_read_headers: Option<u16>,
    #[serde(default = "d_evmax")]
    pub evmax: Vec<u16>,
    /// class zero membership for [bi,dbi,bos,ctr,fctr,ai,aos,os]; default = library default
    #[serde(default)]
    pub class_zero: Option<Vec<bool>>,
    #[serde(default)]
    pub points: Vec<PointCfg>,
    #[serde(default = "d_close")]
    pub error_mode: String,
    #[serde(default = "d_nothing")]
    pub decode: String,
    /// initial application script
    #[serde(default)]
    pub app: Value,
}

/// scripted behaviour of the user callbacks
#[derive(Clone, Debug)]
pub struct AppScript {
    pub need_time: bool,
    /// a successful write_absolute_time clears need_time (an application that sets its clock)
    pub clear_need_time: bool,
    pub local_control: bool,
    pub device_trouble: bool,
    pub config_corrupt: bool,
    pub processing_delay: u16,
    /// None = not supported; Some(("s"|"ms", value))
    pub cold_restart: Option<(bool, u16)>,
    pub warm_restart: Option<(bool, u16)>,
    /// "ok" | "param" | "nosup"
    pub write_time: String,
    pub freeze: String,
    pub deadbands: bool,
    /// default status for select/operate and per-index overrides
    pub ctl_default: u8,
    pub ctl_select: Vec<(u16, u8)>,
    pub ctl_operate: Vec<(u16, u8)>,
}

impl Default for AppScript {
    fn default() -> Self {
        Self {
            need_time: false,
            clear_need_time: false,
            local_control: false,
            device_trouble: false,
            config_corrupt: false,
            processing_delay: 0,
            cold_restart: None,
            warm_restart: None,
            write_time: "ok".into(),
            freeze: "ok".into(),
            deadbands: true,
            ctl_default: 0,
            ctl_select: Vec::new(),
            ctl_operate: Vec::new(),
        }
    }
}

fn parse_restart(v: &Value) -> Option<(bool, u16)> {
    let a = v.as_array()?;
    Some((a[0].as_str()? == "s", a[1].as_u64()? as u16))
}

impl AppScript {
    pub fn apply(&mut self, v: &Value) {
        let o = match v.as_object() {
            Some(o) => o,
            None => return,
        };
        for (k, x) in o {
            match k.as_str() {
                "need_time" => self.need_time = x.as_bool().unwrap_or(false),
                "clear_need_time" => self.clear_need_time = x.as_bool().unwrap_or(false),
                "local_control" => self.local_control = x.as_bool().unwrap_or(false),
                "device_trouble" => self.device_trouble = x.as_bool().unwrap_or(false),
                "config_corrupt" => self.config_corrupt = x.as_bool().unwrap_or(false),
                "processing_delay" => self.processing_delay = x.as_u64().unwrap_or(0) as u16,
                "cold_restart" => self.cold_restart = parse_restart(x),
                "warm_restart" => self.warm_restart = parse_restart(x),
                "write_time" => self.write_time = x.as_str().unwrap_or("ok").to_string(),
                "freeze" => self.freeze = x.as_str().unwrap_or("ok").to_string(),
                "deadbands" => self.deadbands = x.as_bool().unwrap_or(true),
                "ctl_default" => self.ctl_default = x.as_u64().unwrap_or(0) as u8,
                "ctl_select" | "ctl_operate" => {
                    let mut out = Vec::new();
                    if let Some(a) = x.as_array() {
                        for p in a {
                            out.push((p[0].as_u64().unwrap() as u16, p[1].as_u64().unwrap() as u8));
                        }
                    }
                    if k == "ctl_select" {
                        self.ctl_select = out
                    } else {
                        self.ctl_operate = out
                    }
                }
                _ => {}
            }
        }
    }
}

pub type Script = Arc<Mutex<AppScript>>;

fn req_err(s: &str) -> Result<(), RequestError> {
    match s {
        "param" => Err(RequestError::ParameterError),
        "nosup" => Err(RequestError::NotSupported),
        _ => Ok(()),
    }
}

pub struct App {
    pub rec: Recorder,
    pub script: Script,
}

impl OutstationApplication for App {
    fn get_processing_delay_ms(&self) -> u16 {
        self.script.lock().unwrap().processing_delay
    }
    fn write_absolute_time(&mut self, time: Timestamp) -> Result<(), RequestError> {
        self.rec
            .push(json!(["app", "write_time", codec::jint(time.raw_value() as i128)]));
        let mut s = self.script.lock().unwrap();
        if s.clear_need_time && s.write_time == "ok" {
            s.need_time = false;
        }
        req_err(&s.write_time)
    }
    fn get_application_iin(&self) -> ApplicationIin {
        let s = self.script.lock().unwrap();
        ApplicationIin {
            need_time: s.need_time,
            local_control: s.local_control,
            device_trouble: s.device_trouble,
            config_corrupt: s.config_corrupt,
        }
    }
    fn cold_restart(&mut self) -> Option<RestartDelay> {
        self.rec.push(json!(["app", "cold_restart"]));
        self.script.lock().unwrap().cold_restart.map(|(s, v)| {
            if s {
                RestartDelay::Seconds(v)
            } else {
                RestartDelay::Milliseconds(v)
            }
        })
    }
    fn warm_restart(&mut self) -> Option<RestartDelay> {
        self.rec.push(json!(["app", "warm_restart"]));
        self.script.lock().unwrap().warm_restart.map(|(s, v)| {
            if s {
                RestartDelay::Seconds(v)
            } else {
                RestartDelay::Milliseconds(v)
            }
        })
    }
    fn freeze_counter(
        &mut self,
        indices: FreezeIndices,
        freeze_type: FreezeType,
        _database: &mut DatabaseHandle,
    ) -> Result<(), RequestError> {
        let ix = match indices {
            FreezeIndices::All => json!("all"),
            FreezeIndices::Range(a, b) => json!([a, b]),
        };
        let ft = match freeze_type {
            FreezeType::ImmediateFreeze => "freeze",
            FreezeType::FreezeAndClear => "freeze_clear",
            FreezeType::FreezeAtTime(_) => "freeze_at_time",
            #[allow(unreachable_patterns)]
            _ => "other",
        };
        self.rec.push(json!(["app", "freeze", ft, ix]));
        req_err(&self.script.lock().unwrap().freeze)
    }
    fn support_write_analog_dead_bands(&mut self) -> bool {
        self.script.lock().unwrap().deadbands
    }
    fn begin_write_analog_dead_bands(&mut self) {
        self.rec.push(json!(["app", "begin_deadbands"]));
    }
    fn write_analog_dead_band(&mut self, index: u16, dead_band: f64) {
        self.rec
            .push(json!(["app", "deadband", index, codec::jfloat(dead_band)]));
    }
    fn end_write_analog_dead_bands(&mut self) -> MaybeAsync<()> {
        self.rec.push(json!(["app", "end_deadbands"]));
        MaybeAsync::ready(())
    }
    fn begin_confirm(&mut self) {
        self.rec.push(json!(["app", "begin_confirm"]));
    }
    fn event_cleared(&mut self, id: u64) {
        self.rec.push(json!(["app", "cleared", id]));
    }
    fn end_confirm(&mut self, state: BufferState) -> MaybeAsync<()> {
        let c = state.classes;
        let t = state.types;
        self.rec.push(json!([
            "app",
            "end_confirm",
            [c.num_class_1, c.num_class_2, c.num_class_3],
            [
                t.num_binary_input,
                t.num_double_bit_binary_input,
                t.num_binary_output_status,
                t.num_counter,
                t.num_frozen_counter,
                t.num_analog,
                t.num_analog_output_status,
                t.num_octet_string
            ]
        ]));
        MaybeAsync::ready(())
    }
}

pub struct Info {
    pub rec: Recorder,
}

fn sq(s: Sequence) -> i64 {
    s.value() as i64
}

impl OutstationInformation for Info {
    fn process_request_from_idle(&mut self, header: RequestHeader) {
        self.rec.push(json!([
            "info",
            "request_from_idle",
            sq(header.control.seq),
            header.function.as_u8() as i64
        ]));
    }
    fn broadcast_received(&mut self, function: dnp3::app::FunctionCode, action: BroadcastAction) {
        let a = match action {
            BroadcastAction::Processed => "processed",
            BroadcastAction::IgnoredByConfiguration => "ignored_by_config",
            BroadcastAction::BadObjectHeaders => "bad_headers",
            BroadcastAction::UnsupportedFunction(_) => "unsupported_function",
        };
        self.rec
            .push(json!(["info", "broadcast", function.as_u8() as i64, a]));
    }
    fn enter_solicited_confirm_wait(&mut self, ecsn: Sequence) {
        self.rec.push(json!(["info", "enter_sol_wait", sq(ecsn)]));
    }
    fn solicited_confirm_timeout(&mut self, ecsn: Sequence) {
        self.rec.push(json!(["info", "sol_timeout", sq(ecsn)]));
    }
    fn solicited_confirm_received(&mut self, ecsn: Sequence) {
        self.rec.push(json!(["info", "sol_confirmed", sq(ecsn)]));
    }
    fn solicited_confirm_wait_new_request(&mut self) {
        self.rec.push(json!(["info", "sol_wait_new_request"]));
    }
    fn wrong_solicited_confirm_seq(&mut self, ecsn: Sequence, seq: Sequence) {
        self.rec
            .push(json!(["info", "wrong_sol_confirm", sq(ecsn), sq(seq)]));
    }
    fn unexpected_confirm(&mut self, unsolicited: bool, seq: Sequence) {
        self.rec
            .push(json!(["info", "unexpected_confirm", unsolicited, sq(seq)]));
    }
    fn enter_unsolicited_confirm_wait(&mut self, ecsn: Sequence) {
        self.rec.push(json!(["info", "enter_unsol_wait", sq(ecsn)]));
    }
    fn unsolicited_confirm_timeout(&mut self, ecsn: Sequence, retry: bool) {
        self.rec
            .push(json!(["info", "unsol_timeout", sq(ecsn), retry]));
    }
    fn unsolicited_confirmed(&mut self, ecsn: Sequence) {
        self.rec.push(json!(["info", "unsol_confirmed", sq(ecsn)]));
    }
    fn clear_restart_iin(&mut self) {
        self.rec.push(json!(["info", "clear_restart_iin"]));
    }
}

pub struct Ctl {
    pub rec: Recorder,
    pub script: Script,
}

impl Ctl {
    fn status(&self, select: bool, index: u16) -> CommandStatus {
        let s = self.script.lock().unwrap();
        let list = if select { &s.ctl_select } else { &s.ctl_operate };
        for (ix, st) in list {
            if *ix == index {
                return CommandStatus::from(*st);
            }
        }
        CommandStatus::from(s.ctl_default)
    }
}

fn op_name(t: OperateType) -> &'static str {
    match t {
        OperateType::SelectBeforeOperate => "sbo",
        OperateType::DirectOperate => "do",
        OperateType::DirectOperateNoAck => "dona",
    }
}

impl ControlHandler for Ctl {
    fn begin_fragment(&mut self) {
        self.rec.push(json!(["ctl", "begin"]));
    }
    fn end_fragment(&mut self, _database: &mut DatabaseHandle) -> MaybeAsync<()> {
        self.rec.push(json!(["ctl", "end"]));
        MaybeAsync::ready(())
    }
}

macro_rules! ctl_support {
    ($t:ty, $name:expr, $val:expr) => {
        impl ControlSupport<$t> for Ctl {
            fn select(
                &mut self,
                control: $t,
                index: u16,
                _database: &mut DatabaseHandle,
            ) -> CommandStatus {
                let f: fn(&$t) -> Value = $val;
                self.rec
                    .push(json!(["ctl", "select", $name, index, f(&control)]));
                self.status(true, index)
            }
            fn operate(
                &mut self,
                control: $t,
                index: u16,
                op_type: OperateType,
                _database: &mut DatabaseHandle,
            ) -> CommandStatus {
                let f: fn(&$t) -> Value = $val;
                self.rec.push(json!([
                    "ctl",
                    "operate",
                    $name,
                    index,
                    f(&control),
                    op_name(op_type)
                ]));
                self.status(false, index)
            }
        }
    };
}

ctl_support!(Group12Var1, "g12v1", |c| json!([
    shim::control_code_u8(c.code) as i64,
    c.count as i64,
    codec::jint(c.on_time as i128),
    codec::jint(c.off_time as i128)
]));
ctl_support!(Group41Var1, "g41v1", |c| codec::jint(c.value as i128));
ctl_support!(Group41Var2, "g41v2", |c| codec::jint(c.value as i128));
ctl_support!(Group41Var3, "g41v3", |c| codec::jfloat(c.value as f64));
ctl_support!(Group41Var4, "g41v4", |c| codec::jfloat(c.value));

// ---------------------------------------------------------------- configuration

fn ev_class(c: u8) -> Option<EventClass> {
    match c {
        1 => Some(EventClass::Class1),
        2 => Some(EventClass::Class2),
        3 => Some(EventClass::Class3),
        _ => None,
    }
}

pub fn add_point(db: &mut Database, p: &PointCfg) -> bool {
    let cls = ev_class(p.cls);
    match p.ty.as_str() {
        "bi" => {
            let s = match p.svar {
                1 => StaticBinaryInputVariation::Group1Var1,
                _ => StaticBinaryInputVariation::Group1Var2,
            };
            let e = match p.evar {
                2 => EventBinaryInputVariation::Group2Var2,
                3 => EventBinaryInputVariation::Group2Var3,
                _ => EventBinaryInputVariation::Group2Var1,
            };
            db.add(p.ix, cls, BinaryInputConfig::new(s, e))
        }
        "dbi" => {
            let s = match p.svar {
                1 => StaticDoubleBitBinaryInputVariation::Group3Var1,
                _ => StaticDoubleBitBinaryInputVariation::Group3Var2,
            };
            let e = match p.evar {
                2 => EventDoubleBitBinaryInputVariation::Group4Var2,
                3 => EventDoubleBitBinaryInputVariation::Group4Var3,
                _ => EventDoubleBitBinaryInputVariation::Group4Var1,
            };
            db.add(p.ix, cls, DoubleBitBinaryInputConfig::new(s, e))
        }
        "bos" => {
            let s = match p.svar {
                1 => StaticBinaryOutputStatusVariation::Group10Var1,
                _ => StaticBinaryOutputStatusVariation::Group10Var2,
            };
            let e = match p.evar {
                2 => EventBinaryOutputStatusVariation::Group11Var2,
                _ => EventBinaryOutputStatusVariation::Group11Var1,
            };
            db.add(p.ix, cls, BinaryOutputStatusConfig::new(s, e))
        }
        "ctr" => {
            let s = match p.svar {
                2 => StaticCounterVariation::Group20Var2,
                5 => StaticCounterVariation::Group20Var5,
                6 => StaticCounterVariation::Group20Var6,
                _ => StaticCounterVariation::Group20Var1,
            };
            let e = match p.evar {
                2 => EventCounterVariation::Group22Var2,
                5 => EventCounterVariation::Group22Var5,
                6 => EventCounterVariation::Group22Var6,
                _ => EventCounterVariation::Group22Var1,
            };
            db.add(p.ix, cls, CounterConfig::new(s, e, p.db as u32))
        }
        "fctr" => {
            let s = match p.svar {
                2 => StaticFrozenCounterVariation::Group21Var2,
                5 => StaticFrozenCounterVariation::Group21Var5,
                6 => StaticFrozenCounterVariation::Group21Var6,
                9 => StaticFrozenCounterVariation::Group21Var9,
                10 => StaticFrozenCounterVariation::Group21Var10,
                _ => StaticFrozenCounterVariation::Group21Var1,
            };
            let e = match p.evar {
                2 => EventFrozenCounterVariation::Group23Var2,
                5 => EventFrozenCounterVariation::Group23Var5,
                6 => EventFrozenCounterVariation::Group23Var6,
                _ => EventFrozenCounterVariation::Group23Var1,
            };
            db.add(p.ix, cls, FrozenCounterConfig::new(s, e, p.db as u32))
        }
        "ai" => {
            let s = match p.svar {
                2 => StaticAnalogInputVariation::Group30Var2,
                3 => StaticAnalogInputVariation::Group30Var3,
                4 => StaticAnalogInputVariation::Group30Var4,
                5 => StaticAnalogInputVariation::Group30Var5,
                6 => StaticAnalogInputVariation::Group30Var6,
                _ => StaticAnalogInputVariation::Group30Var1,
            };
            let e = match p.evar {
                2 => EventAnalogInputVariation::Group32Var2,
                3 => EventAnalogInputVariation::Group32Var3,
                4 => EventAnalogInputVariation::Group32Var4,
                5 => EventAnalogInputVariation::Group32Var5,
                6 => EventAnalogInputVariation::Group32Var6,
                7 => EventAnalogInputVariation::Group32Var7,
                8 => EventAnalogInputVariation::Group32Var8,
                _ => EventAnalogInputVariation::Group32Var1,
            };
            db.add(p.ix, cls, AnalogInputConfig::new(s, e, p.db))
        }
        "aos" => {
            let s = match p.svar {
                2 => StaticAnalogOutputStatusVariation::Group40Var2,
                3 => StaticAnalogOutputStatusVariation::Group40Var3,
                4 => StaticAnalogOutputStatusVariation::Group40Var4,
                _ => StaticAnalogOutputStatusVariation::Group40Var1,
            };
            let e = match p.evar {
                2 => EventAnalogOutputStatusVariation::Group42Var2,
                3 => EventAnalogOutputStatusVariation::Group42Var3,
                4 => EventAnalogOutputStatusVariation::Group42Var4,
                5 => EventAnalogOutputStatusVariation::Group42Var5,
                6 => EventAnalogOutputStatusVariation::Group42Var6,
                7 => EventAnalogOutputStatusVariation::Group42Var7,
                8 => EventAnalogOutputStatusVariation::Group42Var8,
                _ => EventAnalogOutputStatusVariation::Group42Var1,
            };
            db.add(p.ix, cls, AnalogOutputStatusConfig::new(s, e, p.db))
        }
        "os" => db.add(p.ix, cls, OctetStringConfig),
        _ => false,
    }
}

fn mk_time(tm: &Value, tq: &str) -> Option<Time> {
    let t = if let Some(n) = tm.as_u64() {
        n
    } else if let Some(s) = tm.as_str() {
        s.strip_prefix("n:")?.parse::<u64>().ok()?
    } else {
        return None;
    };
    Some(if tq == "u" {
        Time::unsynchronized(t)
    } else {
        Time::synchronized(t)
    })
}

fn parse_num(v: &Value) -> f64 {
    if let Some(n) = v.as_f64() {
        n
    } else if let Some(s) = v.as_str() {
        let s = s.trim_start_matches("f:").trim_start_matches("n:");
        match s {
            "nan" => f64::NAN,
            "inf" => f64::INFINITY,
            "-inf" => f64::NEG_INFINITY,
            _ => s.parse().unwrap_or(0.0),
        }
    } else {
        0.0
    }
}

fn os_bytes(v: &Value) -> Vec<u8> {
    // "os<len>:<fill>" | "osraw:hex"
    let s = v.as_str().unwrap_or("os1:0");
    if let Some(h) = s.strip_prefix("osraw:") {
        return codec::unhex(h);
    }
    let s = s.trim_start_matches("os");
    let mut it = s.split(':');
    let len: usize = it.next().and_then(|x| x.parse().ok()).unwrap_or(1);
    let fill: u8 = it.next().and_then(|x| x.parse().ok()).unwrap_or(0);
    vec![fill; len]
}

pub fn do_update(db: &mut Database, u: &Value) -> UpdateInfo {
    let ty = u["ty"].as_str().unwrap_or("");
    let ix = u["ix"].as_u64().unwrap_or(0) as u16;
    let fl = Flags::new(u["fl"].as_u64().unwrap_or(1) as u8);
    let tq = u["tq"].as_str().unwrap_or("s");
    let tm = mk_time(&u["tm"], tq);
    let mode = match u["mode"].as_str().unwrap_or("detect") {
        "force" => EventMode::Force,
        "suppress" => EventMode::Suppress,
        _ => EventMode::Detect,
    };
    let opt = UpdateOptions::new(u["static"].as_bool().unwrap_or(true), mode);
    let val = &u["val"];
    match ty {
        "bi" => {
            let mut m = BinaryInput::new(val.as_u64().unwrap_or(0) != 0, fl, Time::synchronized(0));
            m.time = tm;
            db.update2(ix, &m, opt)
        }
        "dbi" => {
            let d = match val.as_u64().unwrap_or(0) {
                0 => DoubleBit::Intermediate,
                1 => DoubleBit::DeterminedOff,
                2 => DoubleBit::DeterminedOn,
                _ => DoubleBit::Indeterminate,
            };
            let mut m = DoubleBitBinaryInput::new(d, fl, Time::synchronized(0));
            m.time = tm;
            db.update2(ix, &m, opt)
        }
        "bos" => {
            let mut m =
                BinaryOutputStatus::new(val.as_u64().unwrap_or(0) != 0, fl, Time::synchronized(0));
            m.time = tm;
            db.update2(ix, &m, opt)
        }
        "ctr" => {
            let mut m = Counter::new(parse_num(val) as u32, fl, Time::synchronized(0));
            m.time = tm;
            db.update2(ix, &m, opt)
        }
        "fctr" => {
            let mut m = FrozenCounter::new(parse_num(val) as u32, fl, Time::synchronized(0));
            m.time = tm;
            db.update2(ix, &m, opt)
        }
        "ai" => {
            let mut m = AnalogInput::new(parse_num(val), fl, Time::synchronized(0));
            m.time = tm;
            db.update2(ix, &m, opt)
        }
        "aos" => {
            let mut m = AnalogOutputStatus::new(parse_num(val), fl, Time::synchronized(0));
            m.time = tm;
            db.update2(ix, &m, opt)
        }
        "os" => match OctetString::new(&os_bytes(val)) {
            Ok(m) => db.update2(ix, &m, opt),
            Err(_) => UpdateInfo::NoPoint,
        },
        _ => UpdateInfo::NoPoint,
    }
}

pub fn info_json(i: UpdateInfo) -> Value {
    match i {
        UpdateInfo::NoPoint => json!("nopoint"),
        UpdateInfo::NoEvent => json!("noevent"),
        UpdateInfo::Created(id) => json!(["created", id]),
        UpdateInfo::Overflow { created, discarded } => json!(["overflow", created, discarded]),
    }
}

pub fn make_config(cfg: &OstCfg) -> OutstationConfig {
    let e = &cfg.evmax;
    let g = |i: usize| e.get(i).copied().unwrap_or(0);
    let mut c = OutstationConfig::new(
        EndpointAddress::try_new(cfg.oaddr).unwrap(),
        EndpointAddress::try_new(cfg.maddr).unwrap(),
        EventBufferConfig::new(g(0), g(1), g(2), g(3), g(4), g(5), g(6), g(7)),
    );
    c.solicited_buffer_size = BufferSize::new(cfg.sol_buf).unwrap();
    c.unsolicited_buffer_size = BufferSize::new(cfg.unsol_buf).unwrap();
    c.rx_buffer_size = BufferSize::new(cfg.rx_buf).unwrap();
    c.decode_level = decode_level(&cfg.decode);
    c.confirm_timeout = Timeout::from_millis(cfg.confirm_to).unwrap();
    c.select_timeout = Timeout::from_millis(cfg.select_to).unwrap();
    let f = |b: bool| if b { Feature::Enabled } else { Feature::Disabled };
    c.features.self_address = f(cfg.self_addr);
    c.features.broadcast = f(cfg.broadcast);
    c.features.unsolicited = f(cfg.unsol);
    c.features.respond_to_any_master = f(cfg.any_master);
    c.max_unsolicited_retries = cfg.max_retries;
    c.unsolicited_retry_delay = Duration::from_millis(cfg.retry_delay);
    c.keep_alive_timeout = cfg.keep_alive.map(Duration::from_millis);
    c.max_controls_per_request = cfg.max_controls;
    c.max_read_request_headers = cfg.max_read_headers;
    if let Some(z) = &cfg.class_zero {
        let g = |i: usize| z.get(i).copied().unwrap_or(false);
        c.class_zero = ClassZeroConfig::new(g(0), g(1), g(2), g(3), g(4), g(5), g(6), g(7));
    }
    c
}

// ---------------------------------------------------------------- the runner

pub struct Run {
    pub cfg: OstCfg,
    pub clock: Clock,
    pub rec: Recorder,
    pub sess: Arc<Mutex<Vec<(i64, String)>>>,
    pub script: Script,
    pub handle: OutstationHandle,
    pub pipes: tokio::sync::mpsc::UnboundedSender<shim::Pipe>,
    pub task: tokio::task::JoinHandle<()>,
    pub conn: Option<Conn>,
    pub intern: Interner,
    pub last_req_seq: Option<u8>,
    pub last_req_bytes: Option<Vec<u8>>,
    pub last_sol_con: Option<u8>,
    pub last_sol_seq: Option<u8>,
    pub last_unsol_seq: Option<u8>,
    pub dead: bool,
}

fn seq_of(v: &Value, next: u8, same: u8) -> u8 {
    if let Some(n) = v.as_u64() {
        return (n & 0x0F) as u8;
    }
    match v.as_str() {
        Some("same") => same,
        Some("prev") => same.wrapping_sub(1) & 0x0F,
        Some("next2") => (next + 1) & 0x0F,
        Some("far") => (next + 7) & 0x0F,
        _ => next,
    }
}

impl Run {
    pub fn new(cfg: OstCfg) -> Run {
        let clock = Clock::new();
        let rec = Recorder::new(clock);
        let mut s = AppScript::default();
        s.apply(&cfg.app);
        let script: Script = Arc::new(Mutex::new(s));
        let (endpoint, handle) = shim::Endpoint::outstation(
            make_config(&cfg),
            error_mode(&cfg.error_mode),
            Box::new(App {
                rec: rec.clone(),
                script: script.clone(),
            }),
            Box::new(Info { rec: rec.clone() }),
            Box::new(Ctl {
                rec: rec.clone(),
                script: script.clone(),
            }),
        );
        handle.transaction(|db| {
            for p in &cfg.points {
                add_point(db, p);
                if p.init.is_object() {
                    let mut u = p.init.clone();
                    let o = u.as_object_mut().unwrap();
                    o.insert("ty".into(), json!(p.ty));
                    o.insert("ix".into(), json!(p.ix));
                    o.insert("mode".into(), json!("suppress"));
                    do_update(db, &u);
                }
            }
        });
        let (ptx, prx) = tokio::sync::mpsc::unbounded_channel();
        let sess: Arc<Mutex<Vec<(i64, String)>>> = Arc::new(Mutex::new(Vec::new()));
        let sess2 = sess.clone();
        let task = tokio::spawn(endpoint.run(
            prx,
            Box::new(move |e| {
                let s = match e {
                    shim::SessionEvent::Connected => "connected".to_string(),
                    shim::SessionEvent::LinkError(x) => format!("link_error:{x}"),
                    shim::SessionEvent::Disabled => "disabled".to_string(),
                    shim::SessionEvent::Shutdown => "shutdown".to_string(),
                    shim::SessionEvent::NoMorePipes => "no_more_pipes".to_string(),
                };
                sess2.lock().unwrap().push((clock.now(), s));
            }),
        ));
        Run {
            cfg,
            clock,
            rec,
            sess,
            script,
            handle,
            pipes: ptx,
            task,
            conn: None,
            intern: Interner::default(),
            last_req_seq: None,
            last_req_bytes: None,
            last_sol_con: None,
            last_sol_seq: None,
            last_unsol_seq: None,
            dead: false,
        }
    }

    /// gather everything the endpoint produced since the last call into `line`
    pub fn collect(&mut self, line: &mut Map<String, Value>) {
        let mut tx = Vec::new();
        let mut ltx = Vec::new();
        let mut errs = Vec::new();
        if let Some(conn) = self.conn.as_mut() {
            let w = decode_wire(conn);
            for (t, frag, dst, src) in w.frags {
                let mut d = codec::decode_fragment(&frag, true);
                d["peer"] = json!(peer_check(&frag, true));
                d["ext"] = crate::extract::items(&frag);
                let o = d.as_object_mut().unwrap();
                o.insert("t".into(), json!(t));
                o.insert("bid".into(), json!(self.intern.id(&frag)));
                o.insert("dst".into(), json!(dst));
                o.insert("src".into(), json!(src));
                if frag.len() >= 2 {
                    let seq = frag[0] & 0x0F;
                    if frag[0] & codec::AC_UNS != 0 {
                        self.last_unsol_seq = Some(seq);
                    } else {
                        self.last_sol_seq = Some(seq);
                        if frag[0] & codec::AC_CON != 0 {
                            self.last_sol_con = Some(seq);
                        }
                    }
                }
                tx.push(d);
            }
            for (t, f) in w.link {
                ltx.push(link_json(t, &f));
            }
            errs = w.errors;
            if w.eof {
                line.insert("eof".into(), json!(true));
            }
        }
        let cb: Vec<Value> = self
            .rec
            .drain()
            .into_iter()
            .map(|(t, mut v)| {
                v.as_array_mut().unwrap().insert(0, json!(t));
                v
            })
            .collect();
        let sess: Vec<Value> = std::mem::take(&mut *self.sess.lock().unwrap())
            .into_iter()
            .map(|(t, s)| json!([t, s]))
            .collect();
        line.insert("tx".into(), Value::Array(tx));
        line.insert("ltx".into(), Value::Array(ltx));
        line.insert("cb".into(), Value::Array(cb));
        if !sess.is_empty() {
            line.insert("sess".into(), Value::Array(sess));
        }
        if !errs.is_empty() {
            line.insert("txerr".into(), json!(errs));
        }
        if self.task.is_finished() && !self.dead {
            self.dead = true;
            match take_panic() {
                Some(p) => {
                    line.insert("panic".into(), p);
                }
                None => {
                    line.insert("ended".into(), json!(true));
                }
            }
        }
    }

    pub async fn step(&mut self, st: &Value) -> Value {
        let mut line = Map::new();
        let k = st["k"].as_str().unwrap_or("").to_string();
        line.insert("k".into(), json!(k));
        line.insert("t".into(), json!(self.clock.now()));
        if let Some(tag) = st.get("tag") {
            line.insert("tag".into(), tag.clone());
        }
        match k.as_str() {
            "conn" => {
                let (c, theirs) = Conn::open(self.clock);
                self.conn = Some(c);
                let _ = self.pipes.send(theirs);
                settle().await;
            }
            "reconn" => {
                // a new connection if the endpoint closed the previous one (or there is none)
                if let Some(conn) = self.conn.as_mut() {
                    let w = decode_wire(conn);
                    if w.eof {
                        conn.eof_seen = true;
                    }
                }
                let closed = self.conn.as_ref().map(|c| c.eof_seen).unwrap_or(true);
                line.insert("was_closed".into(), json!(closed));
                if closed {
                    if let Some(c) = self.conn.take() {
                        c.reader_task.abort();
                    }
                    settle().await;
                    let (c, theirs) = Conn::open(self.clock);
                    self.conn = Some(c);
                    let _ = self.pipes.send(theirs);
                    settle().await;
                }
            }
            "cut" => {
                if let Some(c) = self.conn.take() {
                    c.reader_task.abort();
                    drop(c);
                }
                settle().await;
            }
            "adv" => {
                let dt = st["dt"].as_u64().unwrap_or(0);
                line.insert("dt".into(), json!(dt));
                tokio::time::sleep(Duration::from_millis(dt)).await;
                quiesce().await;
                tick();
            }
            "upd" | "upds" => {
                let items: Vec<Value> = if k == "upd" {
                    vec![st.clone()]
                } else {
                    st["items"].as_array().cloned().unwrap_or_default()
                };
                let infos: Vec<UpdateInfo> = {
                    let mut once = Some(items.clone());
                    self.handle.transaction(|db| {
                        once.take()
                            .map(|its| its.iter().map(|u| do_update(db, u)).collect())
                            .unwrap_or_default()
                    })
                };
                let mut outs = Vec::new();
                for (u, i) in items.iter().zip(infos) {
                    let mut o = u.as_object().cloned().unwrap_or_default();
                    o.remove("k");
                    o.insert("info".into(), info_json(i));
                    outs.push(Value::Object(o));
                }
                line.insert("items".into(), Value::Array(outs));
                settle().await;
            }
            "app" => {
                self.script.lock().unwrap().apply(st);
                for (kk, v) in st.as_object().unwrap() {
                    if kk != "k" {
                        line.insert(kk.clone(), v.clone());
                    }
                }
                settle().await;
            }
            "enable" => {
                let _ = self.handle.enable().await;
                settle().await;
            }
            "disable" => {
                let _ = self.handle.disable().await;
                settle().await;
            }
            "decode" => {
                let lvl = decode_level(st["level"].as_str().unwrap_or("nothing"));
                let _ = self.handle.set_decode_level(lvl).await;
                settle().await;
            }
            "raw" => {
                let bytes = codec::unhex(st["hex"].as_str().unwrap_or(""));
                line.insert("len".into(), json!(bytes.len()));
                line.insert("bid".into(), json!(self.intern.id(&bytes)));
                self.write_chunked(&bytes, st.get("chunks")).await;
                settle().await;
            }
            "lrx" => {
                let ctrl = st["ctrl"].as_u64().unwrap_or(0xC9) as u8;
                let dst = st["dst"].as_u64().unwrap_or(self.cfg.oaddr as u64) as u16;
                let src = st["src"].as_u64().unwrap_or(self.cfg.maddr as u64) as u16;
                let payload = codec::unhex(st["payload"].as_str().unwrap_or(""));
                let mut f = codec::build_link_frame(ctrl, dst, src, &payload);
                if let Some(c) = st.get("corrupt").and_then(|x| x.as_u64()) {
                    let bit = c as usize % (f.len() * 8);
                    f[bit / 8] ^= 1 << (bit % 8);
                }
                line.insert("ctrl".into(), json!(ctrl));
                line.insert("dst".into(), json!(dst));
                line.insert("src".into(), json!(src));
                line.insert("plen".into(), json!(payload.len()));
                self.write_chunked(&f, st.get("chunks")).await;
                settle().await;
            }
            "rx" | "confirm" => {
                self.do_rx(st, &mut line).await;
                settle().await;
            }
            _ => {
                line.insert("unknown_step".into(), json!(true));
            }
        }
        self.collect(&mut line);
        Value::Object(line)
    }

    async fn write_chunked(&mut self, bytes: &[u8], chunks: Option<&Value>) {
        let conn = match self.conn.as_mut() {
            Some(c) => c,
            None => return,
        };
        match chunks.and_then(|c| c.as_array()) {
            None => {
                conn.write(bytes).await;
            }
            Some(sizes) => {
                let mut pos = 0;
                for s in sizes {
                    let n = (s.as_u64().unwrap_or(1) as usize).max(1);
                    if pos >= bytes.len() {
                        break;
                    }
                    let end = (pos + n).min(bytes.len());
                    conn.write(&bytes[pos..end]).await;
                    pos = end;
                    // let the endpoint consume this read before the next chunk arrives
                    settle().await;
                }
                if pos < bytes.len() {
                    conn.write(&bytes[pos..]).await;
                }
            }
        }
    }

    async fn do_rx(&mut self, st: &Value, line: &mut Map<String, Value>) {
        let is_confirm = st["k"] == "confirm";
        let next = self.last_req_seq.map(|s| (s + 1) & 0x0F).unwrap_or(0);
        let same = self.last_req_seq.unwrap_or(0);
        let (frag, seq, func): (Vec<u8>, u8, u8) = if st["repeat"].as_bool().unwrap_or(false)
            && self.last_req_bytes.is_some()
        {
            let b = self.last_req_bytes.clone().unwrap();
            let s = b[0] & 0x0F;
            let f = b[1];
            (b, s, f)
        } else if let Some(h) = st.get("raw_app").and_then(|x| x.as_str()) {
            let b = codec::unhex(h);
            let s = b.first().map(|x| x & 0x0F).unwrap_or(0);
            let f = b.get(1).copied().unwrap_or(0);
            (b, s, f)
        } else if is_confirm {
            let uns = st["uns"].as_bool().unwrap_or(false);
            let right = if uns {
                self.last_unsol_seq.unwrap_or(0)
            } else {
                self.last_sol_con.or(self.last_sol_seq).unwrap_or(same)
            };
            let seq = match st.get("seq") {
                Some(v) if v.is_u64() => (v.as_u64().unwrap() & 0x0F) as u8,
                Some(v) if v.as_str() == Some("wrong") => (right + 1) & 0x0F,
                Some(v) if v.as_str() == Some("wrong2") => (right + 15) & 0x0F,
                _ => right,
            };
            let ctrl = codec::app_control(true, true, false, uns, seq);
            (vec![ctrl, 0], seq, 0)
        } else {
            let func = match &st["fn"] {
                Value::String(s) => codec::fn_code(s).unwrap_or(1),
                Value::Number(n) => n.as_u64().unwrap_or(1) as u8,
                _ => 1,
            };
            let seq = seq_of(&st["seq"], next, same);
            let ctrl = codec::app_control(
                st["fir"].as_bool().unwrap_or(true),
                st["fin"].as_bool().unwrap_or(true),
                st["con"].as_bool().unwrap_or(false),
                st["uns"].as_bool().unwrap_or(false),
                seq,
            );
            let hdrs: Vec<Value> = st["hdrs"].as_array().cloned().unwrap_or_default();
            let mut b = codec::build_request(ctrl, func, &hdrs);
            if let Some(t) = st.get("truncate").and_then(|x| x.as_u64()) {
                let n = b.len().saturating_sub(t as usize).max(1);
                b.truncate(n);
            }
            if let Some(t) = st.get("pad").and_then(|x| x.as_str()) {
                b.extend_from_slice(&codec::unhex(t));
            }
            (b, seq, func)
        };
        if func != 0 {
            self.last_req_seq = Some(seq);
            self.last_req_bytes = Some(frag.clone());
        }
        let dst = st["dst"].as_u64().unwrap_or(self.cfg.oaddr as u64) as u16;
        let src = st["src"].as_u64().unwrap_or(self.cfg.maddr as u64) as u16;
        let lctrl = st["lctrl"].as_u64().unwrap_or(0xC4) as u8;
        // describe the fragment exactly as the endpoint's output is described
        let mut d = codec::decode_fragment(&frag, false);
        {
            let o = d.as_object_mut().unwrap();
            o.insert("bid".into(), json!(self.intern.id(&frag)));
            // byte identity of the object area only (what SELECT/OPERATE compare)
            let objs = if frag.len() > 2 { &frag[2..] } else { &[][..] };
            o.insert("obid".into(), json!(self.intern.id(objs)));
        }
        line.insert("frag".into(), d);
        line.insert("dst".into(), json!(dst));
        line.insert("src".into(), json!(src));
        line.insert("lctrl".into(), json!(lctrl));
        let tseq_override = st.get("tseq").and_then(|x| x.as_u64());
        if let Some(conn) = self.conn.as_mut() {
            if let Some(ts) = tseq_override {
                conn.tseq = (ts & 0x3F) as u8;
            }
            if let Some(sizes) = st.get("chunks") {
                // serialise all frames then deliver in the requested chunking
                let segs = codec::segment(&frag, conn.tseq);
                conn.tseq = (conn.tseq + segs.len() as u8) & 0x3F;
                let mut all = Vec::new();
                for s in &segs {
                    all.extend_from_slice(&codec::build_link_frame(lctrl, dst, src, s));
                }
                line.insert("segs".into(), json!(segs.len()));
                let sizes = sizes.clone();
                self.write_chunked(&all, Some(&sizes)).await;
            } else {
                let (n, _) = conn.send_fragment(&frag, lctrl, dst, src).await;
                line.insert("segs".into(), json!(n));
            }
        } else {
            line.insert("noconn".into(), json!(true));
        }
    }
}

/// run one scenario, emitting its trace lines
pub async fn run_scenario(sc: &Value) {
    let cfg: OstCfg = match serde_json::from_value(sc["cfg"].clone()) {
        Ok(c) => c,
        Err(e) => {
            emit(json!({"k":"reset","id":sc["id"],"cfg_error":format!("{e}")}));
            return;
        }
    };
    emit(json!({"k":"reset","id":sc["id"],"cfg":sc["cfg"], "meta": sc.get("meta").cloned().unwrap_or(Value::Null)}));
    let _ = take_panic();
    let mut run = Run::new(cfg);
    let steps = sc["steps"].as_array().cloned().unwrap_or_default();
    for (i, st) in steps.iter().enumerate() {
        set_current(format!("scenario {} step {} {}", sc["id"], i, st));
        let line = run.step(st).await;
        let dead = run.dead;
        emit(line);
        if dead {
            emit(json!({"k":"dead","at":i}));
            break;
        }
    }
    run.task.abort();
    if let Some(c) = run.conn.take() {
        c.reader_task.abort();
    }
}
