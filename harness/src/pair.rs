//! pair mode: the real master and the real outstation in one paused-clock runtime, connected through a
//! byte-forwarding proxy with scripted one-way delays, re-chunking and cuts.  One trace line per step:
//! {k, t, o: <outstation line>, m: <master line>} in the alphabets of the ost / mst modes.
//!
//! steps: conn | cut | adv{dt} | delay{fwd,back} | rechunk{n} | o{step} | m{step} | end
use crate::common::*;
use crate::{mst, ost};
use serde_json::{json, Map, Value};
use std::time::Duration;

struct Proxy {
    d_fwd: i64,
    d_back: i64,
    /// extra delay of the next chunk travelling back only (the outstation's processing time of that reply)
    back_once: i64,
    chunk: usize,
    /// (deliver at, to outstation?, bytes)
    q: Vec<(i64, bool, Vec<u8>)>,
}

fn merge(dst: &mut Map<String, Value>, src: Map<String, Value>) {
    for (k, v) in src {
        match (dst.get_mut(&k), v) {
            (Some(Value::Array(a)), Value::Array(b)) => a.extend(b),
            (None, v) => {
                dst.insert(k, v);
            }
            (Some(_), v) => {
                if k == "panic" || k == "eof" || k == "ended" {
                    dst.insert(k, v);
                }
            }
        }
    }
}

struct Pair {
    o: ost::Run,
    m: mst::Run,
    px: Proxy,
}

impl Pair {
    fn now(&self) -> i64 {
        self.o.clock.now()
    }

    /// collect both sides, schedule what they wrote, deliver what is due; until nothing moves
    async fn pump(&mut self, lo: &mut Map<String, Value>, lm: &mut Map<String, Value>) {
        for _ in 0..200 {
            let mut moved = false;
            let mut a = Map::new();
            self.o.collect(&mut a);
            merge(lo, a);
            let mut b = Map::new();
            self.m.collect(&mut b);
            merge(lm, b);
            if let Some(c) = self.o.conn.as_mut() {
                for (t, bytes) in c.tap.get_or_insert_with(Vec::new).drain(..) {
                    self.px.q.push((t + self.px.d_back + self.px.back_once, false, bytes));
                    self.px.back_once = 0;
                    moved = true;
                }
            }
            if let Some(c) = self.m.conn.as_mut() {
                for (t, bytes) in c.tap.get_or_insert_with(Vec::new).drain(..) {
                    self.px.q.push((t + self.px.d_fwd, true, bytes));
                    moved = true;
                }
            }
            let now = self.now();
            let mut rest = Vec::new();
            let due: Vec<(i64, bool, Vec<u8>)> = {
                let mut d = Vec::new();
                for it in self.px.q.drain(..) {
                    if it.0 <= now {
                        d.push(it);
                    } else {
                        rest.push(it);
                    }
                }
                d
            };
            self.px.q = rest;
            for (_, to_ost, bytes) in due {
                moved = true;
                let conn = if to_ost { self.o.conn.as_mut() } else { self.m.conn.as_mut() };
                if let Some(c) = conn {
                    if self.px.chunk == 0 {
                        c.write(&bytes).await;
                    } else {
                        for part in bytes.chunks(self.px.chunk) {
                            c.write(part).await;
                            settle().await;
                        }
                    }
                }
            }
            if !moved {
                break;
            }
            settle().await;
        }
    }

    async fn step(&mut self, st: &Value) -> Value {
        let k = st["k"].as_str().unwrap_or("").to_string();
        let mut line = Map::new();
        line.insert("k".into(), json!(k));
        line.insert("t".into(), json!(self.now()));
        if let Some(tag) = st.get("tag") {
            line.insert("tag".into(), tag.clone());
        }
        let mut lo = Map::new();
        let mut lm = Map::new();
        match k.as_str() {
            "conn" => {
                let a = self.o.step(&json!({"k":"conn"})).await;
                let b = self.m.step(&json!({"k":"conn"})).await;
                merge(&mut lo, a.as_object().cloned().unwrap_or_default());
                merge(&mut lm, b.as_object().cloned().unwrap_or_default());
            }
            "cut" => {
                self.px.q.clear();
                let a = self.o.step(&json!({"k":"cut"})).await;
                let b = self.m.step(&json!({"k":"cut"})).await;
                merge(&mut lo, a.as_object().cloned().unwrap_or_default());
                merge(&mut lm, b.as_object().cloned().unwrap_or_default());
            }
            "delay" => {
                self.px.d_fwd = st["fwd"].as_i64().unwrap_or(0);
                self.px.d_back = st["back"].as_i64().unwrap_or(0);
                self.px.back_once = st["back_once"].as_i64().unwrap_or(0);
                line.insert("fwd".into(), json!(self.px.d_fwd));
                line.insert("back".into(), json!(self.px.d_back));
            }
            "rechunk" => {
                self.px.chunk = st["n"].as_u64().unwrap_or(0) as usize;
            }
            "adv" => {
                let dt = st["dt"].as_i64().unwrap_or(0);
                line.insert("dt".into(), json!(dt));
                let target = self.now() + dt;
                loop {
                    self.pump(&mut lo, &mut lm).await;
                    let next = self.px.q.iter().map(|x| x.0).min();
                    let now = self.now();
                    // frames that the endpoints transmit on their own timers while time passes must be forwarded when
                    // they are sent, not at the end of the step: time passes in slices of at most 100 ms
                    let to = match next {
                        Some(n) if n <= target => n.max(now),
                        _ => target,
                    }
                    .min(now + 100);
                    if to > now {
                        tokio::time::sleep(Duration::from_millis((to - now) as u64)).await;
                        quiesce().await;
                    }
                    tick();
                    if to >= target && self.px.q.iter().all(|x| x.0 > target) {
                        self.pump(&mut lo, &mut lm).await;
                        if self.px.q.iter().all(|x| x.0 > self.now()) {
                            break;
                        }
                    }
                }
            }
            "end" => {}
            "o" => {
                let a = self.o.step(&st["step"]).await;
                merge(&mut lo, a.as_object().cloned().unwrap_or_default());
            }
            "m" => {
                let b = self.m.step(&st["step"]).await;
                merge(&mut lm, b.as_object().cloned().unwrap_or_default());
            }
            _ => {}
        }
        if k != "adv" {
            self.pump(&mut lo, &mut lm).await;
        }
        line.insert("o".into(), Value::Object(lo));
        line.insert("m".into(), Value::Object(lm));
        line.insert("t1".into(), json!(self.now()));
        Value::Object(line)
    }
}

pub async fn run_scenario(sc: &Value) {
    let cfg: ost::OstCfg = match serde_json::from_value(sc["cfg"]["ost"].clone()) {
        Ok(c) => c,
        Err(e) => {
            emit(json!({"k":"reset","id":sc["id"],"cfg_error":format!("{e}")}));
            return;
        }
    };
    emit(json!({"k":"reset","id":sc["id"],"cfg":sc["cfg"], "meta": sc.get("meta").cloned().unwrap_or(Value::Null)}));
    let _ = take_panic();
    TAP_ON.store(true, std::sync::atomic::Ordering::SeqCst);
    let o = ost::Run::new(cfg);
    let m = mst::Run::new(&sc["cfg"]["mst"]).await;
    let mut p = Pair { o, m, px: Proxy { d_fwd: 0, d_back: 0, back_once: 0, chunk: 0, q: Vec::new() } };
    let steps = sc["steps"].as_array().cloned().unwrap_or_default();
    for (i, st) in steps.iter().enumerate() {
        set_current(format!("pair scenario {} step {} {}", sc["id"], i, st));
        let line = p.step(st).await;
        let dead = p.o.dead || p.m.dead;
        emit(line);
        if dead {
            emit(json!({"k":"dead","at":i}));
            break;
        }
    }
    p.o.task.abort();
    p.m.task.abort();
    if let Some(c) = p.o.conn.take() {
        c.reader_task.abort();
    }
    if let Some(c) = p.m.conn.take() {
        c.reader_task.abort();
    }
}
