//! codec mode: object-header cases enumerated by TLC (MC_AppCodec.tla) are turned into bytes and
//! shown to the library's parser (as a request or as a response) and, for responses, to the
//! master's measurement extraction.  One trace line per case.
use crate::common::*;
use dnp3::app::measurement::*;
use dnp3::decode::AppDecodeLevel;
use dnp3::master::*;
use dnp3::verif_shim as shim;
use serde_json::{json, Value};

#[derive(Default)]
struct Count {
    items: usize,
    first: Option<u16>,
    last: Option<u16>,
    headers: usize,
    ordered: bool,
}

impl Count {
    fn see(&mut self, ix: u16) {
        if self.items == 0 {
            self.first = Some(ix);
        }
        self.last = Some(ix);
        self.items += 1;
    }
}

impl ReadHandler for Count {
    fn handle_binary_input(&mut self, _i: HeaderInfo, iter: &mut dyn Iterator<Item = (BinaryInput, u16)>) {
        self.headers += 1;
        for (_, ix) in iter {
            self.see(ix);
        }
    }
    fn handle_double_bit_binary_input(&mut self, _i: HeaderInfo, iter: &mut dyn Iterator<Item = (DoubleBitBinaryInput, u16)>) {
        self.headers += 1;
        for (_, ix) in iter {
            self.see(ix);
        }
    }
    fn handle_binary_output_status(&mut self, _i: HeaderInfo, iter: &mut dyn Iterator<Item = (BinaryOutputStatus, u16)>) {
        self.headers += 1;
        for (_, ix) in iter {
            self.see(ix);
        }
    }
    fn handle_counter(&mut self, _i: HeaderInfo, iter: &mut dyn Iterator<Item = (Counter, u16)>) {
        self.headers += 1;
        for (_, ix) in iter {
            self.see(ix);
        }
    }
    fn handle_frozen_counter(&mut self, _i: HeaderInfo, iter: &mut dyn Iterator<Item = (FrozenCounter, u16)>) {
        self.headers += 1;
        for (_, ix) in iter {
            self.see(ix);
        }
    }
    fn handle_analog_input(&mut self, _i: HeaderInfo, iter: &mut dyn Iterator<Item = (AnalogInput, u16)>) {
        self.headers += 1;
        for (_, ix) in iter {
            self.see(ix);
        }
    }
    fn handle_analog_output_status(&mut self, _i: HeaderInfo, iter: &mut dyn Iterator<Item = (AnalogOutputStatus, u16)>) {
        self.headers += 1;
        for (_, ix) in iter {
            self.see(ix);
        }
    }
    fn handle_octet_string<'a>(&mut self, _i: HeaderInfo, iter: &'a mut dyn Iterator<Item = (&'a [u8], u16)>) {
        self.headers += 1;
        for (_, ix) in iter {
            self.see(ix);
        }
    }
}

struct Rng(u64);
impl Rng {
    fn next(&mut self) -> u8 {
        self.0 ^= self.0 << 13;
        self.0 ^= self.0 >> 7;
        self.0 ^= self.0 << 17;
        (self.0 >> 24) as u8
    }
}

fn header_bytes(c: &Value, n: i64, rng: &mut Rng, out: &mut Vec<u8>) {
    let q = c["q"].as_u64().unwrap_or(0) as u8;
    let a = c["a"].as_u64().unwrap_or(0);
    let b = c["b"].as_u64().unwrap_or(0);
    out.push(c["g"].as_u64().unwrap_or(0) as u8);
    out.push(c["v"].as_u64().unwrap_or(0) as u8);
    out.push(q);
    match q {
        0 => {
            out.push(a as u8);
            out.push(b as u8);
        }
        1 => {
            out.extend_from_slice(&(a as u16).to_le_bytes());
            out.extend_from_slice(&(b as u16).to_le_bytes());
        }
        7 | 0x17 => out.push(a as u8),
        8 | 0x28 => out.extend_from_slice(&(a as u16).to_le_bytes()),
        6 => {}
        _ => {
            // an undefined qualifier: two bytes of something
            out.push(a as u8);
            out.push(b as u8);
        }
    }
    if n < 0 {
        // cut into the header itself
        let cut = (-n) as usize;
        let l = out.len().saturating_sub(cut);
        out.truncate(l);
    } else {
        for _ in 0..n {
            out.push(rng.next());
        }
    }
}

/// a group 70 object of variation v with n bytes of variable data, under a free-format header whose declared length
/// is the object's size + delta (padding after the object / the object cut short)
fn free_format(v: u8, n: usize, delta: i64, out: &mut Vec<u8>) {
    let mut o: Vec<u8> = Vec::new();
    let text: Vec<u8> = (0..n).map(|i| b'a' + (i % 26) as u8).collect();
    let n16 = (n as u16).to_le_bytes();
    match v {
        2 => {
            // user name offset, length, password offset, length, key; the user name takes n bytes, the password none
            o.extend_from_slice(&12u16.to_le_bytes());
            o.extend_from_slice(&n16);
            o.extend_from_slice(&(12 + n as u16).to_le_bytes());
            o.extend_from_slice(&0u16.to_le_bytes());
            o.extend_from_slice(&[1, 2, 3, 4]);
        }
        3 => {
            o.extend_from_slice(&26u16.to_le_bytes());
            o.extend_from_slice(&n16);
            o.extend_from_slice(&[1, 0, 0, 0, 0, 0]); // time of creation
            o.extend_from_slice(&[0xFF, 0x01]); // permissions
            o.extend_from_slice(&[0; 4]); // authentication key
            o.extend_from_slice(&[9, 0, 0, 0]); // size
            o.extend_from_slice(&[1, 0]); // mode
            o.extend_from_slice(&[0, 4]); // block size
            o.extend_from_slice(&[7, 0]); // request id
        }
        4 => o.extend_from_slice(&[1, 0, 0, 0, 9, 0, 0, 0, 0, 4, 7, 0, 0]),
        5 => o.extend_from_slice(&[1, 0, 0, 0, 2, 0, 0, 0]),
        6 => o.extend_from_slice(&[1, 0, 0, 0, 2, 0, 0, 0, 0]),
        7 => {
            o.extend_from_slice(&20u16.to_le_bytes());
            o.extend_from_slice(&n16);
            o.extend_from_slice(&[1, 0]); // type
            o.extend_from_slice(&[9, 0, 0, 0]); // size
            o.extend_from_slice(&[1, 0, 0, 0, 0, 0]); // time
            o.extend_from_slice(&[0xFF, 0x01]); // permissions
            o.extend_from_slice(&[7, 0]); // request id
        }
        _ => {}
    }
    o.extend_from_slice(&text);
    let declared = (o.len() as i64 + delta).max(0) as usize;
    while o.len() < declared {
        o.push(b'z');
    }
    o.truncate(declared);
    out.extend_from_slice(&[70, v, 0x5B, 1]);
    out.extend_from_slice(&(declared as u16).to_le_bytes());
    out.extend_from_slice(&o);
}

fn app_header(fnc: &str, out: &mut Vec<u8>) {
    match fnc {
        "read" => out.extend_from_slice(&[0xC0, 0x01]),
        "write" => out.extend_from_slice(&[0xC0, 0x02]),
        _ => out.extend_from_slice(&[0xC0, 0x81, 0x00, 0x00]),
    }
}

fn level_of(i: u64) -> AppDecodeLevel {
    match i % 4 {
        0 => AppDecodeLevel::ObjectValues,
        1 => AppDecodeLevel::ObjectHeaders,
        2 => AppDecodeLevel::Header,
        _ => AppDecodeLevel::Nothing,
    }
}

pub async fn run_case(sc: &Value) {
    let id = sc["id"].as_u64().unwrap_or(0);
    set_current(format!("case{id}"));
    let mut rng = Rng(0x9E3779B97F4A7C15 ^ (id + 1).wrapping_mul(0xD1342543DE82EF95) ^ sc["seed"].as_u64().unwrap_or(1));
    let mut frag = Vec::new();
    let fnc;
    if sc.get("ff").is_some() {
        let c = &sc["ff"];
        fnc = c["fnc"].as_str().unwrap_or("resp").to_string();
        app_header(&fnc, &mut frag);
        let v = c["v"].as_u64().unwrap_or(5) as u8;
        let n = c["n"].as_u64().unwrap_or(0) as usize;
        free_format(v, n, c["delta"].as_i64().unwrap_or(0), &mut frag);
        if c["follow"].as_u64().unwrap_or(0) == 1 {
            free_format(5, 2, 0, &mut frag);
        }
        if c["trunc"].as_u64().unwrap_or(0) == 1 {
            frag.pop();
        }
    } else if sc.get("at").is_some() {
        let a = &sc["at"];
        fnc = a["fnc"].as_str().unwrap_or("write").to_string();
        app_header(&fnc, &mut frag);
        let set = a["set"].as_u64().unwrap_or(0) as u8;
        frag.extend_from_slice(&[0, a["v"].as_u64().unwrap_or(0) as u8, 0, set, set]);
        frag.push(a["code"].as_u64().unwrap_or(0) as u8);
        let len = a["len"].as_u64().unwrap_or(0) as usize;
        frag.push(len as u8);
        let code = a["code"].as_u64().unwrap_or(0);
        for i in 0..(len as i64 + a["delta"].as_i64().unwrap_or(0)).max(0) {
            // visible strings must be printable; lists are pairs (variation, properties)
            frag.push(if code == 1 { b'a' + (i % 26) as u8 } else { rng.next() });
        }
    } else if sc.get("c1").is_some() {
        fnc = sc["c1"]["fnc"].as_str().unwrap_or("resp").to_string();
        app_header(&fnc, &mut frag);
        header_bytes(&sc["c1"], sc["n1"].as_i64().unwrap_or(0), &mut rng, &mut frag);
        header_bytes(&sc["c2"], sc["n2"].as_i64().unwrap_or(0), &mut rng, &mut frag);
    } else {
        fnc = sc["c"]["fnc"].as_str().unwrap_or("resp").to_string();
        app_header(&fnc, &mut frag);
        header_bytes(&sc["c"], sc["n"].as_i64().unwrap_or(0), &mut rng, &mut frag);
    }
    let as_request = fnc != "resp";
    // the object-values level forces every lazy iterator; other levels are cycled through as well
    let mut line = serde_json::Map::new();
    line.insert("k".into(), json!(if sc.get("ff").is_some() { "ff" } else if sc.get("at").is_some() { "attr" } else if sc.get("c1").is_some() { "pair" } else { "case" }));
    line.insert("id".into(), json!(id));
    line.insert("len".into(), json!(frag.len()));
    let f2 = frag.clone();
    let res = std::panic::catch_unwind(std::panic::AssertUnwindSafe(|| {
        let s = shim::parse_summary(&f2, as_request, AppDecodeLevel::ObjectValues);
        let _ = shim::parse_summary(&f2, as_request, level_of(id));
        s
    }));
    match res {
        Ok(s) => {
            line.insert("hv".into(), json!(s.header));
            line.insert("role".into(), json!(s.role));
            line.insert("ov".into(), json!(s.objects.split('(').next().unwrap_or("")));
            line.insert(
                "hs".into(),
                Value::Array(
                    s.headers
                        .iter()
                        .map(|h| {
                            json!({"g": h.group, "v": h.variation, "q": h.qualifier, "count": h.count,
                                   "first": h.first.map(|x| x as i64).unwrap_or(-1), "last": h.last.map(|x| x as i64).unwrap_or(-1),
                                   "attr": h.attr})
                        })
                        .collect(),
                ),
            );
            line.insert("dl".into(), json!(s.display_len));
        }
        Err(_) => {
            line.insert("panic".into(), take_panic().unwrap_or(json!({"msg":"?","loc":"?"})));
        }
    }
    if !as_request && !line.contains_key("panic") {
        let mut h = Count::default();
        let f3 = frag.clone();
        let ok = {
            let fut = shim::extract_into(&f3, &mut h);
            match std::panic::AssertUnwindSafe(fut).catch_unwind_compat().await {
                Ok(b) => Some(b),
                Err(_) => None,
            }
        };
        match ok {
            Some(b) => {
                line.insert("ex".into(), json!(b));
                line.insert("items".into(), json!(h.items));
                line.insert("ifirst".into(), json!(h.first.map(|x| x as i64).unwrap_or(-1)));
                line.insert("ilast".into(), json!(h.last.map(|x| x as i64).unwrap_or(-1)));
                line.insert("xh".into(), json!(h.headers));
            }
            None => {
                line.insert("panic".into(), take_panic().unwrap_or(json!({"msg":"?","loc":"?"})));
            }
        }
    }
    emit(Value::Object(line));
}

/// minimal catch_unwind for a future polled on the current task
trait CatchCompat: std::future::Future + Sized {
    fn catch_unwind_compat(self) -> CatchFut<Self>;
}
impl<F: std::future::Future + std::panic::UnwindSafe> CatchCompat for F {
    fn catch_unwind_compat(self) -> CatchFut<Self> {
        CatchFut(Box::pin(self))
    }
}
struct CatchFut<F>(std::pin::Pin<Box<F>>);
impl<F: std::future::Future> std::future::Future for CatchFut<F> {
    type Output = Result<F::Output, ()>;
    fn poll(mut self: std::pin::Pin<&mut Self>, cx: &mut std::task::Context<'_>) -> std::task::Poll<Self::Output> {
        let inner = &mut self.0;
        match std::panic::catch_unwind(std::panic::AssertUnwindSafe(|| inner.as_mut().poll(cx))) {
            Ok(std::task::Poll::Ready(v)) => std::task::Poll::Ready(Ok(v)),
            Ok(std::task::Poll::Pending) => std::task::Poll::Pending,
            Err(_) => std::task::Poll::Ready(Err(())),
        }
    }
}
