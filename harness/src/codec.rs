//! Independent DNP3 codec used by the harness: CRC, link framing, transport segmentation,
//! application header and a table-driven object walker/decoder.  Shares no code with dnp3.

use serde_json::{json, Value};

// ---------------------------------------------------------------- CRC-16/DNP (bit serial)

pub fn crc16(data: &[u8]) -> u16 {
    let mut crc: u16 = 0;
    for b in data {
        crc ^= *b as u16;
        for _ in 0..8 {
            if crc & 1 != 0 {
                crc = (crc >> 1) ^ 0xA6BC;
            } else {
                crc >>= 1;
            }
        }
    }
    !crc
}

// ---------------------------------------------------------------- link layer

pub const CTRL_DIR: u8 = 0x80;
pub const CTRL_PRM: u8 = 0x40;
pub const CTRL_FCB: u8 = 0x20;
pub const CTRL_FCV: u8 = 0x10;

pub const FN_PRI_RESET_LINK: u8 = 0x40;
pub const FN_PRI_CONFIRMED_DATA: u8 = 0x43;
pub const FN_PRI_UNCONFIRMED_DATA: u8 = 0x44;
pub const FN_PRI_REQ_LINK_STATUS: u8 = 0x49;
pub const FN_SEC_ACK: u8 = 0x00;
pub const FN_SEC_NACK: u8 = 0x01;
pub const FN_SEC_LINK_STATUS: u8 = 0x0B;
pub const FN_SEC_NOT_SUPPORTED: u8 = 0x0F;

#[derive(Clone, Debug, PartialEq, Eq)]
pub struct LinkFrame {
    pub ctrl: u8,
    pub dst: u16,
    pub src: u16,
    pub payload: Vec<u8>,
}

impl LinkFrame {
    pub fn func(&self) -> u8 {
        self.ctrl & 0x4F
    }
    pub fn func_name(&self) -> &'static str {
        match self.func() {
            0x40 => "RESET_LINK",
            0x42 => "TEST_LINK",
            0x43 => "CONFIRMED_DATA",
            0x44 => "UNCONFIRMED_DATA",
            0x49 => "REQ_LINK_STATUS",
            0x00 => "ACK",
            0x01 => "NACK",
            0x0B => "LINK_STATUS",
            0x0F => "NOT_SUPPORTED",
            _ => "OTHER",
        }
    }
}

pub fn build_link_frame(ctrl: u8, dst: u16, src: u16, payload: &[u8]) -> Vec<u8> {
    assert!(payload.len() <= 250);
    let mut out = Vec::with_capacity(292);
    out.push(0x05);
    out.push(0x64);
    out.push((payload.len() + 5) as u8);
    out.push(ctrl);
    out.extend_from_slice(&dst.to_le_bytes());
    out.extend_from_slice(&src.to_le_bytes());
    let c = crc16(&out);
    out.extend_from_slice(&c.to_le_bytes());
    for block in payload.chunks(16) {
        out.extend_from_slice(block);
        let c = crc16(block);
        out.extend_from_slice(&c.to_le_bytes());
    }
    out
}

/// total length of a frame whose LEN byte is `len` (>= 5)
pub fn frame_total_len(len: u8) -> usize {
    let n = len as usize - 5;
    10 + n + 2 * n.div_ceil(16)
}

#[derive(Clone, Debug, PartialEq, Eq)]
pub enum FrameParse {
    /// a complete valid frame and the number of bytes it occupies
    Frame(LinkFrame, usize),
    /// not enough bytes to decide
    NeedMore,
    /// the bytes at the start are not a valid frame (reason)
    Bad(&'static str),
}

/// try to parse one frame at the very start of `data`
pub fn parse_frame_at(data: &[u8]) -> FrameParse {
    if data.is_empty() {
        return FrameParse::NeedMore;
    }
    if data[0] != 0x05 {
        return FrameParse::Bad("start1");
    }
    if data.len() < 2 {
        return FrameParse::NeedMore;
    }
    if data[1] != 0x64 {
        return FrameParse::Bad("start2");
    }
    if data.len() < 10 {
        return FrameParse::NeedMore;
    }
    let len = data[2];
    let c = u16::from_le_bytes([data[8], data[9]]);
    if crc16(&data[0..8]) != c {
        return FrameParse::Bad("hdr_crc");
    }
    if len < 5 {
        return FrameParse::Bad("len");
    }
    let total = frame_total_len(len);
    if data.len() < total {
        return FrameParse::NeedMore;
    }
    let mut payload = Vec::new();
    let mut pos = 10;
    let mut remaining = len as usize - 5;
    while remaining > 0 {
        let n = remaining.min(16);
        let block = &data[pos..pos + n];
        let c = u16::from_le_bytes([data[pos + n], data[pos + n + 1]]);
        if crc16(block) != c {
            return FrameParse::Bad("body_crc");
        }
        payload.extend_from_slice(block);
        pos += n + 2;
        remaining -= n;
    }
    FrameParse::Frame(
        LinkFrame {
            ctrl: data[3],
            dst: u16::from_le_bytes([data[4], data[5]]),
            src: u16::from_le_bytes([data[6], data[7]]),
            payload,
        },
        total,
    )
}

/// Parse a clean stream (what an endpoint transmitted) into frames.
/// Returns the frames and the unparsed remainder (non-empty remainder = incomplete or malformed tx)
pub fn parse_clean_stream(data: &[u8]) -> (Vec<LinkFrame>, Vec<u8>, Option<&'static str>) {
    let mut frames = Vec::new();
    let mut pos = 0;
    while pos < data.len() {
        match parse_frame_at(&data[pos..]) {
            FrameParse::Frame(f, n) => {
                frames.push(f);
                pos += n;
            }
            FrameParse::NeedMore => return (frames, data[pos..].to_vec(), Some("incomplete")),
            FrameParse::Bad(r) => return (frames, data[pos..].to_vec(), Some(r)),
        }
    }
    (frames, Vec::new(), None)
}

/// Reference resynchronising framer ("Ideal"): leftmost-first scan over a whole byte stream,
/// independent of how it was split into reads.  At each offset: if a complete valid frame starts
/// here, deliver it and continue after it; otherwise skip one byte.
/// A frame start that would need bytes beyond the end of the stream is not a frame.
pub fn ref_scan(data: &[u8]) -> Vec<(usize, LinkFrame)> {
    let mut out = Vec::new();
    let mut pos = 0;
    while pos < data.len() {
        match parse_frame_at(&data[pos..]) {
            FrameParse::Frame(f, n) => {
                out.push((pos, f));
                pos += n;
            }
            _ => pos += 1,
        }
    }
    out
}

// ---------------------------------------------------------------- transport

pub const TR_FIN: u8 = 0x80;
pub const TR_FIR: u8 = 0x40;

pub fn segment(fragment: &[u8], start_seq: u8) -> Vec<Vec<u8>> {
    let chunks: Vec<&[u8]> = if fragment.is_empty() {
        vec![&[][..]]
    } else {
        fragment.chunks(249).collect()
    };
    let n = chunks.len();
    let mut out = Vec::new();
    for (i, c) in chunks.iter().enumerate() {
        let mut h = (start_seq.wrapping_add(i as u8)) & 0x3F;
        if i == 0 {
            h |= TR_FIR;
        }
        if i == n - 1 {
            h |= TR_FIN;
        }
        let mut seg = vec![h];
        seg.extend_from_slice(c);
        out.push(seg);
    }
    out
}

/// reference reassembler for clean output of an endpoint: returns fragments, or an error
pub struct Reassembler {
    buf: Vec<u8>,
    running: bool,
    next_seq: u8,
}

impl Default for Reassembler {
    fn default() -> Self {
        Self::new()
    }
}

impl Reassembler {
    pub fn new() -> Self {
        Self {
            buf: Vec::new(),
            running: false,
            next_seq: 0,
        }
    }
    /// returns Ok(Some(fragment)) when FIN arrives
    pub fn push(&mut self, seg: &[u8]) -> Result<Option<Vec<u8>>, &'static str> {
        if seg.is_empty() {
            return Err("empty_segment");
        }
        let h = seg[0];
        let fir = h & TR_FIR != 0;
        let fin = h & TR_FIN != 0;
        let seq = h & 0x3F;
        if fir {
            if self.running {
                self.running = false;
                self.buf.clear();
                return Err("fir_while_running");
            }
            self.buf.clear();
            self.running = true;
        } else {
            if !self.running {
                return Err("no_fir");
            }
            if seq != self.next_seq {
                self.running = false;
                return Err("seq_gap");
            }
        }
        self.next_seq = (seq + 1) & 0x3F;
        self.buf.extend_from_slice(&seg[1..]);
        if fin {
            self.running = false;
            Ok(Some(std::mem::take(&mut self.buf)))
        } else {
            Ok(None)
        }
    }
}

// ---------------------------------------------------------------- application header

pub const AC_FIR: u8 = 0x80;
pub const AC_FIN: u8 = 0x40;
pub const AC_CON: u8 = 0x20;
pub const AC_UNS: u8 = 0x10;

pub fn fn_code(name: &str) -> Option<u8> {
    Some(match name {
        "confirm" => 0,
        "read" => 1,
        "write" => 2,
        "select" => 3,
        "operate" => 4,
        "direct_operate" => 5,
        "direct_operate_nr" => 6,
        "freeze" => 7,
        "freeze_nr" => 8,
        "freeze_clear" => 9,
        "freeze_clear_nr" => 10,
        "freeze_at_time" => 11,
        "freeze_at_time_nr" => 12,
        "cold_restart" => 13,
        "warm_restart" => 14,
        "init_data" => 15,
        "init_app" => 16,
        "start_app" => 17,
        "stop_app" => 18,
        "save_config" => 19,
        "enable_unsol" => 20,
        "disable_unsol" => 21,
        "assign_class" => 22,
        "delay_measure" => 23,
        "record_time" => 24,
        "open_file" => 25,
        "close_file" => 26,
        "delete_file" => 27,
        "get_file_info" => 28,
        "auth_file" => 29,
        "abort_file" => 30,
        "response" => 129,
        "unsol_response" => 130,
        _ => return None,
    })
}

pub fn fn_name(code: u8) -> String {
    for n in [
        "confirm",
        "read",
        "write",
        "select",
        "operate",
        "direct_operate",
        "direct_operate_nr",
        "freeze",
        "freeze_nr",
        "freeze_clear",
        "freeze_clear_nr",
        "freeze_at_time",
        "freeze_at_time_nr",
        "cold_restart",
        "warm_restart",
        "init_data",
        "init_app",
        "start_app",
        "stop_app",
        "save_config",
        "enable_unsol",
        "disable_unsol",
        "assign_class",
        "delay_measure",
        "record_time",
        "open_file",
        "close_file",
        "delete_file",
        "get_file_info",
        "auth_file",
        "abort_file",
        "response",
        "unsol_response",
    ] {
        if fn_code(n) == Some(code) {
            return n.to_string();
        }
    }
    format!("fn{code}")
}

pub fn app_control(fir: bool, fin: bool, con: bool, uns: bool, seq: u8) -> u8 {
    (if fir { AC_FIR } else { 0 })
        | (if fin { AC_FIN } else { 0 })
        | (if con { AC_CON } else { 0 })
        | (if uns { AC_UNS } else { 0 })
        | (seq & 0x0F)
}

pub fn iin_json(iin1: u8, iin2: u8) -> Value {
    json!({
        "bc": iin1 & 0x01 != 0,
        "c1": iin1 & 0x02 != 0,
        "c2": iin1 & 0x04 != 0,
        "c3": iin1 & 0x08 != 0,
        "time": iin1 & 0x10 != 0,
        "local": iin1 & 0x20 != 0,
        "trouble": iin1 & 0x40 != 0,
        "rst": iin1 & 0x80 != 0,
        "nofn": iin2 & 0x01 != 0,
        "unk": iin2 & 0x02 != 0,
        "param": iin2 & 0x04 != 0,
        "ovf": iin2 & 0x08 != 0,
        "busy": iin2 & 0x10 != 0,
        "cfg": iin2 & 0x20 != 0,
        "r6": iin2 & 0x40 != 0,
        "r7": iin2 & 0x80 != 0,
    })
}

// ---------------------------------------------------------------- object table

#[derive(Clone, Copy, Debug, PartialEq, Eq)]
pub enum Lay {
    /// no object data at all (class objects, "any variation" requests)
    None,
    /// packed single bits
    Bit1,
    /// packed double bits
    Bit2,
    /// fixed size with a decoder id
    Fixed(u8, Dec),
    /// size given by the variation number (octet strings)
    VarLen,
    /// device attributes (type, length, data)
    Attr,
    /// free format (g70)
    Free,
}

#[derive(Clone, Copy, Debug, PartialEq, Eq)]
pub enum Dec {
    Opaque,
    // binary-ish: flags octet carrying state bits
    BinFlags,       // g1v2 g10v2 g2v1 g11v1 g13v1
    BinFlagsT48,    // g2v2 g11v2 g13v2
    BinFlagsT16,    // g2v3
    DblFlags,       // g3v2 g4v1
    DblFlagsT48,    // g4v2
    DblFlagsT16,    // g4v3
    // numeric: F = flags, T = 48-bit time
    U32F,
    U16F,
    U32,
    U16,
    U32FT,
    U16FT,
    I32F,
    I16F,
    I32,
    I16,
    F32F,
    F64F,
    I32FT,
    I16FT,
    F32FT,
    F64FT,
    Crob,
    AoI32,
    AoI16,
    AoF32,
    AoF64,
    Time48,
    Time48Interval,
    U16Only,
    U32Only,
    F32Only,
    Cto,
    // command events g43: status + value (+time)
    CmdEvI32,
    CmdEvI16,
    CmdEvI32T,
    CmdEvI16T,
    CmdEvF32,
    CmdEvF64,
    CmdEvF32T,
    CmdEvF64T,
}

/// measurement type a (group) belongs to and whether it is an event group
pub fn group_type(g: u8) -> Option<(&'static str, bool)> {
    Some(match g {
        1 => ("bi", false),
        2 => ("bi", true),
        3 => ("dbi", false),
        4 => ("dbi", true),
        10 => ("bos", false),
        11 => ("bos", true),
        20 => ("ctr", false),
        22 => ("ctr", true),
        21 => ("fctr", false),
        23 => ("fctr", true),
        30 => ("ai", false),
        32 => ("ai", true),
        31 => ("fai", false),
        33 => ("fai", true),
        40 => ("aos", false),
        42 => ("aos", true),
        110 => ("os", false),
        111 => ("os", true),
        _ => return None,
    })
}

pub fn layout(g: u8, v: u8) -> Option<Lay> {
    use Dec::*;
    use Lay::*;
    let f = |n: u8, d: Dec| Some(Fixed(n, d));
    match (g, v) {
        (0, 254) | (0, 255) => Some(Attr),
        (0, 0) => Option::None,
        (0, _) => Some(Attr),
        (1, 0) | (2, 0) | (3, 0) | (4, 0) | (10, 0) | (11, 0) | (13, 0) | (20, 0) | (21, 0)
        | (22, 0) | (23, 0) | (30, 0) | (31, 0) | (32, 0) | (33, 0) | (34, 0) | (40, 0)
        | (42, 0) | (43, 0) | (41, 0) | (12, 0) => Some(None),
        (60, 1..=4) => Some(None),
        (110, 0) | (111, 0) => Some(None),
        (1, 1) | (10, 1) | (80, 1) => Some(Bit1),
        (3, 1) => Some(Bit2),
        (1, 2) | (10, 2) | (2, 1) | (11, 1) => f(1, BinFlags),
        (13, 1) => f(1, Opaque),
        (2, 2) | (11, 2) => f(7, BinFlagsT48),
        (13, 2) => f(7, Opaque),
        (2, 3) => f(3, BinFlagsT16),
        (3, 2) | (4, 1) => f(1, DblFlags),
        (4, 2) => f(7, DblFlagsT48),
        (4, 3) => f(3, DblFlagsT16),
        (12, 1) => f(11, Crob),
        (20, 1) | (21, 1) | (22, 1) | (23, 1) => f(5, U32F),
        (20, 2) | (21, 2) | (22, 2) | (23, 2) => f(3, U16F),
        (20, 5) | (21, 9) => f(4, U32),
        (20, 6) | (21, 10) => f(2, U16),
        (21, 5) | (22, 5) | (23, 5) => f(11, U32FT),
        (21, 6) | (22, 6) | (23, 6) => f(9, U16FT),
        (30, 1) | (31, 1) | (32, 1) | (33, 1) | (40, 1) | (42, 1) => f(5, I32F),
        (30, 2) | (31, 2) | (32, 2) | (33, 2) | (40, 2) | (42, 2) => f(3, I16F),
        (30, 3) | (31, 5) => f(4, I32),
        (30, 4) | (31, 6) => f(2, I16),
        (30, 5) | (31, 7) | (32, 5) | (33, 5) | (40, 3) | (42, 5) => f(5, F32F),
        (30, 6) | (31, 8) | (32, 6) | (33, 6) | (40, 4) | (42, 6) => f(9, F64F),
        (31, 3) | (32, 3) | (33, 3) | (42, 3) => f(11, I32FT),
        (31, 4) | (32, 4) | (33, 4) | (42, 4) => f(9, I16FT),
        (32, 7) | (33, 7) | (42, 7) => f(11, F32FT),
        (32, 8) | (33, 8) | (42, 8) => f(15, F64FT),
        (34, 1) => f(2, U16Only),
        (34, 2) => f(4, U32Only),
        (34, 3) => f(4, F32Only),
        (41, 1) => f(5, AoI32),
        (41, 2) => f(3, AoI16),
        (41, 3) => f(5, AoF32),
        (41, 4) => f(9, AoF64),
        (43, 1) => f(5, CmdEvI32),
        (43, 2) => f(3, CmdEvI16),
        (43, 3) => f(11, CmdEvI32T),
        (43, 4) => f(9, CmdEvI16T),
        (43, 5) => f(5, CmdEvF32),
        (43, 6) => f(9, CmdEvF64),
        (43, 7) => f(11, CmdEvF32T),
        (43, 8) => f(15, CmdEvF64T),
        (50, 1) | (50, 3) => f(6, Time48),
        (50, 2) => f(10, Time48Interval),
        (50, 4) => f(11, Opaque),
        (51, 1) | (51, 2) => f(6, Cto),
        (52, 1) | (52, 2) => f(2, U16Only),
        (70, 2..=8) => Some(Free),
        (102, 1) => f(1, Opaque),
        (110, _) | (111, _) => Some(VarLen),
        _ => Option::None,
    }
}

fn rd_u16(b: &[u8]) -> u16 {
    u16::from_le_bytes([b[0], b[1]])
}
fn rd_u32(b: &[u8]) -> u32 {
    u32::from_le_bytes([b[0], b[1], b[2], b[3]])
}
fn rd_u48(b: &[u8]) -> u64 {
    let mut x = [0u8; 8];
    x[..6].copy_from_slice(&b[..6]);
    u64::from_le_bytes(x)
}

/// JSON for an integer that TLC (32-bit) can read: small values as numbers, others as strings
pub fn jint(v: i128) -> Value {
    if (-2_000_000_000..=2_000_000_000).contains(&v) {
        json!(v as i64)
    } else {
        json!(format!("n:{v}"))
    }
}

pub fn jfloat(v: f64) -> Value {
    if v.is_finite() && v.fract() == 0.0 && v.abs() <= 2.0e9 {
        json!(v as i64)
    } else if v.is_nan() {
        json!("f:nan")
    } else {
        json!(format!("f:{v:?}"))
    }
}

pub fn hex(data: &[u8]) -> String {
    let mut s = String::with_capacity(data.len() * 2);
    for b in data {
        s.push_str(&format!("{b:02x}"));
    }
    s
}

pub fn unhex(s: &str) -> Vec<u8> {
    let s: Vec<u8> = s
        .bytes()
        .filter(|c| !c.is_ascii_whitespace())
        .collect();
    s.chunks(2)
        .map(|p| u8::from_str_radix(std::str::from_utf8(p).unwrap(), 16).unwrap())
        .collect()
}

/// octet-string value token: uniform fill => "os<len>:<fill>", otherwise raw hex
pub fn os_token(data: &[u8]) -> Value {
    if data.is_empty() {
        return json!("os0");
    }
    if data.iter().all(|b| *b == data[0]) {
        json!(format!("os{}:{}", data.len(), data[0]))
    } else {
        json!(format!("osraw:{}", hex(data)))
    }
}

#[derive(Clone, Copy, Debug, Default)]
pub struct CtoState {
    /// (time, synchronized)
    pub cto: Option<(u64, bool)>,
}

/// decode one fixed-size object into JSON fields (val, fl, tm, tq, status ...)
fn decode_fixed(d: Dec, b: &[u8], cto: &mut CtoState, o: &mut serde_json::Map<String, Value>) {
    use Dec::*;
    let set_time = |o: &mut serde_json::Map<String, Value>, t: u64| {
        o.insert("tm".into(), jint(t as i128));
    };
    match d {
        Opaque => {
            o.insert("raw".into(), json!(hex(b)));
        }
        BinFlags | BinFlagsT48 | BinFlagsT16 => {
            o.insert("val".into(), json!(((b[0] >> 7) & 1) as i64));
            o.insert("fl".into(), json!((b[0] & 0x7F) as i64));
            match d {
                BinFlagsT48 => set_time(o, rd_u48(&b[1..])),
                BinFlagsT16 => {
                    let rel = rd_u16(&b[1..]) as u64;
                    match cto.cto {
                        Some((base, sync)) => {
                            set_time(o, base + rel);
                            o.insert("tq".into(), json!(if sync { "s" } else { "u" }));
                        }
                        Option::None => {
                            o.insert("tm".into(), json!("nocto"));
                        }
                    }
                }
                _ => {}
            }
        }
        DblFlags | DblFlagsT48 | DblFlagsT16 => {
            o.insert("val".into(), json!(((b[0] >> 6) & 3) as i64));
            o.insert("fl".into(), json!((b[0] & 0x3F) as i64));
            match d {
                DblFlagsT48 => set_time(o, rd_u48(&b[1..])),
                DblFlagsT16 => {
                    let rel = rd_u16(&b[1..]) as u64;
                    match cto.cto {
                        Some((base, sync)) => {
                            set_time(o, base + rel);
                            o.insert("tq".into(), json!(if sync { "s" } else { "u" }));
                        }
                        Option::None => {
                            o.insert("tm".into(), json!("nocto"));
                        }
                    }
                }
                _ => {}
            }
        }
        U32F | U32FT => {
            o.insert("fl".into(), json!(b[0] as i64));
            o.insert("val".into(), jint(rd_u32(&b[1..]) as i128));
            if d == U32FT {
                set_time(o, rd_u48(&b[5..]));
            }
        }
        U16F | U16FT => {
            o.insert("fl".into(), json!(b[0] as i64));
            o.insert("val".into(), jint(rd_u16(&b[1..]) as i128));
            if d == U16FT {
                set_time(o, rd_u48(&b[3..]));
            }
        }
        U32 => {
            o.insert("val".into(), jint(rd_u32(b) as i128));
        }
        U16 => {
            o.insert("val".into(), jint(rd_u16(b) as i128));
        }
        I32F | I32FT => {
            o.insert("fl".into(), json!(b[0] as i64));
            o.insert("val".into(), jint(rd_u32(&b[1..]) as i32 as i128));
            if d == I32FT {
                set_time(o, rd_u48(&b[5..]));
            }
        }
        I16F | I16FT => {
            o.insert("fl".into(), json!(b[0] as i64));
            o.insert("val".into(), jint(rd_u16(&b[1..]) as i16 as i128));
            if d == I16FT {
                set_time(o, rd_u48(&b[3..]));
            }
        }
        I32 => {
            o.insert("val".into(), jint(rd_u32(b) as i32 as i128));
        }
        I16 => {
            o.insert("val".into(), jint(rd_u16(b) as i16 as i128));
        }
        F32F | F32FT => {
            o.insert("fl".into(), json!(b[0] as i64));
            o.insert("val".into(), jfloat(f32::from_bits(rd_u32(&b[1..])) as f64));
            if d == F32FT {
                set_time(o, rd_u48(&b[5..]));
            }
        }
        F64F | F64FT => {
            o.insert("fl".into(), json!(b[0] as i64));
            let mut x = [0u8; 8];
            x.copy_from_slice(&b[1..9]);
            o.insert("val".into(), jfloat(f64::from_le_bytes(x)));
            if d == F64FT {
                set_time(o, rd_u48(&b[9..]));
            }
        }
        Crob => {
            o.insert("code".into(), json!(b[0] as i64));
            o.insert("count".into(), json!(b[1] as i64));
            o.insert("on".into(), jint(rd_u32(&b[2..]) as i128));
            o.insert("off".into(), jint(rd_u32(&b[6..]) as i128));
            o.insert("status".into(), json!(b[10] as i64));
        }
        AoI32 => {
            o.insert("val".into(), jint(rd_u32(b) as i32 as i128));
            o.insert("status".into(), json!(b[4] as i64));
        }
        AoI16 => {
            o.insert("val".into(), jint(rd_u16(b) as i16 as i128));
            o.insert("status".into(), json!(b[2] as i64));
        }
        AoF32 => {
            o.insert("val".into(), jfloat(f32::from_bits(rd_u32(b)) as f64));
            o.insert("status".into(), json!(b[4] as i64));
        }
        AoF64 => {
            let mut x = [0u8; 8];
            x.copy_from_slice(&b[0..8]);
            o.insert("val".into(), jfloat(f64::from_le_bytes(x)));
            o.insert("status".into(), json!(b[8] as i64));
        }
        Time48 => {
            set_time(o, rd_u48(b));
        }
        Time48Interval => {
            set_time(o, rd_u48(b));
            o.insert("interval".into(), jint(rd_u32(&b[6..]) as i128));
        }
        U16Only => {
            o.insert("val".into(), jint(rd_u16(b) as i128));
        }
        U32Only => {
            o.insert("val".into(), jint(rd_u32(b) as i128));
        }
        F32Only => {
            o.insert("val".into(), jfloat(f32::from_bits(rd_u32(b)) as f64));
        }
        Cto => {
            set_time(o, rd_u48(b));
        }
        CmdEvI32 | CmdEvI16 | CmdEvI32T | CmdEvI16T | CmdEvF32 | CmdEvF64 | CmdEvF32T
        | CmdEvF64T => {
            o.insert("status".into(), json!((b[0] & 0x7F) as i64));
            o.insert("raw".into(), json!(hex(&b[1..])));
        }
    }
}

// ---------------------------------------------------------------- object header walker

#[derive(Clone, Debug)]
pub struct ObjHeader {
    pub g: u8,
    pub v: u8,
    pub q: u8,
    /// start/stop for range qualifiers
    pub range: Option<(u32, u32)>,
    /// count for count qualifiers
    pub count: Option<u32>,
    /// offset of the object data in the fragment's object area, and its length
    pub data_off: usize,
    pub data_len: usize,
    /// offset of the header itself
    pub hdr_off: usize,
}

#[derive(Clone, Debug)]
pub struct Walk {
    pub headers: Vec<ObjHeader>,
    /// decoded objects (only when `with_data`)
    pub objects: Vec<Value>,
    /// None = every byte consumed and everything understood
    pub error: Option<String>,
    pub consumed: usize,
}

/// Walk the object area of a fragment.  `with_data = false` for READ requests (headers only).
pub fn walk_objects(data: &[u8], with_data: bool) -> Walk {
    let mut w = Walk {
        headers: Vec::new(),
        objects: Vec::new(),
        error: None,
        consumed: 0,
    };
    let mut pos = 0usize;
    let mut cto = CtoState::default();
    macro_rules! need {
        ($n:expr) => {
            if data.len() < pos + $n {
                w.error = Some(format!("truncated@{}", pos));
                w.consumed = pos;
                return w;
            }
        };
    }
    while pos < data.len() {
        let hdr_off = pos;
        need!(3);
        let (g, v, q) = (data[pos], data[pos + 1], data[pos + 2]);
        pos += 3;
        let lay = match layout(g, v) {
            Some(l) => l,
            None => {
                w.error = Some(format!("unknown_gv:{g}:{v}@{hdr_off}"));
                w.consumed = hdr_off;
                return w;
            }
        };
        let mut range = None;
        let mut count = None;
        let (n, prefix): (u32, usize) = match q {
            0x00 => {
                need!(2);
                let (s, e) = (data[pos] as u32, data[pos + 1] as u32);
                pos += 2;
                if e < s {
                    w.error = Some(format!("bad_range@{hdr_off}"));
                    w.consumed = hdr_off;
                    return w;
                }
                range = Some((s, e));
                (e - s + 1, 0)
            }
            0x01 => {
                need!(4);
                let (s, e) = (rd_u16(&data[pos..]) as u32, rd_u16(&data[pos + 2..]) as u32);
                pos += 4;
                if e < s {
                    w.error = Some(format!("bad_range@{hdr_off}"));
                    w.consumed = hdr_off;
                    return w;
                }
                range = Some((s, e));
                (e - s + 1, 0)
            }
            0x06 => (0, 0),
            0x07 => {
                need!(1);
                let c = data[pos] as u32;
                pos += 1;
                count = Some(c);
                (c, 0)
            }
            0x08 => {
                need!(2);
                let c = rd_u16(&data[pos..]) as u32;
                pos += 2;
                count = Some(c);
                (c, 0)
            }
            0x17 => {
                need!(1);
                let c = data[pos] as u32;
                pos += 1;
                count = Some(c);
                (c, 1)
            }
            0x28 => {
                need!(2);
                let c = rd_u16(&data[pos..]) as u32;
                pos += 2;
                count = Some(c);
                (c, 2)
            }
            0x5B => {
                need!(1);
                let c = data[pos] as u32;
                pos += 1;
                count = Some(c);
                (c, 2)
            }
            _ => {
                w.error = Some(format!("unknown_qualifier:{q}@{hdr_off}"));
                w.consumed = hdr_off;
                return w;
            }
        };
        let data_off = pos;
        let ty = group_type(g);
        if with_data && q != 0x06 {
            match lay {
                Lay::None => {
                    // e.g. g60 with a count (limited class read) carries no data
                }
                Lay::Bit1 | Lay::Bit2 => {
                    if prefix != 0 {
                        w.error = Some(format!("packed_with_prefix@{hdr_off}"));
                        w.consumed = hdr_off;
                        return w;
                    }
                    let per = if lay == Lay::Bit1 { 8 } else { 4 };
                    let nbytes = (n as usize).div_ceil(per);
                    need!(nbytes);
                    let start = range.map(|r| r.0).unwrap_or(0);
                    for i in 0..n {
                        let (byte, bit) = (i as usize / per, i as usize % per);
                        let b = data[pos + byte];
                        let val = if lay == Lay::Bit1 {
                            (b >> bit) & 1
                        } else {
                            (b >> (2 * bit)) & 3
                        };
                        let mut o = serde_json::Map::new();
                        o.insert("g".into(), json!(g));
                        o.insert("v".into(), json!(v));
                        o.insert("ix".into(), json!(start + i));
                        if let Some((t, ev)) = ty {
                            o.insert("ty".into(), json!(t));
                            o.insert("ev".into(), json!(ev));
                            // packed formats imply ONLINE flags
                            o.insert("fl".into(), json!(1));
                        }
                        o.insert("val".into(), json!(val as i64));
                        w.objects.push(Value::Object(o));
                    }
                    pos += nbytes;
                }
                Lay::Fixed(size, dec) => {
                    let size = size as usize;
                    let total = (size + prefix) * n as usize;
                    need!(total);
                    let start = range.map(|r| r.0).unwrap_or(0);
                    for i in 0..n {
                        let ix = match prefix {
                            1 => {
                                let x = data[pos] as u32;
                                pos += 1;
                                x
                            }
                            2 => {
                                let x = rd_u16(&data[pos..]) as u32;
                                pos += 2;
                                x
                            }
                            _ => start + i,
                        };
                        let mut o = serde_json::Map::new();
                        o.insert("g".into(), json!(g));
                        o.insert("v".into(), json!(v));
                        if range.is_some() || prefix != 0 {
                            o.insert("ix".into(), json!(ix));
                        }
                        if let Some((t, ev)) = ty {
                            o.insert("ty".into(), json!(t));
                            o.insert("ev".into(), json!(ev));
                        }
                        decode_fixed(dec, &data[pos..pos + size], &mut cto, &mut o);
                        if dec == Dec::Cto {
                            let t = rd_u48(&data[pos..]);
                            cto.cto = Some((t, v == 1));
                        }
                        pos += size;
                        w.objects.push(Value::Object(o));
                    }
                }
                Lay::VarLen => {
                    let size = v as usize;
                    let total = (size + prefix) * n as usize;
                    need!(total);
                    let start = range.map(|r| r.0).unwrap_or(0);
                    for i in 0..n {
                        let ix = match prefix {
                            1 => {
                                let x = data[pos] as u32;
                                pos += 1;
                                x
                            }
                            2 => {
                                let x = rd_u16(&data[pos..]) as u32;
                                pos += 2;
                                x
                            }
                            _ => start + i,
                        };
                        let mut o = serde_json::Map::new();
                        o.insert("g".into(), json!(g));
                        o.insert("v".into(), json!(v));
                        o.insert("ix".into(), json!(ix));
                        if let Some((t, ev)) = ty {
                            o.insert("ty".into(), json!(t));
                            o.insert("ev".into(), json!(ev));
                        }
                        o.insert("val".into(), os_token(&data[pos..pos + size]));
                        pos += size;
                        w.objects.push(Value::Object(o));
                    }
                }
                Lay::Attr => {
                    // each attribute: type, length, data ; variation identifies the attribute
                    for _ in 0..n.max(1) {
                        need!(2);
                        let len = data[pos + 1] as usize;
                        need!(2 + len);
                        let mut o = serde_json::Map::new();
                        o.insert("g".into(), json!(g));
                        o.insert("v".into(), json!(v));
                        o.insert("raw".into(), json!(hex(&data[pos..pos + 2 + len])));
                        pos += 2 + len;
                        w.objects.push(Value::Object(o));
                    }
                }
                Lay::Free => {
                    for _ in 0..n {
                        need!(2);
                        let len = rd_u16(&data[pos..]) as usize;
                        pos += 2;
                        need!(len);
                        let mut o = serde_json::Map::new();
                        o.insert("g".into(), json!(g));
                        o.insert("v".into(), json!(v));
                        o.insert("raw".into(), json!(hex(&data[pos..pos + len])));
                        pos += len;
                        w.objects.push(Value::Object(o));
                    }
                }
            }
        }
        w.headers.push(ObjHeader {
            g,
            v,
            q,
            range,
            count,
            data_off,
            data_len: pos - data_off,
            hdr_off,
        });
    }
    w.consumed = pos;
    w
}

pub fn headers_json(headers: &[ObjHeader]) -> Value {
    Value::Array(
        headers
            .iter()
            .map(|h| {
                let mut o = serde_json::Map::new();
                o.insert("g".into(), json!(h.g));
                o.insert("v".into(), json!(h.v));
                o.insert("q".into(), json!(h.q));
                if let Some((s, e)) = h.range {
                    o.insert("start".into(), json!(s));
                    o.insert("stop".into(), json!(e));
                }
                if let Some(c) = h.count {
                    o.insert("count".into(), json!(c));
                }
                Value::Object(o)
            })
            .collect(),
    )
}

// ---------------------------------------------------------------- request/response building

/// Build an object header + data from a JSON description:
/// {"g":..,"v":..,"q":..,"start":..,"stop":..} | {"g","v","q","count"} plus optional "data":"hex"
/// or {"raw":"hex"} for arbitrary bytes.
pub fn build_header(h: &Value, out: &mut Vec<u8>) {
    if let Some(raw) = h.get("raw").and_then(|x| x.as_str()) {
        out.extend_from_slice(&unhex(raw));
        return;
    }
    let g = h["g"].as_u64().unwrap() as u8;
    let v = h["v"].as_u64().unwrap() as u8;
    let q = h["q"].as_u64().unwrap() as u8;
    out.extend_from_slice(&[g, v, q]);
    match q {
        0x00 => {
            out.push(h["start"].as_u64().unwrap() as u8);
            out.push(h["stop"].as_u64().unwrap() as u8);
        }
        0x01 => {
            out.extend_from_slice(&(h["start"].as_u64().unwrap() as u16).to_le_bytes());
            out.extend_from_slice(&(h["stop"].as_u64().unwrap() as u16).to_le_bytes());
        }
        0x07 | 0x17 | 0x5B => out.push(h["count"].as_u64().unwrap() as u8),
        0x08 | 0x28 => out.extend_from_slice(&(h["count"].as_u64().unwrap() as u16).to_le_bytes()),
        _ => {}
    }
    if let Some(d) = h.get("data").and_then(|x| x.as_str()) {
        out.extend_from_slice(&unhex(d));
    }
}

pub fn build_request(ctrl: u8, func: u8, headers: &[Value]) -> Vec<u8> {
    let mut out = vec![ctrl, func];
    for h in headers {
        build_header(h, &mut out);
    }
    out
}

pub fn build_response(ctrl: u8, func: u8, iin1: u8, iin2: u8, headers: &[Value]) -> Vec<u8> {
    let mut out = vec![ctrl, func, iin1, iin2];
    for h in headers {
        build_header(h, &mut out);
    }
    out
}

/// decode a fragment transmitted by an endpoint into the trace's `tx` record
pub fn decode_fragment(frag: &[u8], is_response: bool) -> Value {
    let mut o = serde_json::Map::new();
    o.insert("len".into(), json!(frag.len()));
    let hdr_len = if is_response { 4 } else { 2 };
    if frag.len() < hdr_len {
        o.insert("wf".into(), json!(false));
        o.insert("err".into(), json!("short_header"));
        return Value::Object(o);
    }
    let c = frag[0];
    o.insert("fir".into(), json!(c & AC_FIR != 0));
    o.insert("fin".into(), json!(c & AC_FIN != 0));
    o.insert("con".into(), json!(c & AC_CON != 0));
    o.insert("uns".into(), json!(c & AC_UNS != 0));
    o.insert("seq".into(), json!((c & 0x0F) as i64));
    o.insert("fn".into(), json!(fn_name(frag[1])));
    o.insert("fc".into(), json!(frag[1] as i64));
    if is_response {
        o.insert("iin".into(), iin_json(frag[2], frag[3]));
    }
    let with_data = is_response || frag[1] != 1;
    let w = walk_objects(&frag[hdr_len..], with_data);
    o.insert("hdrs".into(), headers_json(&w.headers));
    o.insert("objs".into(), Value::Array(w.objects));
    o.insert("wf".into(), json!(w.error.is_none()));
    if let Some(e) = w.error {
        o.insert("err".into(), json!(e));
    }
    Value::Object(o)
}

#[cfg(test)]
mod tests {
    use super::*;
    #[test]
    fn crc_known_vector() {
        // link status request frame from the dnp3 docs: 05 64 05 C9 01 00 00 04 -> CRC E9 21 (dst 1, src 1024)
        let hdr = [0x05u8, 0x64, 0x05, 0xC0, 0x01, 0x00, 0x00, 0x04];
        assert_eq!(crc16(&hdr).to_le_bytes(), [0xE9, 0x21]);
    }
    #[test]
    fn frame_roundtrip() {
        for n in [0usize, 1, 15, 16, 17, 32, 249, 250] {
            let p: Vec<u8> = (0..n).map(|i| i as u8).collect();
            let f = build_link_frame(0xC4, 1, 2, &p);
            assert_eq!(f.len(), frame_total_len((n + 5) as u8));
            match parse_frame_at(&f) {
                FrameParse::Frame(fr, used) => {
                    assert_eq!(used, f.len());
                    assert_eq!(fr.payload, p);
                }
                x => panic!("{x:?}"),
            }
        }
    }
}
