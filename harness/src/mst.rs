//! Master-side scenario runner: the production master stack over a pipe with a paused clock;
//! the harness plays the outstation (injects responses) and the user (submits requests).

use serde_json::{json, Map, Value};
use std::sync::{Arc, Mutex};
use std::time::Duration;

use dnp3::app::control::*;
use dnp3::app::measurement::*;
use dnp3::app::*;
use dnp3::link::EndpointAddress;
use dnp3::master::*;
use dnp3::verif_shim as shim;

use crate::codec;
use crate::common::*;

pub struct Rh {
    pub rec: Recorder,
    pub assoc: u16,
}

fn read_type(t: ReadType) -> &'static str {
    match t {
        ReadType::StartupIntegrity => "integrity",
        ReadType::Unsolicited => "unsol",
        ReadType::SinglePoll => "single",
        ReadType::PeriodicPoll => "poll",
    }
}

fn tm_json(t: Option<Time>) -> (Value, &'static str) {
    match t {
        None => (json!(""), "i"),
        Some(Time::Synchronized(x)) => (codec::jint(x.raw_value() as i128), "s"),
        Some(Time::Unsynchronized(x)) => (codec::jint(x.raw_value() as i128), "u"),
    }
}

impl Rh {
    fn item(&self, ty: &str, info: HeaderInfo, ix: u16, val: Value, fl: u8, tm: Option<Time>) {
        let (g, v) = shim::group_var(info.variation);
        let (t, tq) = tm_json(tm);
        self.rec.push(json!(["rh", "item", self.assoc, ty, g, v, ix, val, fl, t, tq, info.is_event]));
    }
}

impl ReadHandler for Rh {
    fn begin_fragment(&mut self, rt: ReadType, header: ResponseHeader) -> MaybeAsync<()> {
        self.rec.push(json!(["rh", "begin", self.assoc, read_type(rt), header.control.seq.value()]));
        MaybeAsync::ready(())
    }
    fn end_fragment(&mut self, rt: ReadType, header: ResponseHeader) -> MaybeAsync<()> {
        self.rec.push(json!(["rh", "end", self.assoc, read_type(rt), header.control.seq.value()]));
        MaybeAsync::ready(())
    }
    fn handle_binary_input(&mut self, info: HeaderInfo, iter: &mut dyn Iterator<Item = (BinaryInput, u16)>) {
        for (m, ix) in iter {
            self.item("bi", info, ix, json!(m.value as i64), m.flags.value & 0x7F, m.time);
        }
    }
    fn handle_double_bit_binary_input(&mut self, info: HeaderInfo, iter: &mut dyn Iterator<Item = (DoubleBitBinaryInput, u16)>) {
        for (m, ix) in iter {
            let v = match m.value {
                DoubleBit::Intermediate => 0,
                DoubleBit::DeterminedOff => 1,
                DoubleBit::DeterminedOn => 2,
                DoubleBit::Indeterminate => 3,
            };
            self.item("dbi", info, ix, json!(v), m.flags.value & 0x3F, m.time);
        }
    }
    fn handle_binary_output_status(&mut self, info: HeaderInfo, iter: &mut dyn Iterator<Item = (BinaryOutputStatus, u16)>) {
        for (m, ix) in iter {
            self.item("bos", info, ix, json!(m.value as i64), m.flags.value & 0x7F, m.time);
        }
    }
    fn handle_counter(&mut self, info: HeaderInfo, iter: &mut dyn Iterator<Item = (Counter, u16)>) {
        for (m, ix) in iter {
            self.item("ctr", info, ix, codec::jint(m.value as i128), m.flags.value, m.time);
        }
    }
    fn handle_frozen_counter(&mut self, info: HeaderInfo, iter: &mut dyn Iterator<Item = (FrozenCounter, u16)>) {
        for (m, ix) in iter {
            self.item("fctr", info, ix, codec::jint(m.value as i128), m.flags.value, m.time);
        }
    }
    fn handle_analog_input(&mut self, info: HeaderInfo, iter: &mut dyn Iterator<Item = (AnalogInput, u16)>) {
        for (m, ix) in iter {
            self.item("ai", info, ix, codec::jfloat(m.value), m.flags.value, m.time);
        }
    }
    fn handle_analog_output_status(&mut self, info: HeaderInfo, iter: &mut dyn Iterator<Item = (AnalogOutputStatus, u16)>) {
        for (m, ix) in iter {
            self.item("aos", info, ix, codec::jfloat(m.value), m.flags.value, m.time);
        }
    }
    fn handle_octet_string<'a>(&mut self, info: HeaderInfo, iter: &'a mut dyn Iterator<Item = (&'a [u8], u16)>) {
        for (d, ix) in iter {
            self.item("os", info, ix, codec::os_token(d), 0, None);
        }
    }
}

pub struct Ah {
    pub clock: Clock,
    pub base: Arc<Mutex<Option<u64>>>,
    pub rec: Recorder,
}

impl AssociationHandler for Ah {
    fn get_current_time(&self) -> Option<Timestamp> {
        let b = *self.base.lock().unwrap();
        self.rec.push(json!(["ah", "get_time"]));
        b.map(|x| Timestamp::new(x + self.clock.now() as u64))
    }
}

pub struct Ai {
    pub rec: Recorder,
    pub assoc: u16,
}

fn task_name(t: TaskType) -> String {
    err_name(&format!("{t:?}"))
}

impl AssociationInformation for Ai {
    fn task_start(&mut self, t: TaskType, fc: FunctionCode, seq: Sequence) {
        self.rec.push(json!(["ai", "task_start", self.assoc, task_name(t), fc.as_u8(), seq.value()]));
    }
    fn task_success(&mut self, t: TaskType, fc: FunctionCode, seq: Sequence) {
        self.rec.push(json!(["ai", "task_success", self.assoc, task_name(t), fc.as_u8(), seq.value()]));
    }
    fn task_fail(&mut self, t: TaskType, err: TaskError) {
        self.rec.push(json!(["ai", "task_fail", self.assoc, task_name(t), err_name(&format!("{err:?}"))]));
    }
    fn unsolicited_response(&mut self, dup: bool, seq: Sequence) {
        self.rec.push(json!(["ai", "unsol", self.assoc, dup, seq.value()]));
    }
}

/// short stable name of an error (variant name without payload)
pub fn err_name(dbg: &str) -> String {
    let s = dbg.split(|c| c == '(' || c == '{' || c == ' ' || c == ')').next().unwrap_or(dbg);
    s.to_string()
}

fn ev_classes(v: &Value, dflt: bool) -> EventClasses {
    match v.as_array() {
        Some(a) => EventClasses::new(
            a.first().and_then(|x| x.as_bool()).unwrap_or(dflt),
            a.get(1).and_then(|x| x.as_bool()).unwrap_or(dflt),
            a.get(2).and_then(|x| x.as_bool()).unwrap_or(dflt),
        ),
        None => EventClasses::new(dflt, dflt, dflt),
    }
}

pub fn classes(v: &Value, dflt: bool) -> Classes {
    match v.as_array() {
        Some(a) => Classes::new(
            a.first().and_then(|x| x.as_bool()).unwrap_or(dflt),
            EventClasses::new(
                a.get(1).and_then(|x| x.as_bool()).unwrap_or(dflt),
                a.get(2).and_then(|x| x.as_bool()).unwrap_or(dflt),
                a.get(3).and_then(|x| x.as_bool()).unwrap_or(dflt),
            ),
        ),
        None => Classes::new(dflt, EventClasses::new(dflt, dflt, dflt)),
    }
}

pub fn assoc_config(a: &Value) -> AssociationConfig {
    let mut c = AssociationConfig::new(
        ev_classes(&a["disable_unsol"], true),
        ev_classes(&a["enable_unsol"], true),
        classes(&a["integrity"], true),
        ev_classes(&a["event_scan"], false),
    );
    c.response_timeout = Timeout::from_millis(a["response_timeout"].as_u64().unwrap_or(1000)).unwrap();
    c.auto_time_sync = match a["auto_time_sync"].as_str() {
        Some("lan") => Some(TimeSyncProcedure::Lan),
        Some("nonlan") => Some(TimeSyncProcedure::NonLan),
        _ => None,
    };
    let rmin = a["retry_min"].as_u64().unwrap_or(1000);
    let rmax = a["retry_max"].as_u64().unwrap_or(10000);
    c.auto_tasks_retry_strategy = RetryStrategy::new(Duration::from_millis(rmin), Duration::from_millis(rmax));
    c.keep_alive_timeout = a["keep_alive"].as_u64().map(Duration::from_millis);
    c.auto_integrity_scan_on_buffer_overflow = a["integrity_on_overflow"].as_bool().unwrap_or(true);
    if let Some(n) = a["max_queue"].as_u64() {
        c.max_queued_user_requests = n as usize;
    }
    c
}

fn proc_of(s: &str) -> TimeSyncProcedure {
    match s {
        "lan" => TimeSyncProcedure::Lan,
        _ => TimeSyncProcedure::NonLan,
    }
}

fn variation_of(g: u64, v: u64) -> Option<Variation> {
    shim::variation(g as u8, v as u8)
}

fn read_request(r: &Value) -> ReadRequest {
    if let Some(c) = r.get("classes") {
        return ReadRequest::class_scan(classes(c, false));
    }
    let mut hs = Vec::new();
    for h in r["headers"].as_array().cloned().unwrap_or_default() {
        let var = match variation_of(h["g"].as_u64().unwrap_or(60), h["v"].as_u64().unwrap_or(1)) {
            Some(v) => v,
            None => continue,
        };
        let q = h["q"].as_u64().unwrap_or(6);
        hs.push(match q {
            0 => ReadHeader::one_byte_range(var, h["start"].as_u64().unwrap_or(0) as u8, h["stop"].as_u64().unwrap_or(0) as u8),
            1 => ReadHeader::two_byte_range(var, h["start"].as_u64().unwrap_or(0) as u16, h["stop"].as_u64().unwrap_or(0) as u16),
            7 => ReadHeader::one_byte_limited_count(var, h["count"].as_u64().unwrap_or(1) as u8),
            8 => ReadHeader::two_byte_limited_count(var, h["count"].as_u64().unwrap_or(1) as u16),
            _ => ReadHeader::all_objects(var),
        });
    }
    ReadRequest::multiple_headers(&hs)
}

/// command objects: [{"t":"crob"|"ao16"|"ao32"|"aof32"|"aof64","ix":n,"wide":bool,"val":x, "new_header":bool}]
fn command_headers(objs: &Value) -> CommandHeaders {
    let mut b = CommandBuilder::new();
    for o in objs.as_array().cloned().unwrap_or_default() {
        let ix = o["ix"].as_u64().unwrap_or(0);
        let wide = o["wide"].as_bool().unwrap_or(false);
        if o["new_header"].as_bool().unwrap_or(false) {
            b.finish_header();
        }
        match o["t"].as_str().unwrap_or("crob") {
            "ao16" => {
                let c = Group41Var2::new(o["val"].as_i64().unwrap_or(0) as i16);
                if wide { b.add_u16(c, ix as u16) } else { b.add_u8(c, ix as u8) }
            }
            "ao32" => {
                let c = Group41Var1::new(o["val"].as_i64().unwrap_or(0) as i32);
                if wide { b.add_u16(c, ix as u16) } else { b.add_u8(c, ix as u8) }
            }
            "aof32" => {
                let c = Group41Var3::new(o["val"].as_f64().unwrap_or(0.0) as f32);
                if wide { b.add_u16(c, ix as u16) } else { b.add_u8(c, ix as u8) }
            }
            "aof64" => {
                let c = Group41Var4::new(o["val"].as_f64().unwrap_or(0.0));
                if wide { b.add_u16(c, ix as u16) } else { b.add_u8(c, ix as u8) }
            }
            _ => {
                let c = Group12Var1::from_op_type(OpType::LatchOn);
                if wide { b.add_u16(c, ix as u16) } else { b.add_u8(c, ix as u8) }
            }
        }
    }
    b.build()
}

pub struct Run {
    pub clock: Clock,
    pub rec: Recorder,
    pub sess: Arc<Mutex<Vec<(i64, String)>>>,
    pub done: Arc<Mutex<Vec<(i64, Value)>>>,
    pub channel: MasterChannel,
    pub assocs: Vec<(u16, AssociationHandle)>,
    pub polls: Arc<Mutex<Vec<(u64, PollHandle)>>>,
    pub pipes: tokio::sync::mpsc::UnboundedSender<shim::Pipe>,
    pub task: tokio::task::JoinHandle<()>,
    pub conn: Option<Conn>,
    pub intern: Interner,
    pub maddr: u16,
    pub time_base: Arc<Mutex<Option<u64>>>,
    pub last_req: Option<Vec<u8>>,
    pub last_req_dst: u16,
    pub dead: bool,
}

impl Run {
    pub async fn new(cfg: &Value) -> Run {
        let clock = Clock::new();
        let rec = Recorder::new(clock);
        let maddr = cfg["maddr"].as_u64().unwrap_or(1) as u16;
        let mut mc = MasterChannelConfig::new(EndpointAddress::try_new(maddr).unwrap());
        mc.decode_level = decode_level(cfg["decode"].as_str().unwrap_or("nothing"));
        if let Some(n) = cfg["tx_buf"].as_u64() {
            mc.tx_buffer_size = BufferSize::new(n as usize).unwrap();
        }
        let (endpoint, channel) = shim::Endpoint::master(
            mc,
            error_mode(cfg["error_mode"].as_str().unwrap_or("close")),
            cfg["enabled"].as_bool().unwrap_or(true),
        );
        let (ptx, prx) = tokio::sync::mpsc::unbounded_channel();
        let sess: Arc<Mutex<Vec<(i64, String)>>> = Arc::new(Mutex::new(Vec::new()));
        let sess2 = sess.clone();
        let task = tokio::spawn(endpoint.run(
            prx,
            Box::new(move |e| {
                let s = match e {
                    shim::SessionEvent::Connected => "connected".to_string(),
                    shim::SessionEvent::LinkError(x) => format!("link_error:{x}"),
                    shim::SessionEvent::Disabled => "disabled".to_string(),
                    shim::SessionEvent::Shutdown => "shutdown".to_string(),
                    shim::SessionEvent::NoMorePipes => "no_more_pipes".to_string(),
                };
                sess2.lock().unwrap().push((clock.now(), s));
            }),
        ));
        let time_base = Arc::new(Mutex::new(cfg["time_base"].as_u64()));
        let mut run = Run {
            clock,
            rec,
            sess,
            done: Arc::new(Mutex::new(Vec::new())),
            channel,
            assocs: Vec::new(),
            polls: Arc::new(Mutex::new(Vec::new())),
            pipes: ptx,
            task,
            conn: None,
            intern: Interner::default(),
            maddr,
            time_base,
            last_req: None,
            last_req_dst: 1024,
            dead: false,
        };
        for a in cfg["assocs"].as_array().cloned().unwrap_or_default() {
            run.add_assoc(&a).await;
        }
        run
    }

    async fn add_assoc(&mut self, a: &Value) -> bool {
        let addr = a["addr"].as_u64().unwrap_or(1024) as u16;
        let r = self
            .channel
            .add_association(
                EndpointAddress::try_new(addr).unwrap(),
                assoc_config(a),
                Box::new(Rh { rec: self.rec.clone(), assoc: addr }),
                Box::new(Ah { clock: self.clock, base: self.time_base.clone(), rec: self.rec.clone() }),
                Box::new(Ai { rec: self.rec.clone(), assoc: addr }),
            )
            .await;
        match r {
            Ok(h) => {
                self.assocs.push((addr, h));
                true
            }
            Err(_) => false,
        }
    }

    fn handle(&self, st: &Value) -> Option<AssociationHandle> {
        let addr = st["assoc"].as_u64().unwrap_or(self.assocs.first().map(|x| x.0 as u64).unwrap_or(1024)) as u16;
        self.assocs.iter().find(|x| x.0 == addr).map(|x| x.1.clone())
    }

    pub fn collect(&mut self, line: &mut Map<String, Value>) {
        let mut tx = Vec::new();
        let mut ltx = Vec::new();
        if let Some(conn) = self.conn.as_mut() {
            let w = decode_wire(conn);
            for (t, frag, dst, src) in w.frags {
                let mut d = codec::decode_fragment(&frag, false);
        d["peer"] = json!(peer_check(&frag, false));
                let o = d.as_object_mut().unwrap();
                o.insert("t".into(), json!(t));
                o.insert("bid".into(), json!(self.intern.id(&frag)));
                let objs = if frag.len() > 2 { &frag[2..] } else { &[][..] };
                o.insert("obid".into(), json!(self.intern.id(objs)));
                o.insert("dst".into(), json!(dst));
                o.insert("src".into(), json!(src));
                if frag.len() >= 2 && frag[1] != 0 {
                    self.last_req = Some(frag.clone());
                    self.last_req_dst = dst;
                }
                tx.push(d);
            }
            for (t, f) in w.link {
                ltx.push(link_json(t, &f));
            }
            if !w.errors.is_empty() {
                line.insert("txerr".into(), json!(w.errors));
            }
            if w.eof {
                line.insert("eof".into(), json!(true));
            }
        }
        let cb: Vec<Value> = self.rec.drain().into_iter().map(|(t, mut v)| {
            v.as_array_mut().unwrap().insert(0, json!(t));
            v
        }).collect();
        let done: Vec<Value> = std::mem::take(&mut *self.done.lock().unwrap()).into_iter().map(|(t, mut v)| {
            v.as_array_mut().unwrap().insert(0, json!(t));
            v
        }).collect();
        let sess: Vec<Value> = std::mem::take(&mut *self.sess.lock().unwrap()).into_iter().map(|(t, s)| json!([t, s])).collect();
        line.insert("tx".into(), Value::Array(tx));
        line.insert("ltx".into(), Value::Array(ltx));
        line.insert("cb".into(), Value::Array(cb));
        line.insert("done".into(), Value::Array(done));
        if !sess.is_empty() {
            line.insert("sess".into(), Value::Array(sess));
        }
        if self.task.is_finished() && !self.dead {
            self.dead = true;
            match take_panic() {
                Some(p) => { line.insert("panic".into(), p); }
                None => { line.insert("ended".into(), json!(true)); }
            }
        }
    }

    /// submit a user request; its completion is recorded asynchronously in `done`
    fn submit(&mut self, st: &Value) -> bool {
        let id = st["id"].clone();
        let kind = st["kind"].as_str().unwrap_or("").to_string();
        let done = self.done.clone();
        let clock = self.clock;
        let polls = self.polls.clone();
        let mut h = match self.handle(st) {
            Some(h) => h,
            None => {
                done.lock().unwrap().push((clock.now(), json!([id, "NoHandle"])));
                return false;
            }
        };
        let st = st.clone();
        let fin = move |res: String| {
            done.lock().unwrap().push((clock.now(), json!([id, res])));
        };
        tokio::spawn(async move {
            let out = match kind.as_str() {
                "read" => match h.read(read_request(&st)).await {
                    Ok(()) => "ok".to_string(),
                    Err(e) => err_name(&format!("{e:?}")),
                },
                "cmd" => {
                    let mode = if st["mode"].as_str() == Some("sbo") { CommandMode::SelectBeforeOperate } else { CommandMode::DirectOperate };
                    match h.operate(mode, command_headers(&st["objs"])).await {
                        Ok(()) => "ok".to_string(),
                        Err(e) => {
                            // CommandError::Task(x) -> the task error's name; CommandError::Response(_) -> "Response"
                            let d = format!("{e:?}");
                            if d.starts_with("Task(") {
                                err_name(d.trim_start_matches("Task("))
                            } else {
                                err_name(&d)
                            }
                        }
                    }
                }
                "time" => match h.synchronize_time(proc_of(st["proc"].as_str().unwrap_or("lan"))).await {
                    Ok(()) => "ok".to_string(),
                    Err(e) => {
                        let d = format!("{e:?}");
                        let inner = d.split('(').nth(1).unwrap_or("").trim_end_matches(')');
                        if inner.is_empty() { err_name(&d) } else { format!("{}:{}", err_name(&d), err_name(inner)) }
                    }
                },
                "restart" => {
                    let r = if st["warm"].as_bool().unwrap_or(false) { h.warm_restart().await } else { h.cold_restart().await };
                    match r {
                        Ok(_d) => "ok".to_string(),
                        Err(e) => err_name(&format!("{e:?}")),
                    }
                }
                "link_status" => match h.check_link_status().await {
                    Ok(()) => "ok".to_string(),
                    Err(e) => err_name(&format!("{e:?}")),
                },
                "empty" => {
                    let fc = FunctionCode::from(st["fc"].as_u64().unwrap_or(20) as u8).unwrap_or(FunctionCode::EnableUnsolicited);
                    let hs = Headers::new().add_all_objects(Variation::Group60Var2);
                    match h.send_and_expect_empty_response(fc, hs).await {
                        Ok(()) => "ok".to_string(),
                        Err(e) => err_name(&format!("{e:?}")),
                    }
                }
                "poll_add" => {
                    let period = Duration::from_millis(st["period"].as_u64().unwrap_or(1000));
                    match h.add_poll(read_request(&st), period).await {
                        Ok(ph) => {
                            let key = st["assoc"].as_u64().unwrap_or(0) * 1000 + st["pid"].as_u64().unwrap_or(0);
                            polls.lock().unwrap().push((key, ph));
                            "ok".to_string()
                        }
                        Err(e) => err_name(&format!("{e:?}")),
                    }
                }
                "poll_demand" => {
                    let pid = st["assoc"].as_u64().unwrap_or(0) * 1000 + st["pid"].as_u64().unwrap_or(0);
                    let ph = polls.lock().unwrap().iter().find(|x| x.0 == pid).map(|x| x.1.clone());
                    match ph {
                        Some(mut p) => match p.demand().await { Ok(()) => "ok".to_string(), Err(_) => "Shutdown".to_string() },
                        None => "NoPoll".to_string(),
                    }
                }
                "assoc_remove" => match h.remove().await { Ok(()) => "ok".to_string(), Err(_) => "Shutdown".to_string() },
                _ => "unknown".to_string(),
            };
            fin(out);
        });
        true
    }

    pub async fn step(&mut self, st: &Value) -> Value {
        let mut line = Map::new();
        let k = st["k"].as_str().unwrap_or("").to_string();
        line.insert("k".into(), json!(k));
        line.insert("t".into(), json!(self.clock.now()));
        if let Some(tag) = st.get("tag") {
            line.insert("tag".into(), tag.clone());
        }
        match k.as_str() {
            "conn" => {
                let (c, theirs) = Conn::open(self.clock);
                self.conn = Some(c);
                let _ = self.pipes.send(theirs);
                settle().await;
            }
            "reconn" => {
                // a new connection if the endpoint closed the previous one (or there is none)
                if let Some(conn) = self.conn.as_mut() {
                    let w = decode_wire(conn);
                    if w.eof {
                        conn.eof_seen = true;
                    }
                }
                let closed = self.conn.as_ref().map(|c| c.eof_seen).unwrap_or(true);
                line.insert("was_closed".into(), json!(closed));
                if closed {
                    if let Some(c) = self.conn.take() {
                        c.reader_task.abort();
                    }
                    settle().await;
                    let (c, theirs) = Conn::open(self.clock);
                    self.conn = Some(c);
                    let _ = self.pipes.send(theirs);
                    settle().await;
                }
            }
            "cut" => {
                if let Some(c) = self.conn.take() {
                    c.reader_task.abort();
                }
                settle().await;
            }
            "adv" => {
                let dt = st["dt"].as_u64().unwrap_or(0);
                line.insert("dt".into(), json!(dt));
                tokio::time::sleep(Duration::from_millis(dt)).await;
                quiesce().await;
                tick();
            }
            "enable" => {
                let _ = self.channel.enable().await;
                settle().await;
            }
            "disable" => {
                let _ = self.channel.disable().await;
                settle().await;
            }
            "timebase" => {
                *self.time_base.lock().unwrap() = st["base"].as_u64();
                settle().await;
            }
            "assoc_add" => {
                let ok = self.add_assoc(&st["assoc"]).await;
                line.insert("ok".into(), json!(ok));
                settle().await;
            }
            "req" => {
                for (kk, v) in st.as_object().unwrap() {
                    if kk != "k" {
                        line.insert(kk.clone(), v.clone());
                    }
                }
                self.submit(st);
                settle().await;
            }
            "rx" => {
                self.do_rx(st, &mut line).await;
                settle().await;
            }
            "lrx" => {
                // a bare link frame from the outstation (e.g. LINK_STATUS)
                let ctrl = st["ctrl"].as_u64().unwrap_or(0x0B) as u8;
                let src = st["src"].as_u64().unwrap_or(1024) as u16;
                let f = codec::build_link_frame(ctrl, self.maddr, src, &[]);
                if let Some(c) = self.conn.as_mut() {
                    c.write(&f).await;
                }
                line.insert("ctrl".into(), json!(ctrl));
                line.insert("src".into(), json!(src));
                settle().await;
            }
            "raw" => {
                let bytes = codec::unhex(st["hex"].as_str().unwrap_or(""));
                let sizes: Vec<usize> = st["chunks"].as_array().map(|a| a.iter().map(|x| (x.as_u64().unwrap_or(1) as usize).max(1)).collect()).unwrap_or_default();
                if let Some(c) = self.conn.as_mut() {
                    let mut pos = 0;
                    for n in sizes {
                        if pos >= bytes.len() {
                            break;
                        }
                        let end = (pos + n).min(bytes.len());
                        c.write(&bytes[pos..end]).await;
                        pos = end;
                        settle().await;
                    }
                    if pos < bytes.len() {
                        c.write(&bytes[pos..]).await;
                    }
                }
                line.insert("len".into(), json!(bytes.len()));
                settle().await;
            }
            _ => {
                line.insert("unknown_step".into(), json!(true));
            }
        }
        self.collect(&mut line);
        Value::Object(line)
    }

    /// inject a response / unsolicited fragment as the outstation
    async fn do_rx(&mut self, st: &Value, line: &mut Map<String, Value>) {
        let last = self.last_req.clone().unwrap_or(vec![0xC0, 0x01]);
        let last_seq = last[0] & 0x0F;
        let uns = st["uns"].as_bool().unwrap_or(false);
        let func: u8 = match st["fn"].as_str() {
            Some("unsol") => 130,
            Some("response") | None => if uns { 130 } else { 129 },
            Some(x) => codec::fn_code(x).unwrap_or(129),
        };
        let seq = match &st["seq"] {
            Value::Number(n) => (n.as_u64().unwrap_or(0) & 0x0F) as u8,
            Value::String(s) if s == "wrong" => (last_seq + 1) & 0x0F,
            Value::String(s) if s == "prev" => (last_seq + 15) & 0x0F,
            _ => last_seq,
        };
        let fir = st["fir"].as_bool().unwrap_or(true);
        let fin = st["fin"].as_bool().unwrap_or(true);
        let con = st["con"].as_bool().unwrap_or(func == 130);
        let uns_bit = st["uns_bit"].as_bool().unwrap_or(func == 130);
        let ctrl = codec::app_control(fir, fin, con, uns_bit, seq);
        let iin = &st["iin"];
        let b = |k: &str| iin[k].as_bool().unwrap_or(false);
        let iin1 = (b("bc") as u8) | (b("c1") as u8) << 1 | (b("c2") as u8) << 2 | (b("c3") as u8) << 3
            | (b("time") as u8) << 4 | (b("local") as u8) << 5 | (b("trouble") as u8) << 6 | (b("rst") as u8) << 7;
        let iin2 = (b("nofn") as u8) | (b("unk") as u8) << 1 | (b("param") as u8) << 2 | (b("ovf") as u8) << 3
            | (b("busy") as u8) << 4 | (b("cfg") as u8) << 5;
        let mut frag = vec![ctrl, func, iin1, iin2];
        if st["echo"].as_bool().unwrap_or(false) {
            // echo of the objects of the master's last request, optionally mutated
            let mut objs = last[2..].to_vec();
            if let Some(m) = st.get("mutate") {
                if let Some(off) = m["xor_at"].as_u64() {
                    let i = (off as usize) % objs.len().max(1);
                    if !objs.is_empty() {
                        objs[i] ^= m["xor"].as_u64().unwrap_or(1) as u8;
                    }
                }
                if let Some(s) = m["status"].as_u64() {
                    if let Some(l) = objs.last_mut() {
                        *l = s as u8;
                    }
                }
                if m["truncate"].as_u64().is_some() {
                    let n = objs.len().saturating_sub(m["truncate"].as_u64().unwrap() as usize);
                    objs.truncate(n);
                }
                if let Some(x) = m["append"].as_str() {
                    objs.extend_from_slice(&codec::unhex(x));
                }
            }
            frag.extend_from_slice(&objs);
        } else {
            let hdrs: Vec<Value> = st["hdrs"].as_array().cloned().unwrap_or_default();
            for h in &hdrs {
                codec::build_header(h, &mut frag);
            }
        }
        if let Some(x) = st.get("raw_app").and_then(|x| x.as_str()) {
            frag = codec::unhex(x);
        }
        let src = st["src"].as_u64().unwrap_or(self.last_req_dst as u64) as u16;
        let dst = st["dst"].as_u64().unwrap_or(self.maddr as u64) as u16;
        let mut d = codec::decode_fragment(&frag, true);
        d.as_object_mut().unwrap().insert("bid".into(), json!(self.intern.id(&frag)));
        let objs = if frag.len() > 4 { frag[4..].to_vec() } else { Vec::new() };
        d.as_object_mut().unwrap().insert("obid".into(), json!(self.intern.id(&objs)));
        line.insert("frag".into(), d);
        line.insert("src".into(), json!(src));
        line.insert("dst".into(), json!(dst));
        line.insert("matches_last".into(), json!(seq == last_seq));
        if let Some(conn) = self.conn.as_mut() {
            let (n, _) = conn.send_fragment(&frag, 0x44, dst, src).await;
            line.insert("segs".into(), json!(n));
        } else {
            line.insert("noconn".into(), json!(true));
        }
    }
}

pub async fn run_scenario(sc: &Value) {
    emit(json!({"k":"reset","id":sc["id"],"cfg":sc["cfg"],"meta":sc.get("meta").cloned().unwrap_or(Value::Null)}));
    let _ = take_panic();
    let mut run = Run::new(&sc["cfg"]).await;
    let steps = sc["steps"].as_array().cloned().unwrap_or_default();
    for (i, st) in steps.iter().enumerate() {
        set_current(format!("master scenario {} step {} {}", sc["id"], i, st));
        let line = run.step(st).await;
        let dead = run.dead;
        emit(line);
        if dead {
            emit(json!({"k":"dead","at":i}));
            break;
        }
    }
    run.task.abort();
    if let Some(c) = run.conn.take() {
        c.reader_task.abort();
    }
}
