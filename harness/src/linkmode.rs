//! Link / transport level scenario runner: the real `link::layer::Layer` (parser + reader +
//! addressing) and the real transport reader / writer on a pipe, driven read by read.

use serde_json::{json, Map, Value};
use std::time::Duration;
use tokio::io::{AsyncReadExt, AsyncWriteExt};

use dnp3::verif_shim as shim;

use crate::codec;
use crate::common::*;

async fn drain_replies(rd: &mut tokio::io::ReadHalf<tokio::io::DuplexStream>, pending: &mut Vec<u8>) -> Vec<codec::LinkFrame> {
    let mut buf = vec![0u8; 65536];
    loop {
        match tokio::time::timeout(Duration::from_millis(0), rd.read(&mut buf)).await {
            Ok(Ok(n)) if n > 0 => pending.extend_from_slice(&buf[..n]),
            _ => break,
        }
    }
    let (frames, rest, _) = codec::parse_clean_stream(pending);
    *pending = rest;
    frames
}

fn fn_short(f: &codec::LinkFrame) -> &'static str {
    match f.func() {
        0x00 => "ack",
        0x01 => "nack",
        0x0B => "status",
        0x0F => "notsup",
        0x49 => "req_status",
        0x44 => "unconf_data",
        _ => "other",
    }
}

/// run one link-level scenario
pub async fn run_link(sc: &Value) {
    let cfg = &sc["cfg"];
    let discard = cfg["discard"].as_bool().unwrap_or(false);
    let datagram = cfg["datagram"].as_bool().unwrap_or(false);
    let is_master = cfg["is_master"].as_bool().unwrap_or(false);
    let self_addr = cfg["self_addr"].as_bool().unwrap_or(false);
    let local = cfg["local"].as_u64().unwrap_or(1024) as u16;
    let max_fragment = cfg["max_fragment"].as_u64().unwrap_or(2048) as usize;
    let level = decode_level(cfg["decode"].as_str().unwrap_or("nothing"));
    let mode = if discard {
        dnp3::link::LinkErrorMode::Discard
    } else {
        dnp3::link::LinkErrorMode::Close
    };
    emit(json!({"k":"reset","id":sc["id"],"cfg":cfg,"meta":sc.get("meta").cloned().unwrap_or(Value::Null)}));
    let _ = take_panic();

    // the frames of the scenario, to give deliveries an identity
    let frames: Vec<Vec<u8>> = sc["frames"]
        .as_array()
        .map(|a| a.iter().map(|x| codec::unhex(x.as_str().unwrap_or(""))).collect())
        .unwrap_or_default();
    let parsed: Vec<Option<codec::LinkFrame>> = frames
        .iter()
        .map(|f| match codec::parse_frame_at(f) {
            codec::FrameParse::Frame(x, _) => Some(x),
            _ => None,
        })
        .collect();

    let (mine, theirs) = tokio::io::duplex(1 << 20);
    let (mut rd, mut wr) = tokio::io::split(mine);
    let mut probe = shim::LinkProbe::new(mode, datagram, max_fragment, is_master, self_addr, local, level, theirs);
    let mut pending = Vec::new();
    let mut closed = false;

    let steps = sc["steps"].as_array().cloned().unwrap_or_default();
    for (i, st) in steps.iter().enumerate() {
        set_current(format!("link scenario {} step {}", sc["id"], i));
        let k = st["k"].as_str().unwrap_or("");
        let mut line = Map::new();
        line.insert("k".into(), json!(k));
        match k {
            "lreset" => {
                probe.reset();
                closed = false;
            }
            "sweep" => {
                // every variant of the frame with `flips` bits flipped is fed to a fresh reader:
                // none may be delivered
                let frame = codec::unhex(st["hex"].as_str().unwrap_or(""));
                let flips = st["flips"].as_u64().unwrap_or(1) as usize;
                let sample = st["sample"].as_u64().unwrap_or(0) as usize;
                let nbits = frame.len() * 8;
                let mut variants: Vec<Vec<usize>> = Vec::new();
                if flips == 1 {
                    for a in 0..nbits {
                        variants.push(vec![a]);
                    }
                } else if flips == 2 {
                    for a in 0..nbits {
                        for b in (a + 1)..nbits {
                            variants.push(vec![a, b]);
                        }
                    }
                } else if sample == 0 {
                    for a in 0..nbits {
                        for b in (a + 1)..nbits {
                            for c in (b + 1)..nbits {
                                variants.push(vec![a, b, c]);
                            }
                        }
                    }
                } else {
                    use rand::{Rng, SeedableRng};
                    let mut rng = rand::rngs::StdRng::seed_from_u64(st["seed"].as_u64().unwrap_or(1));
                    while variants.len() < sample {
                        let mut v: Vec<usize> = (0..flips).map(|_| rng.random_range(0..nbits)).collect();
                        v.sort();
                        v.dedup();
                        if v.len() == flips {
                            variants.push(v);
                        }
                    }
                }
                let mut bad = 0u64;
                let mut first_bad = Value::Null;
                // optionally an intact frame follows the damaged one in the same write: in discard mode it must be
                // found and delivered unaltered (and nothing else)
                let follow = st.get("follow").and_then(|x| x.as_str()).map(codec::unhex);
                let follow_parsed = follow.as_ref().and_then(|f| match codec::parse_frame_at(f) {
                    codec::FrameParse::Frame(fr, _) => Some(fr),
                    _ => None,
                });
                let mut follow_lost = 0u64;
                let mut follow_altered = 0u64;
                for v in &variants {
                    let mut f = frame.clone();
                    for bit in v {
                        f[bit / 8] ^= 1 << (bit % 8);
                    }
                    let (m2, t2) = tokio::io::duplex(8192);
                    let (_r2, mut w2) = tokio::io::split(m2);
                    let mut p2 = shim::LinkProbe::new(mode, datagram, max_fragment, is_master, self_addr, local, level, t2);
                    if let Some(fo) = &follow {
                        f.extend_from_slice(fo);
                    }
                    let _ = w2.write_all(&f).await;
                    let mut got = Vec::new();
                    loop {
                        match tokio::time::timeout(Duration::from_millis(1), p2.read()).await {
                            Ok(Ok(x)) => got.push((x.source, x.payload.clone())),
                            _ => break,
                        }
                        if got.len() > 4 {
                            break;
                        }
                    }
                    match &follow_parsed {
                        None => {
                            if !got.is_empty() {
                                bad += 1;
                                if first_bad.is_null() {
                                    first_bad = json!({"bits": v, "hex": codec::hex(&f)});
                                }
                            }
                        }
                        Some(fp) => {
                            let exact = got.iter().filter(|(s, p)| *s == fp.src && *p == fp.payload).count();
                            if got.len() > exact {
                                // something that is not the intact frame came up (the damaged one, or an altered one)
                                if got.iter().any(|(s, _)| *s == fp.src) && exact == 0 {
                                    follow_altered += 1;
                                } else {
                                    bad += 1;
                                }
                                if first_bad.is_null() {
                                    first_bad = json!({"bits": v, "hex": codec::hex(&f)});
                                }
                            } else if exact == 0 {
                                follow_lost += 1;
                                if first_bad.is_null() {
                                    first_bad = json!({"bits": v, "hex": codec::hex(&f), "lost": true});
                                }
                            }
                        }
                    }
                    tick();
                }
                line.insert("follow_lost".into(), json!(follow_lost));
                line.insert("follow_altered".into(), json!(follow_altered));
                line.insert("variants".into(), json!(variants.len()));
                line.insert("bad_delivered".into(), json!(bad));
                line.insert("what".into(), json!(format!("{}-bit flips of a {}-byte frame", flips, frame.len())));
                if !first_bad.is_null() {
                    line.insert("first_bad".into(), first_bad);
                }
            }
            "chunk" | "lframe" => {
                let bytes = codec::unhex(st["hex"].as_str().unwrap_or(""));
                line.insert("n".into(), json!(bytes.len()));
                if let Some(h) = st.get("h") {
                    line.insert("h".into(), h.clone());
                }
                let _ = wr.write_all(&bytes).await;
                let mut delivered = Vec::new();
                let mut kinds = Vec::new();
                let mut bcs = Vec::new();
                let mut now_closed = false;
                if !closed {
                    loop {
                        // cancel-safe read: pending => the reader wants more bytes
                        match tokio::time::timeout(Duration::from_millis(1), probe.read()).await {
                            Err(_) => break,
                            Ok(Err(_e)) => {
                                now_closed = true;
                                break;
                            }
                            Ok(Ok(f)) => {
                                // identity: which scenario frame is this?
                                let mut id = 0;
                                for (n, p) in parsed.iter().enumerate() {
                                    if let Some(p) = p {
                                        let ft = match p.func() {
                                            0x44 | 0x43 => "data",
                                            0x49 => "link_status_request",
                                            0x0B => "link_status_response",
                                            _ => "?",
                                        };
                                        if p.src == f.source && p.payload == f.payload && ft == f.frame_type {
                                            id = n + 1;
                                            break;
                                        }
                                    }
                                }
                                delivered.push(id);
                                kinds.push(match f.frame_type {
                                    "data" => "data",
                                    "link_status_request" => "lsreq",
                                    _ => "lsresp",
                                });
                                bcs.push(match f.broadcast {
                                    Some(0xFFFF) => "BC_OPT",
                                    Some(0xFFFE) => "BC_MAN",
                                    Some(0xFFFD) => "BC_NR",
                                    _ => "",
                                });
                            }
                        }
                    }
                }
                if now_closed {
                    closed = true;
                }
                quiesce().await;
                let replies = drain_replies(&mut rd, &mut pending).await;
                line.insert("delivered".into(), json!(delivered));
                line.insert("closed".into(), json!(now_closed));
                let rnames: Vec<&str> = replies.iter().map(fn_short).collect();
                line.insert("replies".into(), json!(rnames));
                if k == "lframe" {
                    line.insert("deliver".into(), json!(kinds.first().copied().unwrap_or("none")));
                    line.insert("bc".into(), json!(bcs.first().copied().unwrap_or("")));
                    line.insert("reply".into(), json!(rnames.first().copied().unwrap_or("none")));
                    line.insert("ndeliver".into(), json!(kinds.len()));
                    line.insert("nreply".into(), json!(rnames.len()));
                }
            }
            _ => {}
        }
        if let Some(p) = take_panic() {
            line.insert("panic".into(), p);
            emit(Value::Object(line));
            emit(json!({"k":"dead","at":i}));
            return;
        }
        emit(Value::Object(line));
        tick();
    }
}

/// transport-level scenario: the real transport reader (link layer + assembler) and writer
pub async fn run_transport(sc: &Value) {
    let cfg = &sc["cfg"];
    let cap = cfg["cap"].as_u64().unwrap_or(2048) as usize;
    let local = cfg["local"].as_u64().unwrap_or(1024) as u16;
    let level = decode_level(cfg["decode"].as_str().unwrap_or("nothing"));
    emit(json!({"k":"reset","id":sc["id"],"cfg":cfg,"meta":sc.get("meta").cloned().unwrap_or(Value::Null)}));
    let _ = take_panic();
    let (mine, theirs) = tokio::io::duplex(1 << 20);
    let (_rd, mut wr) = tokio::io::split(mine);
    let mut reader = shim::TransportReadProbe::new(
        dnp3::link::LinkErrorMode::Discard, false, cap, false, false, local, level, theirs);
    // writer under test writes into its own pipe
    let (wmine, wtheirs) = tokio::io::duplex(1 << 20);
    let (mut wrd, _wwr) = tokio::io::split(wmine);
    let mut writer = shim::TransportWriteProbe::new(true, 1, level, wtheirs);
    let mut wpending: Vec<u8> = Vec::new();

    let steps = sc["steps"].as_array().cloned().unwrap_or_default();
    for (i, st) in steps.iter().enumerate() {
        set_current(format!("transport scenario {} step {}", sc["id"], i));
        let k = st["k"].as_str().unwrap_or("");
        let mut line = Map::new();
        line.insert("k".into(), json!(k));
        match k {
            "seg" => {
                let fir = st["fir"].as_bool().unwrap_or(false);
                let fin = st["fin"].as_bool().unwrap_or(false);
                let seq = st["seq"].as_u64().unwrap_or(0) as u8;
                let src = st["src"].as_u64().unwrap_or(1) as u16;
                let bc = st["bc"].as_bool().unwrap_or(false);
                let n = st["n"].as_u64().unwrap_or(1) as usize;
                let id = st["id"].as_u64().unwrap_or(0) as u8;
                for f in ["fir", "fin", "seq", "src", "bc", "n", "id"] {
                    line.insert(f.into(), st[f].clone());
                }
                let mut payload = vec![(if fin { 0x80 } else { 0 }) | (if fir { 0x40 } else { 0 }) | (seq & 0x3F)];
                payload.extend(std::iter::repeat(id).take(n));
                let dst = if bc { 0xFFFF } else { local };
                let frame = codec::build_link_frame(0xC4, dst, src, &payload);
                let _ = wr.write_all(&frame).await;
                let mut delivered = Vec::new();
                loop {
                    match tokio::time::timeout(Duration::from_millis(1), reader.next()).await {
                        Err(_) => break,
                        Ok(Err(_)) => {
                            line.insert("closed".into(), json!(true));
                            break;
                        }
                        Ok(Ok(shim::TransportItem::Fragment { id: _, source, broadcast, data })) => {
                            // run-length decode the payload into segment identities
                            let mut parts: Vec<u64> = Vec::new();
                            let mut lens: Vec<u64> = Vec::new();
                            for b in &data {
                                if parts.last() == Some(&(*b as u64)) {
                                    *lens.last_mut().unwrap() += 1;
                                } else {
                                    parts.push(*b as u64);
                                    lens.push(1);
                                }
                            }
                            delivered.push(json!({"src": source, "bc": broadcast.is_some(), "parts": parts,
                                                  "lens": lens, "len": data.len()}));
                        }
                        Ok(Ok(_)) => {}
                    }
                }
                line.insert("delivered".into(), json!(delivered));
            }
            "write" => {
                let len = st["len"].as_u64().unwrap_or(1) as usize;
                let frag: Vec<u8> = (0..len).map(|x| (x * 7 + 3) as u8).collect();
                let res = writer.write(1024, &frag).await;
                quiesce().await;
                let mut buf = vec![0u8; 1 << 16];
                loop {
                    match tokio::time::timeout(Duration::from_millis(0), wrd.read(&mut buf)).await {
                        Ok(Ok(n)) if n > 0 => wpending.extend_from_slice(&buf[..n]),
                        _ => break,
                    }
                }
                let (frames, rest, err) = codec::parse_clean_stream(&wpending);
                wpending = rest;
                let mut segs = Vec::new();
                let mut re = codec::Reassembler::new();
                let mut got: Option<Vec<u8>> = None;
                let mut bad = err.is_some() || res.is_err();
                for f in &frames {
                    if f.payload.is_empty() {
                        bad = true;
                        continue;
                    }
                    let h = f.payload[0];
                    segs.push(json!({"fir": h & 0x40 != 0, "fin": h & 0x80 != 0, "seq": (h & 0x3F) as u64,
                                     "n": f.payload.len() - 1, "dst": f.dst, "src": f.src,
                                     "fn": f.func_name()}));
                    match re.push(&f.payload) {
                        Ok(Some(x)) => got = Some(x),
                        Ok(None) => {}
                        Err(_) => bad = true,
                    }
                }
                line.insert("len".into(), json!(len));
                line.insert("segs".into(), json!(segs));
                line.insert("same".into(), json!(!bad && got.as_deref() == Some(&frag[..])));
            }
            "rt" => {
                // real writer -> bytes -> (re-chunked) -> real reader
                let len = st["len"].as_u64().unwrap_or(1) as usize;
                let frag: Vec<u8> = (0..len).map(|x| (x * 13 + 1) as u8).collect();
                let _ = writer.write(1024, &frag).await;
                quiesce().await;
                let mut bytes = Vec::new();
                let mut buf = vec![0u8; 1 << 16];
                loop {
                    match tokio::time::timeout(Duration::from_millis(0), wrd.read(&mut buf)).await {
                        Ok(Ok(n)) if n > 0 => bytes.extend_from_slice(&buf[..n]),
                        _ => break,
                    }
                }
                let sizes: Vec<usize> = st["chunks"].as_array().map(|a| a.iter().map(|x| x.as_u64().unwrap_or(1) as usize).collect()).unwrap_or_default();
                let mut pos = 0;
                let mut si = 0;
                let mut got: Option<(u16, Vec<u8>)> = None;
                let mut extra = 0;
                while pos < bytes.len() {
                    let n = if sizes.is_empty() { bytes.len() } else { sizes[si % sizes.len()].max(1) };
                    si += 1;
                    let end = (pos + n).min(bytes.len());
                    let _ = wr.write_all(&bytes[pos..end]).await;
                    pos = end;
                    loop {
                        match tokio::time::timeout(Duration::from_millis(1), reader.next()).await {
                            Ok(Ok(shim::TransportItem::Fragment { source, data, .. })) => {
                                if got.is_some() { extra += 1; }
                                got = Some((source, data));
                            }
                            _ => break,
                        }
                    }
                }
                line.insert("len".into(), json!(len));
                line.insert("nchunks".into(), json!(si));
                line.insert("ok".into(), json!(extra == 0 && got.as_ref().map(|g| g.0 == 1 && g.1 == frag).unwrap_or(false)));
                line.insert("fits".into(), json!(len <= cap));
                line.insert("delivered".into(), json!(got.is_some()));
            }
            "treset" => {
                reader.reset();
                writer.reset();
            }
            _ => {}
        }
        emit(Value::Object(line));
        tick();
    }
}
