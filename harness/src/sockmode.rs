//! sock mode: the library's real TCP client (master) and TCP server (outstation) on the loopback interface, the
//! real multi-threaded runtime and the real clock, with a byte proxy in between (delay, re-chunking, cuts).
//! Only what Mon_C02 needs is recorded: the updates (with the outstation's UpdateInfo) and everything the
//! master's ReadHandler receives.  Lines have the shape of the pair mode: {k, t, o: {items}, m: {cb, done}}.
//!
//! steps: upd{ty,ix,val,fl,tm} | cut | wait{ms} | read{id} | end
use crate::common::*;
use crate::{mst, ost};
use dnp3::app::*;
use dnp3::link::*;
use dnp3::master::*;
use dnp3::outstation::*;
use dnp3::tcp::*;
use serde_json::{json, Map, Value};
use std::sync::{Arc, Mutex};
use std::time::Duration;
use tokio::io::{AsyncReadExt, AsyncWriteExt};

struct NullListener;
impl<T> Listener<T> for NullListener {
    fn update(&mut self, _value: T) -> MaybeAsync<()> {
        MaybeAsync::ready(())
    }
}

#[derive(Clone, Copy)]
struct ProxyCfg {
    delay: u64,
    chunk: usize,
}

struct Proxy {
    addr: std::net::SocketAddr,
    tasks: Arc<Mutex<Vec<tokio::task::JoinHandle<()>>>>,
    acceptor: tokio::task::JoinHandle<()>,
}

async fn pump(mut from: tokio::net::tcp::OwnedReadHalf, mut to: tokio::net::tcp::OwnedWriteHalf, cfg: ProxyCfg) {
    let mut buf = vec![0u8; 8192];
    loop {
        let n = match from.read(&mut buf).await {
            Ok(0) | Err(_) => break,
            Ok(n) => n,
        };
        if cfg.delay > 0 {
            tokio::time::sleep(Duration::from_millis(cfg.delay)).await;
        }
        let data = &buf[..n];
        let ok = if cfg.chunk == 0 {
            to.write_all(data).await.is_ok()
        } else {
            let mut ok = true;
            for part in data.chunks(cfg.chunk) {
                if to.write_all(part).await.is_err() {
                    ok = false;
                    break;
                }
                let _ = to.flush().await;
                tokio::task::yield_now().await;
            }
            ok
        };
        if !ok {
            break;
        }
    }
    let _ = to.shutdown().await;
}

impl Proxy {
    async fn start(target: std::net::SocketAddr, cfg: ProxyCfg) -> Option<Proxy> {
        let listener = tokio::net::TcpListener::bind("127.0.0.1:0").await.ok()?;
        let addr = listener.local_addr().ok()?;
        let tasks: Arc<Mutex<Vec<tokio::task::JoinHandle<()>>>> = Arc::new(Mutex::new(Vec::new()));
        let t2 = tasks.clone();
        let acceptor = tokio::spawn(async move {
            loop {
                let (client, _) = match listener.accept().await {
                    Ok(x) => x,
                    Err(_) => return,
                };
                let server = match tokio::net::TcpStream::connect(target).await {
                    Ok(s) => s,
                    Err(_) => continue,
                };
                let _ = client.set_nodelay(true);
                let _ = server.set_nodelay(true);
                let (cr, cw) = client.into_split();
                let (sr, sw) = server.into_split();
                let a = tokio::spawn(pump(cr, sw, cfg));
                let b = tokio::spawn(pump(sr, cw, cfg));
                let mut t = t2.lock().unwrap();
                t.push(a);
                t.push(b);
            }
        });
        Some(Proxy { addr, tasks, acceptor })
    }

    /// drop the current connection(s): both directions are closed, bytes in flight are lost
    fn cut(&self) {
        for t in self.tasks.lock().unwrap().drain(..) {
            t.abort();
        }
    }
}

pub fn run_scenario_blocking(sc: &Value) {
    let rt = tokio::runtime::Builder::new_multi_thread()
        .worker_threads(4)
        .enable_all()
        .build()
        .unwrap();
    rt.block_on(run_scenario(sc));
    rt.shutdown_timeout(Duration::from_millis(200));
}

async fn run_scenario(sc: &Value) {
    let cfg: ost::OstCfg = match serde_json::from_value(sc["cfg"]["ost"].clone()) {
        Ok(c) => c,
        Err(e) => {
            emit(json!({"k":"reset","id":sc["id"],"cfg_error":format!("{e}")}));
            return;
        }
    };
    emit(json!({"k":"reset","id":sc["id"],"cfg":sc["cfg"], "meta": sc.get("meta").cloned().unwrap_or(Value::Null)}));
    let _ = take_panic();
    let clock = Clock::new();
    let orec = Recorder::new(clock);
    let mrec = Recorder::new(clock);
    let mut script = ost::AppScript::default();
    script.apply(&cfg.app);
    let script: ost::Script = Arc::new(Mutex::new(script));

    // outstation: the library's TCP server on an ephemeral loopback port
    let mut server = Server::new_tcp_server(error_mode(&cfg.error_mode), "127.0.0.1:0".parse().unwrap());
    let handle = match server.add_outstation(
        ost::make_config(&cfg),
        Box::new(ost::App { rec: orec.clone(), script: script.clone() }),
        Box::new(ost::Info { rec: orec.clone() }),
        Box::new(ost::Ctl { rec: orec.clone(), script: script.clone() }),
        Box::new(NullListener),
        AddressFilter::Any,
    ) {
        Ok(h) => h,
        Err(_) => {
            emit(json!({"k":"bad_scenario","err":"add_outstation"}));
            return;
        }
    };
    handle.transaction(|db| {
        for p in &cfg.points {
            ost::add_point(db, p);
            if p.init.is_object() {
                let mut u = p.init.clone();
                let o = u.as_object_mut().unwrap();
                o.insert("ty".into(), json!(p.ty));
                o.insert("ix".into(), json!(p.ix));
                o.insert("mode".into(), json!("suppress"));
                ost::do_update(db, &u);
            }
        }
    });
    let server_handle = match server.bind().await {
        Ok(h) => h,
        Err(e) => {
            emit(json!({"k":"bad_scenario","err":format!("bind: {e}")}));
            return;
        }
    };
    let target = server_handle.local_addr().unwrap();
    let pcfg = ProxyCfg {
        delay: sc["cfg"]["proxy"]["delay"].as_u64().unwrap_or(0),
        chunk: sc["cfg"]["proxy"]["chunk"].as_u64().unwrap_or(0) as usize,
    };
    let proxy = match Proxy::start(target, pcfg).await {
        Some(p) => p,
        None => {
            emit(json!({"k":"bad_scenario","err":"proxy"}));
            return;
        }
    };

    // master: the library's TCP client, connecting through the proxy
    let mcfg = &sc["cfg"]["mst"];
    let maddr = mcfg["maddr"].as_u64().unwrap_or(1) as u16;
    let mut mc = MasterChannelConfig::new(EndpointAddress::try_new(maddr).unwrap());
    mc.decode_level = decode_level(mcfg["decode"].as_str().unwrap_or("nothing"));
    let mut channel = spawn_master_tcp_client(
        error_mode(mcfg["error_mode"].as_str().unwrap_or("close")),
        mc,
        EndpointList::single(proxy.addr.to_string()),
        ConnectStrategy::new(Duration::from_millis(40), Duration::from_millis(150), Duration::from_millis(40)),
        Box::new(NullListener),
    );
    let mut assoc = None;
    for a in mcfg["assocs"].as_array().cloned().unwrap_or_default() {
        let addr = a["addr"].as_u64().unwrap_or(1024) as u16;
        if let Ok(h) = channel
            .add_association(
                EndpointAddress::try_new(addr).unwrap(),
                mst::assoc_config(&a),
                Box::new(mst::Rh { rec: mrec.clone(), assoc: addr }),
                Box::new(mst::Ah { clock, base: Arc::new(Mutex::new(Some(1_600_000_000_000))), rec: mrec.clone() }),
                Box::new(mst::Ai { rec: mrec.clone(), assoc: addr }),
            )
            .await
        {
            assoc = Some(h);
        }
    }
    let _ = channel.enable().await;
    let mut assoc = match assoc {
        Some(a) => a,
        None => {
            emit(json!({"k":"bad_scenario","err":"association"}));
            return;
        }
    };

    let steps = sc["steps"].as_array().cloned().unwrap_or_default();
    for (i, st) in steps.iter().enumerate() {
        set_current(format!("sock scenario {} step {} {}", sc["id"], i, st));
        let k = st["k"].as_str().unwrap_or("").to_string();
        let mut line = Map::new();
        line.insert("k".into(), json!(k));
        line.insert("t".into(), json!(clock.now()));
        if let Some(tag) = st.get("tag") {
            line.insert("tag".into(), tag.clone());
        }
        let mut lo = Map::new();
        let mut lm = Map::new();
        match k.as_str() {
            "upd" => {
                let mut once = Some(st.clone());
                let info = handle.transaction(|db| once.take().map(|u| ost::do_update(db, &u)));
                let mut o = st.as_object().cloned().unwrap_or_default();
                o.remove("k");
                o.remove("tag");
                if let Some(i) = info {
                    o.insert("info".into(), ost::info_json(i));
                }
                lo.insert("items".into(), json!([Value::Object(o)]));
            }
            "cut" => proxy.cut(),
            "wait" => {
                tokio::time::sleep(Duration::from_millis(st["ms"].as_u64().unwrap_or(10))).await;
            }
            "read" => {
                let req = ReadRequest::class_scan(Classes::all());
                let res = tokio::time::timeout(Duration::from_millis(st["timeout"].as_u64().unwrap_or(4000)), assoc.read(req)).await;
                let out = match res {
                    Err(_) => "timeout".to_string(),
                    Ok(Ok(())) => "ok".to_string(),
                    Ok(Err(e)) => mst::err_name(&format!("{e:?}")),
                };
                lm.insert("done".into(), json!([[clock.now(), st["id"].as_i64().unwrap_or(0), out]]));
            }
            _ => {}
        }
        tick();
        let ocb: Vec<Value> = orec.drain().into_iter().map(|(t, mut v)| { v.as_array_mut().unwrap().insert(0, json!(t)); v }).collect();
        let mcb: Vec<Value> = mrec.drain().into_iter().map(|(t, mut v)| { v.as_array_mut().unwrap().insert(0, json!(t)); v }).collect();
        lo.insert("cb".into(), Value::Array(ocb));
        lm.insert("cb".into(), Value::Array(mcb));
        if let Some(p) = take_panic() {
            lo.insert("panic".into(), p);
        }
        line.insert("o".into(), Value::Object(lo));
        line.insert("m".into(), Value::Object(lm));
        emit(Value::Object(line));
    }
    proxy.cut();
    proxy.acceptor.abort();
    drop(assoc);
    drop(channel);
    drop(handle);
    drop(server_handle);
}
