//! what the master's measurement extraction hands to a ReadHandler for a response fragment
//! (shim::extract_into = master::extract::extract_measurements), polled to completion in place
use crate::codec;
use dnp3::app::measurement::*;
use dnp3::master::*;
use dnp3::verif_shim as shim;
use serde_json::{json, Value};
use std::future::Future;

#[derive(Default)]
struct Rec {
    items: Vec<Value>,
}

fn tm_json(t: Option<Time>) -> (Value, &'static str) {
    match t {
        None => (json!(""), "i"),
        Some(Time::Synchronized(x)) => (codec::jint(x.raw_value() as i128), "s"),
        Some(Time::Unsynchronized(x)) => (codec::jint(x.raw_value() as i128), "u"),
    }
}

impl Rec {
    fn item(&mut self, ty: &str, info: HeaderInfo, ix: u16, val: Value, fl: u8, tm: Option<Time>) {
        let (g, v) = shim::group_var(info.variation);
        let (t, tq) = tm_json(tm);
        self.items.push(json!({"ty": ty, "g": g, "v": v, "ix": ix, "val": val, "fl": fl, "tm": t, "tq": tq, "ev": info.is_event}));
    }
}

impl ReadHandler for Rec {
    fn handle_binary_input(&mut self, info: HeaderInfo, iter: &mut dyn Iterator<Item = (BinaryInput, u16)>) {
        for (m, ix) in iter {
            self.item("bi", info, ix, json!(m.value as i64), m.flags.value, m.time);
        }
    }
    fn handle_double_bit_binary_input(&mut self, info: HeaderInfo, iter: &mut dyn Iterator<Item = (DoubleBitBinaryInput, u16)>) {
        for (m, ix) in iter {
            let v = match m.value {
                DoubleBit::Intermediate => 0,
                DoubleBit::DeterminedOff => 1,
                DoubleBit::DeterminedOn => 2,
                DoubleBit::Indeterminate => 3,
            };
            self.item("dbi", info, ix, json!(v), m.flags.value, m.time);
        }
    }
    fn handle_binary_output_status(&mut self, info: HeaderInfo, iter: &mut dyn Iterator<Item = (BinaryOutputStatus, u16)>) {
        for (m, ix) in iter {
            self.item("bos", info, ix, json!(m.value as i64), m.flags.value, m.time);
        }
    }
    fn handle_counter(&mut self, info: HeaderInfo, iter: &mut dyn Iterator<Item = (Counter, u16)>) {
        for (m, ix) in iter {
            self.item("ctr", info, ix, codec::jint(m.value as i128), m.flags.value, m.time);
        }
    }
    fn handle_frozen_counter(&mut self, info: HeaderInfo, iter: &mut dyn Iterator<Item = (FrozenCounter, u16)>) {
        for (m, ix) in iter {
            self.item("fctr", info, ix, codec::jint(m.value as i128), m.flags.value, m.time);
        }
    }
    fn handle_analog_input(&mut self, info: HeaderInfo, iter: &mut dyn Iterator<Item = (AnalogInput, u16)>) {
        for (m, ix) in iter {
            self.item("ai", info, ix, codec::jfloat(m.value), m.flags.value, m.time);
        }
    }
    fn handle_analog_output_status(&mut self, info: HeaderInfo, iter: &mut dyn Iterator<Item = (AnalogOutputStatus, u16)>) {
        for (m, ix) in iter {
            self.item("aos", info, ix, codec::jfloat(m.value), m.flags.value, m.time);
        }
    }
    fn handle_octet_string<'a>(&mut self, info: HeaderInfo, iter: &'a mut dyn Iterator<Item = (&'a [u8], u16)>) {
        for (d, ix) in iter {
            self.item("os", info, ix, codec::os_token(d), 0, None);
        }
    }
}

/// the items the master's extraction delivers for `frag` (a response), or an error token
pub fn items(frag: &[u8]) -> Value {
    let f = frag.to_vec();
    let res = std::panic::catch_unwind(move || {
        let mut rec = Rec::default();
        let ok = {
            let fut = shim::extract_into(&f, &mut rec);
            let mut fut = Box::pin(fut);
            let waker = std::task::Waker::noop();
            let mut cx = std::task::Context::from_waker(waker);
            match fut.as_mut().poll(&mut cx) {
                std::task::Poll::Ready(b) => Some(b),
                std::task::Poll::Pending => None,
            }
        };
        (ok, rec.items)
    });
    match res {
        Ok((Some(true), items)) => Value::Array(items),
        Ok((Some(false), _)) => json!("unparsed"),
        Ok((None, _)) => json!("pending"),
        Err(_) => {
            let _ = crate::common::take_panic();
            json!("panic")
        }
    }
}
