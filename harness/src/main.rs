//! verif-harness: runs scenarios against the production dnp3 stack and records traces.
//! usage: verif-harness <mode> <scenarios.ndjson> <trace.ndjson>
//! modes: ost (outstation), mst (master), pair, link, transport, codec
//! exit codes: 0 ok, 2 usage / IO error, 3 watchdog (hang line appended to the trace)

#![allow(dead_code)]
mod appmode;
mod codec;
mod extract;
mod common;
mod linkmode;
mod mst;
mod ost;
mod pair;
mod sockmode;

use std::io::BufRead;
use std::sync::atomic::{AtomicBool, Ordering};
use std::sync::Arc;

fn run_paused<F: std::future::Future<Output = ()>>(f: F) {
    let rt = tokio::runtime::Builder::new_current_thread()
        .enable_time()
        .start_paused(true)
        .build()
        .unwrap();
    rt.block_on(f);
}

fn main() {
    let args: Vec<String> = std::env::args().collect();
    if args.len() < 4 {
        eprintln!("usage: verif-harness <mode> <scenarios.ndjson> <trace.ndjson>");
        std::process::exit(2);
    }
    let mode = args[1].clone();
    let input = match std::fs::File::open(&args[2]) {
        Ok(f) => std::io::BufReader::new(f),
        Err(e) => {
            eprintln!("cannot open {}: {e}", args[2]);
            std::process::exit(2);
        }
    };
    let out = match std::fs::File::create(&args[3]) {
        Ok(f) => f,
        Err(e) => {
            eprintln!("cannot create {}: {e}", args[3]);
            std::process::exit(2);
        }
    };
    *common::OUT.lock().unwrap() = Some(std::io::BufWriter::new(out));
    common::install_panic_hook();
    // evaluate every log statement the library emits (decode levels), discard the text
    let _ = tracing_subscriber::fmt()
        .with_writer(std::io::sink)
        .with_max_level(tracing::Level::INFO)
        .try_init();
    let watchdog_s: u64 = std::env::var("VERIF_WATCHDOG_S")
        .ok()
        .and_then(|x| x.parse().ok())
        .unwrap_or(20);

    let done = Arc::new(AtomicBool::new(false));
    let done2 = done.clone();
    let worker = std::thread::Builder::new()
        .stack_size(64 << 20)
        .spawn(move || {
            for line in input.lines() {
                let line = match line {
                    Ok(l) => l,
                    Err(_) => break,
                };
                if line.trim().is_empty() {
                    continue;
                }
                let sc: serde_json::Value = match serde_json::from_str(&line) {
                    Ok(v) => v,
                    Err(e) => {
                        common::emit(serde_json::json!({"k":"bad_scenario","err":format!("{e}")}));
                        continue;
                    }
                };
                let m = mode.clone();
                let res = std::panic::catch_unwind(std::panic::AssertUnwindSafe(|| match m.as_str() {
                    "ost" => run_paused(ost::run_scenario(&sc)),
                    "link" => run_paused(linkmode::run_link(&sc)),
                    "mst" => run_paused(mst::run_scenario(&sc)),
                    "transport" => run_paused(linkmode::run_transport(&sc)),
                    "codec" => run_paused(appmode::run_case(&sc)),
                    "pair" => run_paused(pair::run_scenario(&sc)),
                    "sock" => sockmode::run_scenario_blocking(&sc),
                    _ => {
                        eprintln!("unknown mode {m}");
                        std::process::exit(2);
                    }
                }));
                if res.is_err() {
                    // a panic on the driver's own task (layer probes run there): record it as data
                    let p = common::take_panic().unwrap_or(serde_json::json!({"msg":"?","loc":"?"}));
                    common::emit(serde_json::json!({"k":"crash","panic":p}));
                }
                common::tick();
            }
            common::flush_out();
            done2.store(true, Ordering::SeqCst);
        })
        .unwrap();

    let mut last = common::PROGRESS.load(Ordering::SeqCst);
    let mut idle_ms = 0u64;
    loop {
        std::thread::sleep(std::time::Duration::from_millis(50));
        if done.load(Ordering::SeqCst) {
            let _ = worker.join();
            std::process::exit(0);
        }
        if worker.is_finished() {
            // the worker itself panicked (harness bug)
            common::flush_out();
            eprintln!("harness worker died: {:?}", common::take_panic());
            std::process::exit(2);
        }
        let now = common::PROGRESS.load(Ordering::SeqCst);
        if now != last {
            last = now;
            idle_ms = 0;
        } else {
            idle_ms += 50;
            if idle_ms >= watchdog_s * 1000 {
                let cur = common::CURRENT.lock().map(|x| x.clone()).unwrap_or_default();
                // the worker may hold OUT while spinning only inside emit(), which is short
                common::emit(serde_json::json!({"k":"hang","current":cur}));
                common::flush_out();
                std::process::exit(3);
            }
        }
    }
}
