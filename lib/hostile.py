"""Bytes for the hostile stimulus classes enumerated by Hostile.tla (seeded draws)."""
import random

import linkconc

OADDR, MADDR = 1024, 1


def frame_to(role, payload, ctrl=None, dst=None, src=None):
    if role == "outstation":
        return linkconc.build_frame(0xC4 if ctrl is None else ctrl, OADDR if dst is None else dst, MADDR if src is None else src, payload)
    return linkconc.build_frame(0x44 if ctrl is None else ctrl, MADDR if dst is None else dst, OADDR if src is None else src, payload)


def segments(fragment, seq0=0):
    out = []
    chunks = [fragment[i:i + 249] for i in range(0, max(len(fragment), 1), 249)] or [b""]
    for i, c in enumerate(chunks):
        hdr = (0x40 if i == 0 else 0) | (0x80 if i == len(chunks) - 1 else 0) | ((seq0 + i) & 0x3F)
        out.append(bytes([hdr]) + c)
    return out


def wire(role, fragment, seq0=0):
    return b"".join(frame_to(role, s) for s in segments(fragment, seq0))


def app_ctrl(ctl, seq):
    m = {"firfin": 0xC0, "fir": 0x80, "fin": 0x40, "none": 0x00, "con": 0xE0, "uns": 0xD0}
    return m[ctl] | (seq & 0x0F)


def app_header(role, fc, ctl, seq, rnd):
    h = bytes([app_ctrl(ctl, seq), fc])
    if role == "master" and fc in (129, 130, 131):
        h += bytes([rnd.randrange(256) if rnd.random() < 0.3 else 0, rnd.randrange(64) if rnd.random() < 0.2 else 0])
    return h


def case_bytes(c, n, rnd):
    """object header + data of one AppCodec case (same construction as harness/src/appmode.rs)"""
    out = bytearray([c["g"], c["v"], c["q"]])
    q, a, b = c["q"], c["a"], c["b"]
    if q == 0:
        out += bytes([a & 0xFF, b & 0xFF])
    elif q == 1:
        out += (a & 0xFFFF).to_bytes(2, "little") + (b & 0xFFFF).to_bytes(2, "little")
    elif q in (7, 0x17):
        out.append(a & 0xFF)
    elif q in (8, 0x28):
        out += (a & 0xFFFF).to_bytes(2, "little")
    elif q != 6:
        out += bytes([a & 0xFF, b & 0xFF])
    if n < 0:
        del out[len(out) + n:]
    else:
        out += bytes(rnd.randrange(256) for _ in range(min(n, 2040)))
    return bytes(out)


def crob_headers(count):
    obj = bytes([0x03, 0x01]) + (100).to_bytes(4, "little") + (100).to_bytes(4, "little") + b"\x00"
    return bytes([12, 1, 0x17, count]) + b"".join(bytes([i]) + obj for i in range(count))


VALID_REQ = {1: bytes([60, 1, 6]), 2: bytes([80, 1, 0, 7, 7, 0]), 3: crob_headers(1), 4: crob_headers(1), 5: crob_headers(2),
             20: bytes([60, 2, 6, 60, 3, 6, 60, 4, 6]), 21: bytes([60, 2, 6]), 13: b"", 23: b""}


def stimulus(role, s, cases, rnd):
    """bytes of one stimulus record of Hostile.tla"""
    lay, kind, n, fc, ctl = s["lay"], s["kind"], s["n"], s["fc"], s["ctl"]
    rb = lambda k: bytes(rnd.randrange(256) for _ in range(k))
    seq = rnd.randrange(16)
    if lay == "link":
        good = frame_to(role, bytes([0xC0 | rnd.randrange(64)]) + rb(min(n, 200)))
        if kind == "noise":
            return rb(n)
        if kind == "sync_noise":
            return b"\x05\x64" + rb(n)
        if kind in ("bad_hdr_crc", "bad_body_crc"):
            f = bytearray(good)
            i = rnd.randrange(2, 10) if kind == "bad_hdr_crc" else rnd.randrange(10, len(f))
            f[i] ^= 1 << rnd.randrange(8)
            return bytes(f)
        if kind in ("len_short", "len_long"):
            f = bytearray(good)
            f[2] = max(5, f[2] - 3) if kind == "len_short" else min(255, f[2] + 7)
            c = linkconc.crc16(bytes(f[:8]))
            f[8], f[9] = c & 0xFF, c >> 8
            return bytes(f)
        if kind == "trunc_frame":
            return good[:max(1, min(n, len(good) - 1))]
        if kind == "wrong_dir":
            return frame_to(role, rb(3), ctrl=0x44 if role == "outstation" else 0xC4)
        if kind == "unknown_func":
            return frame_to(role, b"", ctrl=(0xC0 if role == "outstation" else 0x40) | rnd.choice([5, 6, 7, 8, 10, 12, 13, 14]))
        if kind == "other_dest":
            return frame_to(role, bytes([0xC0]) + rb(5), dst=4242)
        return frame_to(role, b"")                      # user data function without any payload
    if lay == "tr":
        if kind == "random_payload":
            return frame_to(role, rb(min(n, 250)))
        if kind == "no_fir":
            return frame_to(role, bytes([0x80 | rnd.randrange(64)]) + rb(min(n, 249)))
        if kind == "never_fin":
            return b"".join(frame_to(role, bytes([(0x40 if i == 0 else 0) | ((seq + i) & 0x3F)]) + rb(249)) for i in range(10))
        if kind == "empty_segment":
            return frame_to(role, bytes([0xC0 | seq]))
        if kind == "seq_jump":
            return frame_to(role, bytes([0x40 | seq]) + rb(20)) + frame_to(role, bytes([0x80 | ((seq + 5) & 0x3F)]) + rb(20))
        return frame_to(role, bytes([0x40 | seq]) + rb(20)) + frame_to(role, bytes([0x40 | ((seq + 1) & 0x3F)]) + rb(20))
    hdr = app_header(role, fc, ctl, seq, rnd)
    fnc = "resp" if role == "master" else ("read" if fc == 1 else "write")
    if kind == "one_byte":
        frag = hdr[:1]
    elif kind == "header_only":
        frag = hdr
    elif kind == "random_objects":
        frag = hdr + rb(n)
    elif kind == "case":
        pool = cases[fnc]
        c = pool[rnd.randrange(len(pool))]
        frag = hdr + case_bytes(c["c"], c["n"], rnd)
        if rnd.random() < 0.3:
            c2 = pool[rnd.randrange(len(pool))]
            frag += case_bytes(c2["c"], c2["n"], rnd)
    elif kind == "max_size":
        if role == "outstation":
            frag = hdr + crob_headers(rnd.choice([23, 100, 135]))[:2046 if n > 1 else 2048]
        else:
            k = rnd.choice([200, 255])
            frag = hdr + b"".join(bytes([1, 2, 0, 0, k - 1]) + rb(k) for _ in range(7))
        frag = frag[:2048]
    elif kind == "end_of_range":
        frag = hdr + rnd.choice([
            bytes([110, 1, 1, 0xFF, 0xFF, 0xFF, 0xFF, 0x41]), bytes([1, 2, 1, 0xFE, 0xFF, 0xFF, 0xFF, 1, 1]),
            bytes([30, 1, 1, 0xFF, 0xFF, 0xFF, 0xFF]) + rb(5), bytes([1, 1, 1, 0xF0, 0xFF, 0xFF, 0xFF, 0xAA, 0xAA]),
            bytes([3, 1, 1, 0xFD, 0xFF, 0xFF, 0xFF, 0x1B]), bytes([12, 1, 0x28, 1, 0, 0xFF, 0xFF]) + crob_headers(1)[5:],
            bytes([1, 2, 0, 0xFF, 0xFF, 1]), bytes([60, 2, 8, 0xFF, 0xFF]), bytes([2, 0, 7, 0xFF])])
    elif kind == "huge_count":
        frag = hdr + rnd.choice([bytes([2, 1, 0x28, 0xFF, 0xFF]), bytes([12, 1, 0x17, 0xFF]), bytes([30, 1, 1, 0, 0, 0xFF, 0xFF]),
                                 bytes([110, 255, 1, 0, 0, 0xFF, 0xFF]), bytes([50, 1, 8, 0xFF, 0xFF]), bytes([70, 5, 0x5B, 1, 0xFF, 0xFF])]) + rb(n)
    else:
        valid = VALID_REQ.get(fc, bytes([60, 1, 6])) if role == "outstation" else bytes([1, 2, 0, 0, 1, 1, 0x81, 30, 1, 0, 5, 5, 1, 7, 0, 0, 0])
        frag = hdr + (valid[:max(0, len(valid) - n)] if kind == "trunc_valid" else valid + rb(n))
    return wire(role, frag, rnd.randrange(64))


def chunks_of(n, mode, rnd):
    if mode == "whole" or n < 2:
        return None
    if mode == "bytes":
        return [1] * min(n - 1, 48)
    k = 1 if mode == "two" else 2
    cuts = sorted(rnd.randrange(1, n) for _ in range(k))
    out, prev = [], 0
    for c in cuts:
        if c > prev:
            out.append(c - prev)
            prev = c
    return out
