"""Concretisation of abstract link-level scenarios (abstract bytes of Link.tla / headers of LinkAddr.tla)
into real bytes, with its own CRC so that accidental frames in noise can be excluded."""
import random


def crc16(data):
    crc = 0
    for b in data:
        crc ^= b
        for _ in range(8):
            crc = (crc >> 1) ^ 0xA6BC if crc & 1 else crc >> 1
    return (~crc) & 0xFFFF


def build_frame(ctrl, dst, src, payload=b""):
    out = bytearray([0x05, 0x64, len(payload) + 5, ctrl, dst & 0xFF, dst >> 8, src & 0xFF, src >> 8])
    c = crc16(out)
    out += bytes([c & 0xFF, c >> 8])
    for i in range(0, len(payload), 16):
        blk = payload[i:i + 16]
        c = crc16(blk)
        out += blk + bytes([c & 0xFF, c >> 8])
    return bytes(out)


def frame_at(data, pos):
    """(total_len) if a valid frame starts at pos else None"""
    if len(data) - pos < 10 or data[pos] != 0x05 or data[pos + 1] != 0x64:
        return None
    ln = data[pos + 2]
    if ln < 5:
        return None
    if crc16(data[pos:pos + 8]) != data[pos + 8] | (data[pos + 9] << 8):
        return None
    n = ln - 5
    total = 10 + n + 2 * ((n + 15) // 16)
    if len(data) - pos < total:
        return None
    p = pos + 10
    rem = n
    while rem > 0:
        k = min(16, rem)
        if crc16(data[p:p + k]) != data[p + k] | (data[p + k + 1] << 8):
            return None
        p += k + 2
        rem -= k
    return total


def ref_scan(data):
    out, pos = [], 0
    while pos < len(data):
        t = frame_at(data, pos)
        if t:
            out.append((pos, t))
            pos += t
        else:
            pos += 1
    return out


def draw_frame(kind, k, rnd, local=1024):
    """a frame of the abstract kind whose bytes at offsets >= 3 avoid 0x05 / 0x64 (except LEN = 5 of kind H);
    frame k is identified by its source address 100 + k"""
    for _ in range(1000):
        src = 100 + k
        if kind == "H":
            f = build_frame(0xC9, local, src)            # request link status from a master
        else:
            f = build_frame(0xC4, local, src, bytes([rnd.choice([x for x in range(256) if x not in (5, 0x64)])]))
        body = f[3:] if kind == "H" else f[2:]
        if 0x05 not in body and 0x64 not in body:
            return f
        local_try = None
    raise RuntimeError("cannot draw frame")


def concretize_stream(stream, kinds, rnd):
    """stream: list of abstract bytes {c,f,o,bad}; returns (bytes, frames_hex) or None if an accidental
    frame appears"""
    frames = {}
    for k, kind in enumerate(kinds, 1):
        frames[k] = draw_frame(kind, k, rnd)
    out = bytearray()
    for b in stream:
        if b["f"] == 0:
            v = 0x05 if b["c"] == 1 else 0x64 if b["c"] == 2 else rnd.choice([x for x in range(256) if x not in (5, 0x64)])
        else:
            v = frames[b["f"]][b["o"] - 1]
        if b["bad"]:
            for _ in range(50):
                w = v ^ (1 << rnd.randrange(8))
                if w not in (0x05, 0x64):
                    v = w
                    break
        out.append(v)
    return bytes(out), [frames[k].hex() for k in sorted(frames)]


def abstract_ideal(stream, kinds):
    """leftmost-first scan on the abstract stream (same definition as Link.tla Ideal)"""
    flen = {k: (10 if kind == "H" else 13) for k, kind in enumerate(kinds, 1)}
    out, i = [], 0
    n = len(stream)
    while i < n:
        b = stream[i]
        k = b["f"]
        ok = k > 0 and i + flen[k] <= n and all(
            stream[i + d]["f"] == k and stream[i + d]["o"] == d + 1 and not stream[i + d]["bad"] for d in range(flen[k]))
        if ok:
            out.append((i, k))
            i += flen[k]
        else:
            i += 1
    return out


def link_scenario(sid, abstract, discard, datagram, rnd, is_master=False):
    stream, chunks = abstract["stream"], abstract["chunks"]
    kinds = ["H", "B"]
    for _ in range(100):
        data, frames = concretize_stream(stream, kinds, rnd)
        want = [(p, 10 if kinds[k - 1] == "H" else 13) for p, k in abstract_ideal(stream, kinds)]
        if ref_scan(data) == want:
            break
    else:
        return None
    steps, pos = [], 0
    for n in chunks:
        steps.append({"k": "chunk", "hex": data[pos:pos + n].hex()})
        pos += n
    if pos < len(data):
        steps.append({"k": "chunk", "hex": data[pos:].hex()})
    return {"id": sid, "cfg": {"discard": discard, "datagram": datagram, "is_master": is_master, "self_addr": False,
                               "local": 1024},
            "frames": frames, "steps": steps,
            "meta": {"kinds": kinds, "stream": stream, "chunks": chunks}}


# ---------------------------------------------------------------- headers (LinkAddr.tla)

FUNC_CODE = {"RESET": 0x40, "TEST": 0x42, "CONF_DATA": 0x43, "UNCONF_DATA": 0x44, "REQ_STATUS": 0x49,
             "ACK": 0x00, "NACK": 0x01, "STATUS": 0x0B, "NOTSUP": 0x0F, "OTHER": 0x41}
DST_ADDR = {"OWN": None, "OTHER": 77, "SELF": 0xFFFC, "BC_OPT": 0xFFFF, "BC_MAN": 0xFFFE, "BC_NR": 0xFFFD, "RSVD": 0xFFF5}


def header_frame(h, local, k):
    ctrl = FUNC_CODE[h["func"]] | (0x80 if h["dir"] else 0) | (0x20 if h["fcb"] else 0) | (0x10 if h["fcv"] else 0)
    dst = local if h["dst"] == "OWN" else DST_ADDR[h["dst"]]
    src = (100 + k) if h["src"] == "EP" else 0xFFF3
    payload = bytes([0xC0 | (k & 0x3F), 0xC0, 0x17]) if h["func"] in ("CONF_DATA", "UNCONF_DATA") else b""
    return build_frame(ctrl, dst, src, payload)


def addr_scenario(sid, hs, is_master, self_addr):
    local = 1 if is_master else 1024
    frames, steps = [], []
    for k, h in enumerate(hs, 1):
        if h.get("k") == "lreset":
            steps.append({"k": "lreset"})
            continue
        f = header_frame(h, local, k)
        frames.append(f.hex())
        steps.append({"k": "lframe", "hex": f.hex(), "h": h})
    return {"id": sid, "cfg": {"discard": True, "datagram": False, "is_master": is_master, "self_addr": self_addr,
                               "local": local},
            "frames": frames, "steps": steps, "meta": {"addr": True}}
