"""C06 (frame reader) and the link half of C07 (addressing): design check on Link.tla / LinkAddr.tla,
behaviours replayed on the real link::layer::Layer over a pipe, recorded traces judged by the
monitors and validated against the specifications."""
import json
import os
import random
import time

import linkconc
import vlib
from vlib import ToolError, log

MODES = [("discard_stream", True, False), ("close_stream", False, False), ("discard_dgram", True, True)]


def link_consts(discard, datagram, devl, extra=None):
    c = {"Discard": discard, "Datagram": datagram, "DEVL": ("<-", devl)}
    if extra:
        c.update(extra)
    return c


def known_open(known, dev):
    return any(f["status"] == "open" and f.get("deviation") == dev for f in known["findings"])


def run_c06(tier, replay=None):
    t0 = time.time()
    prop = "C06"
    known = vlib.load_known()
    d10_open = known_open(known, "DiscardRollbackPerCall")
    wd = vlib.workdir("chk_C06")
    vlib.build_harness()
    rnd = random.Random(vlib.seed())
    pieces = 4 if tier == "quick" else 5

    # 1. design check: intended reader, all splits of all streams
    design = {"states": 0, "transitions": 0, "runs": []}
    for name, discard, datagram in MODES:
        cfg = os.path.join(wd, "mc_%s.cfg" % name)
        invs = ["Sound", "Complete"] if not datagram else ["DatagramExact"]
        vlib.write_cfg(cfg, "Spec", link_consts(discard, datagram, "DEVL_none", {"MaxPieces": pieces, "Corrupt": True}),
                       invs, view="View")
        r = vlib.model_check("MC_Link.tla", cfg, workers=8, timeout=3000)
        design["runs"].append({"mode": name, "distinct": r["distinct"], "generated": r["generated"], "wall_s": r["wall_s"]})
        design["states"] += r["distinct"]
        design["transitions"] += r["generated"]
        if r["violated"]:
            raise ToolError("intended link reader violates %s in mode %s" % (r["violated"], name))

    # 2. behaviours: simulation of the as-built reader in each mode (stream + split)
    abstract = []
    num = 400 if tier == "quick" else 6000
    for mi, (name, discard, datagram) in enumerate(MODES):
        cfg = os.path.join(wd, "sim_%s.cfg" % name)
        devl = "DEVL_d10" if (d10_open and discard and not datagram) else "DEVL_none"
        vlib.write_cfg(cfg, "Spec", link_consts(discard, datagram, devl, {"MaxPieces": pieces + 1, "Corrupt": True}),
                       ["Export"])
        hists = vlib.simulate("MC_Link.tla", cfg, 100, 60, vlib.seed() * 100 + mi)
        if len(hists) > num:
            hists = random.Random(vlib.seed() + mi).sample(hists, num)
        for i, h in enumerate(hists):
            abstract.append({"id": "sim_%s_%d" % (name, i), "mode": name, "discard": discard, "datagram": datagram, "abs": h})
    # long streams (several times the reader's buffer), composed by the driver from the token alphabet of Link.tla and
    # split into equal reads of many sizes: the reader's buffer fills up and is compacted with a frame in flight
    long_ids = set()
    for a in long_streams(tier, rnd):
        abstract.append(a)
        long_ids.add(a["id"])
    # committed witnesses
    with open(vlib.ROOT + "/corpus/link_abstract.json") as f:
        for w in json.load(f):
            abstract.append(w)
    if replay:
        with open(replay) as f:
            abstract = [json.load(f)["abstract"]]
    scen = []
    by_id = {}
    for a in abstract:
        s = linkconc.link_scenario(a["id"], a["abs"], a["discard"], a["datagram"], rnd)
        if s is not None and (a["id"] in long_ids or a.get("small_buffer")):
            s["cfg"]["max_fragment"] = 249        # read buffer of one maximum frame (292 bytes)
        if s is not None:
            scen.append(s)
            by_id[a["id"]] = a
    # bulk bit-error sweeps (executed inside the harness, one summary line each)
    sweeps = sweep_scenarios(tier, rnd)
    log(prop, len(scen), "scenarios +", len(sweeps), "sweeps")

    raw, hangs = vlib.run_harness("link", scen + sweeps, "chk_C06")
    normp = os.path.join(wd, "trace.norm.ndjson")
    import norm
    nlines = norm.normalize_link_file(raw, normp)

    # 3. monitor
    mcfg = os.path.join(wd, "tm.cfg")
    vlib.write_cfg(mcfg, "TSpec", link_consts(True, False, "DEVL_none"), ["Done"])
    verdict = vlib.trace_run("TM_C06.tla", mcfg, normp, os.path.join(wd, "mon.json"))
    viols = [v for v in verdict["viol"] if v["prop"] == prop]

    # 4. conformance per mode
    conf = {"ok": 0, "div": [], "steps": 0}
    for name, discard, datagram in MODES:
        cfgp = os.path.join(wd, "tr_%s.cfg" % name)
        devl = "DEVL_d10" if (d10_open and discard and not datagram) else "DEVL_none"
        vlib.write_cfg(cfgp, "TSpec", link_consts(discard, datagram, devl), ["Done"])
        r = vlib.trace_run("Trace_Link.tla", cfgp, normp, os.path.join(wd, "conf.json"))["res"]
        conf["ok"] += r["ok"]
        conf["steps"] += r["steps"]
        conf["div"] += r["div"]

    # 5. classification: a lost-frame in discard/stream mode on a scenario that conforms to the as-built
    # reader (deviation D10 modelled) is the known finding; anything else is a violation
    div_sc = {d["sc"] for d in conf["div"]}
    f10 = next((f for f in known["findings"] if f.get("deviation") == "DiscardRollbackPerCall"), None)
    unexplained, explained = [], []
    for v in viols:
        a = by_id.get(v["sc"])
        if (f10 and f10["status"] == "open" and v["reason"] in f10["reasons"].get(prop, []) and a
                and a["discard"] and not a["datagram"] and v["sc"] not in div_sc):
            explained.append(v)
        else:
            unexplained.append(v)
    out_lines = []
    if explained:
        out_lines.append("KNOWN-FINDING: property=%s %s %s" % (prop, f10["id"], f10["what"]))
    rc = 0
    if unexplained:
        rc = 1
        rp_dir = os.path.join(vlib.ROOT, "replays")
        os.makedirs(rp_dir, exist_ok=True)
        first = unexplained[0]
        rp = os.path.join(rp_dir, "%s_%s.json" % (prop, vlib.sha([first["sc"], first["reason"]])))
        with open(rp, "w") as f:
            json.dump({"property": prop, "violation": first, "abstract": by_id.get(first["sc"]),
                       "all_unexplained": unexplained[:50]}, f, indent=1)
        out_lines.append("VIOLATION property=%s replay=%s" % (prop, rp))
        for v in unexplained[:10]:
            log("unexplained", v)
    sweep_total = 0
    with open(normp) as f:
        for line in f:
            if line.startswith('{"k":"sweep"'):
                sweep_total += json.loads(line)["variants"]
    cov = {"states": design["states"], "transitions": design["transitions"],
           "traces_validated_against_impl": conf["ok"],
           "samples": [{"id": a["id"], "mode": a["mode"], "chunks": a["abs"]["chunks"],
                        "stream": [[b["c"], b["f"], b["o"], int(b["bad"])] for b in a["abs"]["stream"]][:40]}
                       for a in abstract[:3]],
           "evaluations": len(scen) + sweep_total,
           "distinct_nontrivial": len({vlib.sha(a["abs"]) for a in abstract}),
           "rule": "scenarios = (abstract byte stream, split into reads) exported by TLC from MC_Link in the three reader modes, "
                   "concretised with fresh random header fields / payload / noise bytes; plus bit-error sweeps executed in bulk; "
                   "distinct = distinct (stream, split)",
           "design_runs": design["runs"], "bit_error_variants": sweep_total,
           "conformance": {"scenarios_conforming": conf["ok"], "steps_matched": conf["steps"], "divergences": conf["div"][:20]},
           "monitor_violations": len(viols), "explained_by_known_findings": len(explained), "unexplained": unexplained[:20],
           "hangs": hangs, "exhaustive": False}
    vlib.write_evidence(prop, tier, "model_checking", cov,
                        ["frames of two kinds (header-only, one short block) and noise of three byte classes in the design check; "
                         "payload contents, lengths 0..250 and header fields are sampled / swept by the harness",
                         "no accidental CRC collision in generated noise (the concretiser re-draws when its own CRC finds a frame)"],
                        time.time() - t0, len(unexplained))
    for ln in out_lines:
        print(ln)
    return rc


def long_streams(tier, rnd):
    out = []
    sizes = [3, 7, 11, 17, 23, 29, 37, 43, 82, 97, 143, 150] if tier == "quick" else list(range(1, 160, 3))
    reps = 3 if tier == "quick" else 6
    for name, discard, datagram in MODES:
        if datagram:
            continue
        for c in sizes:
            for r in range(reps):
                stream = []
                for _ in range(45):
                    k = rnd.choice([1, 2])
                    n = 10 if k == 1 else 13
                    for o in range(1, n + 1):
                        cls = 1 if (o == 1 or (o == 3 and k == 1)) else 2 if o == 2 else 0
                        stream.append({"c": cls, "f": k, "o": o, "bad": False})
                total = len(stream)
                out.append({"id": "long_%s_%d_%d" % (name, c, r), "mode": name, "discard": discard, "datagram": datagram,
                            "small_buffer": True, "abs": {"stream": stream, "chunks": [c] * (total // c)}})
    return out


def sweep_scenarios(tier, rnd):
    """harness-side bulk lines: every single-bit flip of frames of several payload lengths (+ double / triple
    flips of the short ones): none may be delivered"""
    out = []
    lens = [0, 1, 15, 16, 17, 32, 250] if tier == "quick" else list(range(0, 251))
    for n in lens:
        payload = bytes(rnd.randrange(256) for _ in range(n))
        f = linkconc.build_frame(0xC4 if n else 0xC9, 1024, 1, payload)
        out.append({"id": "sweep1_%d" % n, "cfg": {"discard": True, "datagram": False, "local": 1024},
                    "frames": [f.hex()], "steps": [{"k": "sweep", "hex": f.hex(), "flips": 1}], "meta": {}})
    for n in ([0, 1] if tier == "quick" else [0, 1, 16, 17]):
        payload = bytes(rnd.randrange(256) for _ in range(n))
        f = linkconc.build_frame(0xC4 if n else 0xC9, 1024, 1, payload)
        out.append({"id": "sweep2_%d" % n, "cfg": {"discard": False, "datagram": False, "local": 1024},
                    "frames": [f.hex()], "steps": [{"k": "sweep", "hex": f.hex(), "flips": 2}], "meta": {}})
    # a damaged frame followed, in the same read, by an intact one: the intact one must come up unaltered
    follow = linkconc.build_frame(0xC4, 1024, 2, bytes(rnd.randrange(256) for _ in range(20)))
    for n in ([1, 17, 40] if tier == "quick" else [0, 1, 16, 17, 33, 40, 100, 250]):
        payload = bytes(rnd.choice([x for x in range(256) if x not in (5, 0x64)]) for _ in range(n))
        f = linkconc.build_frame(0xC4 if n else 0xC9, 1024, 1, payload)
        out.append({"id": "sweepf_%d" % n, "cfg": {"discard": True, "datagram": False, "local": 1024},
                    "frames": [f.hex(), follow.hex()],
                    "steps": [{"k": "sweep", "hex": f.hex(), "flips": 1, "follow": follow.hex()}], "meta": {}})
    f = linkconc.build_frame(0xC9, 1024, 1, b"")
    out.append({"id": "sweep3_0", "cfg": {"discard": False, "datagram": False, "local": 1024},
                "frames": [f.hex()], "steps": [{"k": "sweep", "hex": f.hex(), "flips": 3,
                                                "sample": 3000 if tier == "quick" else 0, "seed": rnd.randrange(1 << 30)}],
                "meta": {}})
    return out


# ---------------------------------------------------------------- C07 link half

def run_c07_link(tier, wd):
    """returns (violations, evidence fragment)"""
    rnd = random.Random(vlib.seed() + 7)
    design = {"states": 0, "transitions": 0}
    scen = []
    n = 0
    for is_master in (False, True):
        for self_addr in (False, True):
            cfg = os.path.join(wd, "mcla_%d_%d.cfg" % (is_master, self_addr))
            vlib.write_cfg(cfg, "Spec", {"IsMaster": is_master, "SelfAddr": self_addr, "MaxSteps": 3, "Small": False},
                           ["NoViolation"], view="View")
            r = vlib.model_check("MC_LinkAddr.tla", cfg, workers=4, timeout=600)
            if r["violated"]:
                raise ToolError("LinkAddr.tla violates Mon_C07L: %s" % json.dumps(r["hist"]))
            design["states"] += r["distinct"]
            design["transitions"] += r["generated"]
            # every (secondary state, header) pair once
            cfg2 = os.path.join(wd, "covla_%d_%d.cfg" % (is_master, self_addr))
            vlib.write_cfg(cfg2, "Spec", {"IsMaster": is_master, "SelfAddr": self_addr, "MaxSteps": 3, "Small": False},
                           ["ExportAll"], view="CoverView")
            hists, _ = vlib.cover("MC_LinkAddr.tla", cfg2, workers=4)
            if tier == "quick" and len(hists) > 1200:
                hists = rnd.sample(hists, 1200)
            # 3-switch cover of the frame-count-bit automaton over the well-addressed primary frames
            cfg3 = os.path.join(wd, "covla3_%d_%d.cfg" % (is_master, self_addr))
            vlib.write_cfg(cfg3, "Spec", {"IsMaster": is_master, "SelfAddr": self_addr, "MaxSteps": 5, "Small": True},
                           ["ExportAll"], view="CoverView")
            h3, _ = vlib.cover("MC_LinkAddr.tla", cfg3, workers=4)
            hists = hists + h3
            for h in hists:
                scen.append(linkconc.addr_scenario("la_%d" % n, h, is_master, self_addr))
                n += 1
    raw, hangs = vlib.run_harness("link", scen, "chk_C07_link")
    lwd = os.path.join(vlib.WORK, "chk_C07_link")
    normp = os.path.join(lwd, "trace.norm.ndjson")
    import norm
    norm.normalize_link_file(raw, normp)
    mcfg = os.path.join(lwd, "tm.cfg")
    vlib.write_cfg(mcfg, "TSpec", {}, ["Done"])
    verdict = vlib.trace_run("TM_C07L.tla", mcfg, normp, os.path.join(lwd, "mon.json"))
    cfgp = os.path.join(lwd, "tr.cfg")
    vlib.write_cfg(cfgp, "TSpec", link_consts(True, False, "DEVL_none"), ["Done"])
    conf = vlib.trace_run("Trace_Link.tla", cfgp, normp, os.path.join(lwd, "conf.json"))["res"]
    return verdict["viol"], {"link_states": design["states"], "link_transitions": design["transitions"],
                             "link_scenarios": len(scen), "link_conforming": conf["ok"],
                             "link_divergences": conf["div"][:10]}
