"""C01: hostile input classes (Hostile.tla, enumerated by TLC) x session states (prefixes from the abstract-transition
covers of Outstation.tla and Master.tla) x chunkings, executed on the real outstation and the real master, followed by
a probe that the endpoint still serves; judged by Mon_C01 (TLC trace validation)."""
import json
import os
import random
import re
import time

import codec_check
import concretize
import hostile
import mconc
import mst_check
import ost_check
import vlib
from vlib import ToolError, log

DECODE = ["nothing", "header", "object_headers", "object_values"]
# a frame cut short leaves the reader waiting for the rest of its declared length: whatever follows is taken for it.
# Line idle bytes end any such frame before the probe (they are part of the hostile input)
FLUSH = {"k": "raw", "hex": "00" * 300, "tag": {"hostile": True}}


RX_BUFS = [2048, 249, 292, 500, 1024]


def enumerate_stimuli(wd):
    cfg = os.path.join(wd, "hostile.cfg")
    with open(cfg, "w") as f:
        f.write("SPECIFICATION Spec\n")
    rc, out = vlib._tlc(["-workers", "1", "-config", cfg, "Hostile.tla"], timeout=900)
    if "No error has been found" not in out:
        raise ToolError("Hostile.tla enumeration failed")
    st = {"outstation": [], "master": []}
    for line in out.splitlines():
        m = re.match(r'<<"STIM", "(.*)">>$', line.strip())
        if m:
            r = json.loads(vlib.tla_unescape(m.group(1)))
            st[r["role"]].append(r["s"])
    return st


def ost_probe():
    rd = {"k": "rx", "fn": "read", "seq": "far", "hdrs": [{"g": 60, "v": 1, "q": 6}]}
    return [{"k": "reconn"},
            {"k": "lrx", "ctrl": 0xC9, "tag": {"probe": "link1"}}, {"k": "lrx", "ctrl": 0xC9, "tag": {"probe": "link1"}},
            {"k": "reconn"},
            {"k": "lrx", "ctrl": 0xC9, "tag": {"probe": "link"}},
            {"k": "adv", "dt": 4000},
            {"k": "reconn"},
            dict(rd, tag={"probe": "read1"}), {"k": "adv", "dt": 1010, "tag": {"probe": "read1"}},
            {"k": "reconn"},
            dict(rd, tag={"probe": "read1"}), {"k": "adv", "dt": 1010, "tag": {"probe": "read"}}] + busy_probe()


def busy_probe():
    """a peer that never falls silent: after a reconnection (the outstation, where it reports unsolicited, is waiting
    for a confirm) a READ is sent and repeated every 400 ms for 3.6 s - longer than any wait of the session; it must be
    answered while the repetitions go on"""
    rd = {"k": "rx", "fn": "read", "hdrs": [{"g": 60, "v": 1, "q": 6}]}
    out = [{"k": "reconn", "tag": {"probe": "busy1"}}, dict(rd, seq="far", tag={"probe": "busy1"}), {"k": "adv", "dt": 400, "tag": {"probe": "busy1"}}]
    for _ in range(7):
        out += [dict(rd, seq="same", tag={"probe": "busy1"}), {"k": "adv", "dt": 400, "tag": {"probe": "busy1"}}]
    out += [dict(rd, seq="same", tag={"probe": "busy1"}), {"k": "adv", "dt": 5, "tag": {"probe": "busy"}}]
    return out


def mst_probe(pid):
    """let outstanding / queued tasks run out, reconnect if the session was closed, submit a user READ and answer whatever
    request is outstanding until the READ has been sent and completed (automatic tasks triggered by the stimulus may
    run first)"""
    rx = {"k": "rx", "fn": "response", "src": 1024, "hdrs": [{"g": 1, "v": 2, "q": 0, "start": 0, "stop": 0, "data": "01"}],
          "tag": {"probe": "m1", "body": "data"}}
    out = [{"k": "enable"}, {"k": "adv", "dt": 1010}, {"k": "adv", "dt": 1010}, {"k": "adv", "dt": 1010}, {"k": "reconn"},
           {"k": "req", "id": pid, "assoc": 1024, "kind": "read", "classes": [True, True, True, True], "tag": {"probe": "m1"}}]
    for _ in range(6):
        out += [dict(rx), {"k": "adv", "dt": 20, "tag": {"probe": "m1"}}]
    for _ in range(3):
        out += [{"k": "adv", "dt": 1010, "tag": {"probe": "m1"}}, dict(rx), {"k": "adv", "dt": 20, "tag": {"probe": "m1"}}]
    out.append({"k": "adv", "dt": 5, "tag": {"probe": "mprobe"}})
    return out


def run(tier, replay=None):
    t0 = time.time()
    prop = "C01"
    wd = vlib.workdir("chk_C01")
    known = vlib.load_known()
    devs = ost_check.open_devs(known)
    ost_check.ensure_dev_defs([devs] + [[d] for d in devs])
    mst_check.ensure_dev_defs(mst_check.open_devs(known), mst_check.sensitivity("C15", "quick", None)[1])
    vlib.build_harness()
    sd = vlib.seed()
    rnd = random.Random(sd)

    stimuli = enumerate_stimuli(wd)
    cases, _ = codec_check.enumerate_cases(wd)
    pools = {"read": [], "write": [], "resp": []}
    for c in cases:
        pools[c["c"]["fnc"]].append(c)
    for k in pools:
        pools[k].sort(key=lambda c: json.dumps(c, sort_keys=True))

    # session states: prefixes of the behaviours of the abstract-transition covers (+ the witness corpora)
    oabs = list(ost_check.corpus())
    cov_pairs = 0
    for alpha, groups, depth in (("events", [("os2_cap1", 1)], 6 if tier == "quick" else 8), ("ctl", [("os2_cap1", 1)], 5 if tier == "quick" else 7)):
        c, n = ost_check.covered(tier, wd, devs, alpha, groups, depth)
        oabs += c
        cov_pairs += n
    mabs = list(mst_check.corpus())
    mabs = [a for a in mabs if a["model"] == "quiet1"]
    c, n = mst_check.covered(tier, wd, "resp", "quiet1", 6 if tier == "quick" else 8)
    mabs += c
    cov_pairs += n

    draws = int(os.environ.get("VERIF_DRAWS", "8"))
    n_ost = 1800 if tier == "quick" else len(stimuli["outstation"]) * draws
    n_mst = 900 if tier == "quick" else len(stimuli["master"]) * draws
    ost_st = list(stimuli["outstation"])
    mst_st = list(stimuli["master"])
    # every (layer, kind, function code) once in its plainest form first, the rest in seeded order
    def ordered(sts):
        first = [s for s in sts if s["ctl"] == "firfin" and s["chunk"] == "whole" and s["n"] == 40]
        rest = [s for s in sts if not (s["ctl"] == "firfin" and s["chunk"] == "whole" and s["n"] == 40)]
        rnd.shuffle(rest)
        return first + rest
    ost_st = ordered(ost_st)
    mst_st = ordered(mst_st)
    oscen, mscen = [], []
    for i in range(n_ost):
        s = ost_st[i % len(ost_st)]
        a = oabs[(i * 7 + rnd.randrange(3)) % len(oabs)]
        cut = rnd.randrange(0, len(a["hist"]) + 1)
        data = hostile.stimulus("outstation", s, pools, rnd)
        cfg = concretize.harness_cfg(a["model"], a.get("retries", 1))
        cfg["error_mode"] = "discard" if i % 2 else "close"
        cfg["decode"] = DECODE[i % 4]
        # "any legal buffer-size configuration": the outstation's receive buffer from the minimum up
        # (the master's is fixed by its type, BufferSize<2048, 2048>)
        cfg["rx_buf"] = RX_BUFS[(i // 4) % len(RX_BUFS)]
        steps = concretize.steps_of(a["hist"][:cut], a["model"])
        st = {"k": "raw", "hex": data.hex(), "tag": {"hostile": True}}
        ch = hostile.chunks_of(len(data), s["chunk"], rnd)
        if ch:
            st["chunks"] = ch
        oscen.append({"id": "h_o_%d" % i, "cfg": cfg, "steps": steps + [st, FLUSH] + ost_probe(),
                      "meta": {"stim": s, "prefix": a["id"], "cut": cut}})
    for i in range(n_mst):
        s = mst_st[i % len(mst_st)]
        a = mabs[(i * 5 + rnd.randrange(3)) % len(mabs)]
        cut = rnd.randrange(0, len(a["hist"]) + 1)
        data = hostile.stimulus("master", s, pools, rnd)
        cfg = mconc.harness_cfg("quiet1")
        cfg["decode"] = DECODE[i % 4]
        cfg["error_mode"] = "discard" if i % 2 else "close"
        steps = mconc.steps_of(a["hist"][:cut], "quiet1")
        st = {"k": "raw", "hex": data.hex(), "tag": {"hostile": True}}
        ch = hostile.chunks_of(len(data), s["chunk"], rnd)
        if ch:
            st["chunks"] = ch
        mscen.append({"id": "h_m_%d" % i, "cfg": cfg, "steps": steps + [st, FLUSH] + mst_probe(9000 + i),
                      "meta": {"stim": s, "prefix": a["id"], "cut": cut}})
    if replay:
        with open(replay) as f:
            rp = json.load(f)
        sc = rp["scenario"]
        oscen, mscen = ([sc], []) if sc["id"].startswith("h_o_") else ([], [sc])
    log(prop, len(oscen), "outstation scenarios,", len(mscen), "master scenarios")
    oraw, oh = vlib.run_harness("ost", oscen, "chk_C01/ost") if oscen else (None, 0)
    mraw, mh = vlib.run_harness("mst", mscen, "chk_C01/mst") if mscen else (None, 0)

    normp = os.path.join(wd, "trace.norm.ndjson")
    nlines = 0
    by_id = {s["id"]: s for s in oscen + mscen}
    with open(normp, "w") as fo:
        for raw in (oraw, mraw):
            if not raw:
                continue
            discard = False
            acc_ltx, acc_tx, rxseq = [], [], -1
            acc_done = []
            with open(raw) as f:
                for line in f:
                    r = json.loads(line)
                    k = r.get("k", "")
                    if k == "reset":
                        sc = by_id.get(r.get("id"), {})
                        discard = (sc.get("cfg") or {}).get("error_mode") == "discard"
                        acc_ltx, acc_tx, rxseq = [], [], -1
                        acc_done = []
                        e = {"k": "reset", "id": str(r.get("id"))}
                    else:
                        tag = r.get("tag") or {}
                        probe = tag.get("probe", "") if isinstance(tag, dict) else ""
                        ltx = [x.get("fn", "") for x in r.get("ltx", [])]
                        tx = [{"fc": x.get("fc", -1), "seq": x.get("seq", -1)} for x in r.get("tx", [])]
                        if probe == "busy1" and r.get("k") == "reconn":
                            acc_tx = []
                        if "frag" in r and probe in ("read1", "read", "busy1"):
                            rxseq = r["frag"].get("seq", -1)
                        dones = [str(d[2]) for d in r.get("done", []) if isinstance(d, list) and len(d) > 2 and isinstance(d[1], int) and d[1] >= 9000]
                        if probe == "m1":
                            acc_tx += [x for x in tx if x["fc"] == 1]
                            acc_done += dones
                            probe = ""
                        elif probe == "mprobe":
                            tx = acc_tx + tx
                            dones = acc_done + dones
                        if probe == "link1":
                            acc_ltx += ltx
                            probe = ""
                        elif probe == "link":
                            ltx = acc_ltx + ltx
                        elif probe in ("read1", "busy1"):
                            acc_tx += [x for x in tx if x["seq"] == rxseq]
                            probe = ""
                        elif probe == "busy":
                            tx = acc_tx + tx
                        elif probe == "read":
                            tx = acc_tx + tx
                            # any of the probe READs answered counts
                            if any(x["fc"] == 129 for x in acc_tx):
                                tx = [{"fc": 129, "seq": rxseq}] + tx
                        pm = r.get("panic") or {}
                        e = {"k": k, "panic": ("panic" in r) or k == "crash", "pmsg": str(pm.get("loc", ""))[:120],
                             "ended": bool(r.get("ended")), "probe": probe, "ltx": ltx, "tx": tx, "rxseq": rxseq,
                             "done": dones,
                             "closed": bool(r.get("eof")), "discard": discard,
                             "hostile": bool(isinstance(tag, dict) and tag.get("hostile"))}
                    fo.write(json.dumps(e, separators=(",", ":")) + "\n")
                    nlines += 1
    verdict = vlib.trace_run("TM_C01.tla", os.path.join(vlib.SPEC, "TM.cfg"), normp, os.path.join(wd, "mon.json"), timeout=3000)
    viols = verdict["viol"]

    open_f = [f for f in known["findings"] if prop in f.get("reasons", {}) and f["status"] == "open"]
    unexplained, explained = [], {}
    for v in viols:
        hit = None
        sc = by_id.get(v["sc"], {})
        stim = (sc.get("meta") or {}).get("stim", {})
        for f in open_f:
            m = f.get("stim_match") or {}
            if v["reason"] in f["reasons"][prop] and (not f.get("panic_at") or f["panic_at"] in v.get("ctx", "")) and all(
                    stim.get(k) in (val if isinstance(val, list) else [val]) for k, val in m.items()):
                hit = f
                break
        if hit:
            explained.setdefault(hit["id"], []).append(v)
        else:
            v["stim"] = stim
            unexplained.append(v)
    rc = 0
    out_lines = []
    for f in open_f:
        if explained.get(f["id"]):
            out_lines.append("KNOWN-FINDING: property=%s %s %s" % (prop, f["id"], f["what"]))
    if unexplained:
        rc = 1
        rp_dir = os.path.join(vlib.ROOT, "replays")
        os.makedirs(rp_dir, exist_ok=True)
        first = unexplained[0]
        rp_path = os.path.join(rp_dir, "C01_%s.json" % vlib.sha([first["sc"], first["reason"]]))
        with open(rp_path, "w") as f:
            json.dump({"property": prop, "violation": first, "scenario": by_id.get(first["sc"]),
                       "all_unexplained": unexplained[:50]}, f, indent=1)
        out_lines.append("VIOLATION property=%s replay=%s" % (prop, rp_path))
        for u in unexplained[:12]:
            log("unexplained", u["reason"], u["sc"], u.get("ctx", ""), json.dumps(u.get("stim")))
    from collections import Counter
    kinds = Counter("%s/%s" % (s["meta"]["stim"]["lay"], s["meta"]["stim"]["kind"]) for s in oscen + mscen if "meta" in s)
    cov = {"evaluations": len(oscen) + len(mscen), "distinct_nontrivial": len({st["hex"] for s in oscen + mscen for st in s["steps"] if st.get("k") == "raw" and (st.get("tag") or {}).get("hostile")}),
           "samples": [{"id": s["id"], "meta": s["meta"]} for s in (oscen[:2] + mscen[:1])],
           "rule": "one evaluation = one scenario: a prefix of a TLC-generated behaviour (reaching a session state of Outstation.tla / "
                   "Master.tla), one hostile stimulus class of Hostile.tla with seeded bytes and chunking, then the probe (link status request, "
                   "fresh READ / user request and its answer, on the same or - after a close - a new connection); decode level, outstation receive buffer size (249, 292, 500, 1024, 2048), link error mode "
                   "cycled; distinct = distinct stimulus byte strings",
           "stimulus_classes_enumerated": {k: len(v) for k, v in stimuli.items()}, "stimulus_kinds_executed": dict(kinds),
           "prefix_behaviours": {"outstation": len(oabs), "master": len(mabs)}, "abstract_transition_cover_pairs": cov_pairs,
           "object_cases_pool": {k: len(v) for k, v in pools.items()}, "trace_lines": nlines,
           "monitor_violations": len(viols), "hangs": oh + mh,
           "explained_by_known_findings": {k: len(v) for k, v in explained.items()},
           "unexplained": unexplained[:20], "exhaustive": False}
    vlib.write_evidence(prop, tier, "other", cov,
                        ["state-complete over the abstract session states of the bounded models, input-sampled: the bytes of a stimulus class are seeded random draws",
                         "buffer sizes: the 249-byte minimum (outstation models) and 2048 (master); rx buffer sizes other than the default are not varied",
                         "spinning is observed as the harness watchdog firing under the paused clock"],
                        time.time() - t0, len(unexplained))
    for ln in out_lines:
        print(ln)
    return rc
