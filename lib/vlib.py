"""Shared machinery of the checks: TLC runs (model checking, simulation, trace validation),
harness runs, classification against known findings, evidence files."""
import hashlib
import json
import os
import re
import shutil
import subprocess
import sys
import time
import uuid

ROOT = "/verif"
SPEC = ROOT + "/spec"
WORK = ROOT + "/.work"
HARNESS_DIR = ROOT + "/harness"
HARNESS_BIN = HARNESS_DIR + "/target/debug/verif-harness"
EVIDENCE = ROOT + "/evidence"
JAVA_OPTS = "-Xss1g -Dtlc2.tool.queue.IStateQueue=StateDeque"

sys.path.insert(0, ROOT + "/lib")
import norm  # noqa: E402


class ToolError(Exception):
    pass


def log(*a):
    print("[check]", *a, file=sys.stderr, flush=True)


def seed():
    try:
        return int(os.environ.get("VERIF_SEED", "1"))
    except ValueError:
        return 1


def workdir(tag):
    d = os.path.join(WORK, tag)
    shutil.rmtree(d, ignore_errors=True)
    os.makedirs(d, exist_ok=True)
    return d


def build_harness():
    """(re)build the harness against /repo's current working tree (hooks on)"""
    t0 = time.time()
    env = dict(os.environ, CARGO_NET_OFFLINE="true")
    p = subprocess.run(["cargo", "build", "--offline"], cwd=HARNESS_DIR, env=env,
                       capture_output=True, text=True, timeout=1800)
    if p.returncode != 0:
        sys.stderr.write(p.stderr[-4000:])
        raise ToolError("harness build failed")
    return time.time() - t0


# ---------------------------------------------------------------- TLC

def _tlc(args, cwd=SPEC, env=None, timeout=3600):
    e = dict(os.environ)
    if env:
        e.update(env)
    meta = os.path.join(WORK, "tlcmeta_%d_%s" % (os.getpid(), uuid.uuid4().hex[:12]))
    cmd = ["tlc", "-metadir", meta, "-cleanup", "-noGenerateSpecTE"] + args
    try:
        p = subprocess.run(cmd, cwd=cwd, env=e, capture_output=True, text=True, timeout=timeout)
    except subprocess.TimeoutExpired:
        shutil.rmtree(meta, ignore_errors=True)
        raise ToolError("TLC timeout: " + " ".join(args))
    shutil.rmtree(meta, ignore_errors=True)
    return p.returncode, p.stdout + p.stderr


def write_cfg(path, spec, constants, invariants=(), view=None, extra=()):
    lines = ["SPECIFICATION " + spec, "CONSTANTS"]
    for k, v in constants.items():
        if isinstance(v, tuple) and v[0] == "<-":
            lines.append("  %s <- %s" % (k, v[1]))
        elif isinstance(v, bool):
            lines.append("  %s = %s" % (k, "TRUE" if v else "FALSE"))
        else:
            lines.append("  %s = %s" % (k, v))
    for i in invariants:
        lines.append("INVARIANT " + i)
    if view:
        lines.append("VIEW " + view)
    lines.extend(extra)
    lines.append("CHECK_DEADLOCK FALSE")
    with open(path, "w") as f:
        f.write("\n".join(lines) + "\n")


def tla_unescape(s):
    return s.encode().decode("unicode_escape")


def parse_hist(out):
    """last `hist` value of a TLC error trace, as python (via a tiny TLA+ value reader)"""
    hs = re.findall(r"/\\ hist = (<<.*?>>)\n\n", out, re.S)
    if not hs:
        return None
    return tla_value(hs[-1])


def tla_value(text):
    """parse the subset of TLA+ values TLC prints for hist: <<>>, [a |-> v], {..}, strings, ints, bools"""
    pos = [0]
    s = text

    def ws():
        while pos[0] < len(s) and s[pos[0]].isspace():
            pos[0] += 1

    def val():
        ws()
        c = s[pos[0]]
        if s.startswith("<<", pos[0]):
            pos[0] += 2
            out = []
            while True:
                ws()
                if s.startswith(">>", pos[0]):
                    pos[0] += 2
                    return out
                out.append(val())
                ws()
                if s[pos[0]] == ",":
                    pos[0] += 1
        if c == "[":
            pos[0] += 1
            out = {}
            while True:
                ws()
                if s[pos[0]] == "]":
                    pos[0] += 1
                    return out
                m = re.match(r"(\w+)\s*\|->", s[pos[0]:])
                key = m.group(1)
                pos[0] += m.end()
                out[key] = val()
                ws()
                if s[pos[0]] == ",":
                    pos[0] += 1
        if c == "{":
            pos[0] += 1
            out = []
            while True:
                ws()
                if s[pos[0]] == "}":
                    pos[0] += 1
                    return out
                out.append(val())
                ws()
                if s[pos[0]] == ",":
                    pos[0] += 1
        if c == '"':
            m = re.match(r'"((?:[^"\\]|\\.)*)"', s[pos[0]:])
            pos[0] += m.end()
            return m.group(1)
        m = re.match(r"-?\d+", s[pos[0]:])
        if m:
            pos[0] += m.end()
            return int(m.group(0))
        m = re.match(r"TRUE|FALSE", s[pos[0]:])
        if m:
            pos[0] += m.end()
            return m.group(0) == "TRUE"
        raise ValueError("cannot parse TLA+ value at: " + s[pos[0]:pos[0] + 40])

    return val()


def model_check(module, cfg_path, workers=8, timeout=3600, extra=()):
    """returns dict(generated, distinct, violated (invariant name or None), hist, error)"""
    t0 = time.time()
    rc, out = _tlc(["-workers", str(workers), "-config", cfg_path] + list(extra) + [module], timeout=timeout)
    m = re.search(r"(\d+) states generated, (\d+) distinct states found", out)
    res = {"generated": int(m.group(1)) if m else 0, "distinct": int(m.group(2)) if m else 0,
           "violated": None, "hist": None, "wall_s": round(time.time() - t0, 1), "rc": rc}
    mv = re.search(r"Invariant (\w+) is violated", out)
    if mv:
        res["violated"] = mv.group(1)
        res["hist"] = parse_hist(out)
        vs = re.findall(r"viol \|-> (<<.*?>>), live", out, re.S)
        if vs:
            try:
                res["viol"] = tla_value(vs[-1])
            except Exception:
                res["viol"] = re.sub(r"\s+", " ", vs[-1])[:500]
    elif rc != 0:
        errs = [l for l in out.splitlines() if l.startswith("Error:") or "Attempted" in l or "rror" in l[:40]]
        raise ToolError("TLC failed on %s: %s" % (module, "; ".join(errs[:4])[:600]))
    dm = re.search(r"The depth of the complete state graph search is (\d+)", out)
    res["depth"] = int(dm.group(1)) if dm else 0
    return res


def simulate(module, cfg_path, num, depth, sd, timeout=900):
    """TLC -simulate; returns the list of distinct exported histories (python values)"""
    rc, out = _tlc(["-workers", "1", "-simulate", "num=%d" % num, "-depth", str(depth), "-seed", str(sd),
                    "-config", cfg_path, module], timeout=timeout)
    seen, hists = set(), []
    for line in out.splitlines():
        m = re.search(r'<<"SCENARIO", "(.*)">>', line.strip())
        if not m:
            continue
        js = tla_unescape(m.group(1))
        if js in seen:
            continue
        seen.add(js)
        hists.append(json.loads(js))
    if not hists and rc != 0:
        errs = [l for l in out.splitlines() if "rror" in l[:60]]
        raise ToolError("TLC simulate failed on %s: %s" % (module, "; ".join(errs[:4])[:600]))
    return hists


def cover(module, cfg_path, workers=8, timeout=1800):
    """TLC breadth-first under an abstraction VIEW with ExportAll: one history per reachable
    (abstract state, incoming input) pair; returns the maximal histories (no history that is a
    prefix of another)"""
    rc, out = _tlc(["-workers", str(workers), "-config", cfg_path, module], timeout=timeout)
    hs, seen = [], set()
    for line in out.splitlines():
        m = re.search(r'<<"SCENARIO", "(.*)">>', line.strip())
        if not m:
            continue
        js = tla_unescape(m.group(1))
        if js in seen:
            continue
        seen.add(js)
        hs.append(json.loads(js))
    if not hs:
        errs = [l for l in out.splitlines() if "rror" in l[:60]]
        raise ToolError("TLC cover failed on %s: %s" % (module, "; ".join(errs[:4])[:600]))
    prefixes = set()
    for h in hs:
        for i in range(1, len(h)):
            prefixes.add(json.dumps(h[:i]))
    m = re.search(r"(\d+) states generated, (\d+) distinct states found", out)
    return [h for h in hs if json.dumps(h) not in prefixes], (int(m.group(2)) if m else len(hs))


def trace_run(module, cfg_path, trace_path, out_path, timeout=1800):
    """run a trace-validation spec (monitor or conformance) over a normalised trace; returns the JSON verdict"""
    if os.path.exists(out_path):
        os.remove(out_path)
    rc, out = _tlc(["-workers", "1", "-config", cfg_path, module],
                   env={"TRACE": trace_path, "OUT": out_path, "JAVA_TOOL_OPTIONS": JAVA_OPTS}, timeout=timeout)
    if not os.path.exists(out_path):
        errs = [l for l in out.splitlines() if "rror" in l[:60] or "Attempted" in l or l.startswith("line ")]
        raise ToolError("trace validation %s produced no verdict: %s" % (module, " | ".join(errs[:6])[:900]))
    with open(out_path) as f:
        return json.load(f)


# ---------------------------------------------------------------- harness

def run_harness(mode, scenarios, tag):
    """run scenarios (list of dicts) through the harness; returns (raw trace path, number of hangs)"""
    d = os.path.join(WORK, tag)
    os.makedirs(d, exist_ok=True)
    raw = os.path.join(d, "trace.raw.ndjson")
    open(raw, "w").close()
    remaining = list(scenarios)
    hangs = 0
    part = 0
    while remaining:
        sc_path = os.path.join(d, "scenarios.%d.ndjson" % part)
        tr_path = os.path.join(d, "trace.%d.ndjson" % part)
        with open(sc_path, "w") as f:
            for s in remaining:
                f.write(json.dumps(s) + "\n")
        p = subprocess.run([HARNESS_BIN, mode, sc_path, tr_path], capture_output=True, text=True,
                           timeout=3600, env=dict(os.environ, VERIF_WATCHDOG_S=os.environ.get("VERIF_WATCHDOG_S", "20")))
        lines = open(tr_path).read().splitlines() if os.path.exists(tr_path) else []
        with open(raw, "a") as f:
            for ln in lines:
                f.write(ln + "\n")
        if p.returncode == 0:
            break
        if p.returncode == 3:
            # watchdog: the scenario being executed hung; continue after it
            hangs += 1
            done = sum(1 for ln in lines if ln.startswith('{"k":"reset"') or '"k":"reset"' in ln[:40])
            remaining = remaining[done:]
            part += 1
            continue
        raise ToolError("harness failed (rc=%d): %s" % (p.returncode, p.stderr[-500:]))
    return raw, hangs


def normalize(raw, tag):
    out = os.path.join(WORK, tag, "trace.norm.ndjson")
    n = norm.normalize_file(raw, out)
    return out, n


def split_by_scenario(norm_path):
    """[(id, first_line, last_line)] 1-based"""
    out = []
    cur = None
    with open(norm_path) as f:
        for i, line in enumerate(f, 1):
            if line.startswith('{"k":"reset"'):
                if cur:
                    out.append((cur[0], cur[1], i - 1))
                cur = (json.loads(line)["id"], i)
        if cur:
            out.append((cur[0], cur[1], i))
    return out


# ---------------------------------------------------------------- known findings

def load_known():
    with open(ROOT + "/known_findings.json") as f:
        return json.load(f)


def sha(obj):
    return hashlib.sha256(json.dumps(obj, sort_keys=True).encode()).hexdigest()[:16]


def write_evidence(prop, tier, level, coverage, assumptions, wall, violations):
    if os.environ.get("VERIF_REPLAY"):
        return
    os.makedirs(EVIDENCE, exist_ok=True)
    ev = {"property_id": prop, "tier": tier, "seed": seed(), "level": level, "coverage": coverage,
          "assumptions": assumptions, "wall_s": round(wall, 1), "violations": violations}
    tmp = os.path.join(EVIDENCE, prop + ".json.tmp")
    with open(tmp, "w") as f:
        json.dump(ev, f, indent=1)
    os.replace(tmp, os.path.join(EVIDENCE, prop + ".json"))
