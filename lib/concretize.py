"""Abstract scenarios (resolved inputs of Outstation.tla, exported by TLC as JSON) -> harness scenarios."""
import json

MODEL_CFGS = {
    # name -> (TLA constant overrides, harness cfg)
    "os2_cap1": {
        "tla": {"Pts": "Pts_os2_cap1", "EvMax": "EvMax_os2"},
        "points": [("os", 0, 1, 130), ("os", 1, 2, 130)], "evmax": [0, 0, 0, 0, 0, 0, 0, 2]},
    "os2_cap2": {
        "tla": {"Pts": "Pts_os2_cap2", "EvMax": "EvMax_os2"},
        "points": [("os", 0, 1, 100), ("os", 1, 2, 100)], "evmax": [0, 0, 0, 0, 0, 0, 0, 2]},
    "os2_max1": {
        "tla": {"Pts": "Pts_os2_cap1", "EvMax": "EvMax_os1"},
        "points": [("os", 0, 1, 130), ("os", 1, 2, 130)], "evmax": [0, 0, 0, 0, 0, 0, 0, 1]},
    "os_big": {
        "tla": {"Pts": "Pts_os_big", "EvMax": "EvMax_mixed"},
        "points": [("bi", 0, 2, 0), ("os", 0, 1, 250)], "evmax": [2, 0, 0, 0, 0, 0, 0, 2]},
    "mixed_pk": {
        "tla": {"Pts": "Pts_mixed_pk", "EvMax": "EvMax_mixed"}, "packed": True,
        "points": [("bi", 0, 2, 0), ("os", 0, 1, 130)], "evmax": [2, 0, 0, 0, 0, 0, 0, 2]},
    "mixed": {
        "tla": {"Pts": "Pts_mixed", "EvMax": "EvMax_mixed"},
        "points": [("bi", 0, 2, 0), ("os", 0, 1, 130)], "evmax": [2, 0, 0, 0, 0, 0, 0, 2]},
}

TIMING = {"ConfirmTO": 1000, "RetryDelay": 2000, "SelectTO": 1000}


def harness_cfg(name, retries=1, unsol=True):
    m = MODEL_CFGS[name]
    pts = []
    for ty, ix, cls, L in m["points"]:
        if ty == "os":
            pts.append({"ty": "os", "ix": ix, "cls": cls, "init": {"val": "os%d:0" % L}})
        else:
            pts.append({"ty": "bi", "ix": ix, "cls": cls, "svar": 1 if m.get("packed") else 2, "evar": 2,
                        "init": {"val": 0, "fl": 1, "tm": 0}})
    return {"sol_buf": 249, "unsol_buf": 249, "confirm_to": TIMING["ConfirmTO"],
            "select_to": TIMING["SelectTO"], "retry_delay": TIMING["RetryDelay"],
            "max_retries": None if retries < 0 else retries, "unsol": unsol,
            "evmax": m["evmax"], "class_zero": [True] * 8, "points": pts, "keep_alive": None,
            # control object set "b" (index 2): the handler refuses the select with NOT_SUPPORTED
            "app": {"ctl_default": 0, "ctl_select": [[2, 4]]}}


def upd_val(pt, n):
    ty, ix, cls, L = pt
    return ("os%d:%d" % (L, n)) if ty == "os" else (n % 2)


def hdr(tok):
    n, lim = tok["n"], tok["lim"]
    if n == "bi":
        return {"g": 2, "v": tok.get("v", 0), "q": 6}
    v = {"c0": 1, "c1": 2, "c2": 3, "c3": 4}[n]
    if lim >= 0:
        return {"g": 60, "v": v, "q": 7, "count": lim}
    return {"g": 60, "v": v, "q": 6}


def crob_header(index, wide=False):
    # g12v1, qualifier 0x17 (1-byte count, 1-byte index) or 0x28 (2-byte count, 2-byte index):
    # code 3, count 1, on 100 ms, off 200 ms, status 0
    crob = bytes([3, 1]) + (100).to_bytes(4, "little") + (200).to_bytes(4, "little") + bytes([0])
    if wide:
        return {"g": 12, "v": 1, "q": 0x28, "count": 1, "data": (index.to_bytes(2, "little") + crob).hex()}
    return {"g": 12, "v": 1, "q": 0x17, "count": 1, "data": (bytes([index]) + crob).hex()}


def addressing(st, h):
    if h.get("src", "M") != "M":
        st["src"] = 2
    dst = h.get("dst", "U")
    if dst != "U":
        st["dst"] = {"BC_OPT": 0xFFFF, "BC_MAN": 0xFFFE, "BC_NR": 0xFFFD}[dst]


def steps_of(hist, name):
    out = _steps_of(hist, name)
    # a repeat re-sends the bytes of the previous request: it inherits that request's class tag
    last_tag = None
    for st in out:
        if st["k"] == "rx":
            if st.get("repeat") and last_tag is not None and "tag" not in st:
                st["tag"] = last_tag
            elif not st.get("repeat"):
                last_tag = st.get("tag")
        elif st["k"] in ("cut",):
            last_tag = None
    return out


def _steps_of(hist, name):
    pts = MODEL_CFGS[name]["points"]
    out, n = [], 0
    for h in hist:
        k = h["k"]
        if k in ("conn", "cut"):
            out.append({"k": k})
        elif k == "app":
            key = {"time": "need_time", "local": "local_control", "trouble": "device_trouble", "cfg": "config_corrupt"}[h["bit"]]
            out.append({"k": "app", key: bool(h["on"])})
        elif k == "adv":
            out.append({"k": "adv", "dt": h["dt"]})
        elif k == "upd":
            n += 1
            pt = pts[h["p"] - 1]
            val = upd_val(pt, n)
            # packed models: the flags go with the value (1 <-> ONLINE|RESTART)
            fl = 3 if MODEL_CFGS[name].get("packed") and pt[0] == "bi" and val == 1 else 1
            out.append({"k": "upd", "ty": pt[0], "ix": pt[1], "val": val, "fl": fl,
                        "tm": 1000 + n, "mode": "force"})
        elif k == "read":
            st = {"k": "rx", "fn": "read", "seq": h["seq"], "hdrs": [hdr(t) for t in h["hs"]],
                  "repeat": bool(h["rep"])}
            if h.get("bad") == "badobj":
                st["hdrs"] = [{"raw": "016306"}]      # g1 v99: unknown variation
                st["tag"] = {"cls": "badobj"}
            addressing(st, h)
            out.append(st)
        elif k == "req":
            f = h["f"]
            st = {"k": "rx", "seq": h["seq"], "repeat": bool(h["rep"])}
            if f in ("delay", "enable", "disable"):
                st["fn"] = {"delay": "delay_measure", "enable": "enable_unsol", "disable": "disable_unsol"}[f]
                st["hdrs"] = [{"g": 60, "v": c + 1, "q": 6} for c in sorted(h["cl"])]
            elif f in ("select", "operate", "dop", "dopnr"):
                st["fn"] = {"select": "select", "operate": "operate", "dop": "direct_operate",
                            "dopnr": "direct_operate_nr"}[f]
                ob = h.get("ob", "a")
                st["hdrs"] = [crob_header(2 if ob == "b" else 1, wide=(ob == "a2"))]
            elif f == "write_rst":
                st["fn"] = "write"
                st["hdrs"] = [{"g": 80, "v": 1, "q": 0, "start": 7, "stop": 7, "data": "00"}]
            elif f in ("record", "cold", "warm"):
                st["fn"] = {"record": 24, "cold": 13, "warm": 14}[f]
                st["hdrs"] = []
            elif f in ("frz", "frznr", "frzclr", "frzclrnr", "frzat", "frzatnr"):
                st["fn"] = {"frz": 7, "frznr": 8, "frzclr": 9, "frzclrnr": 10, "frzat": 11, "frzatnr": 12}[f]
                g20 = {"g": 20, "v": 0, "q": 6}
                g30 = {"g": 30, "v": 0, "q": 6}
                ob = h.get("ob", "all")
                st["hdrs"] = {"all": [g20], "rng": [{"g": 20, "v": 0, "q": 0, "start": 0, "stop": 1}],
                              "gb": [g20, g30], "bg": [g30, g20], "bad": [g30],
                              # g50v2: time 5000, interval 60000 ms
                              "timed": [{"g": 50, "v": 2, "q": 7, "count": 1, "data": "88130000000060ea0000"}, g20]}[ob]
                if h.get("bad") == "reject":
                    st["tag"] = {"cls": "reject"}
            elif f in ("wtabs", "wtlast"):
                st["fn"] = "write"
                st["hdrs"] = [{"g": 50, "v": 1 if f == "wtabs" else 3, "q": 7, "count": 1, "data": "881300000000"}]
            elif f == "write2":
                st["fn"] = "write"
                ixs = [4, 7] if h.get("ob") == "bg" else [7, 4]
                st["hdrs"] = [{"g": 80, "v": 1, "q": 0, "start": i, "stop": i, "data": "00"} for i in ixs]
                st["tag"] = {"cls": "reject"}
            elif f == "unkfn":
                st["fn"] = 112
                st["hdrs"] = []
                st["tag"] = {"cls": "unkfn"}
            else:
                raise ValueError("unknown request %r" % (h,))
            addressing(st, h)
            out.append(st)
        elif k == "conf":
            st = {"k": "confirm", "uns": bool(h["uns"]), "seq": h["seq"]}
            addressing(st, h)
            out.append(st)
        else:
            raise ValueError("unknown abstract step %r" % (h,))
    return out


def scenario(sid, hist, name, retries=1, unsol=True, meta=None):
    return {"id": sid, "cfg": harness_cfg(name, retries, unsol), "steps": steps_of(hist, name),
            "meta": dict(meta or {}, model=name, retries=retries)}
