"""C08: design check (assembler refines the property automaton for every segment stream, bounded), behaviours
replayed on the real transport reader, sweeps of the real writer and round trips, judged by Mon_C08."""
import json
import os
import random
import time

import vlib
from vlib import ToolError, log


def run(tier, replay=None):
    t0 = time.time()
    prop = "C08"
    wd = vlib.workdir("chk_C08")
    vlib.build_harness()
    rnd = random.Random(vlib.seed())
    cap_model = 3

    # 1. design: refinement for all streams up to MaxLen
    cfg = os.path.join(wd, "mc.cfg")
    vlib.write_cfg(cfg, "Spec", {"Cap": cap_model, "MaxLen": 6 if tier == "quick" else 8, "Small": False}, ["Refines", "Coupled"], view="View")
    r = vlib.model_check("MC_Transport.tla", cfg, workers=8, timeout=3000)
    if r["violated"]:
        raise ToolError("assembler model does not refine the property automaton: %s" % json.dumps(r["hist"]))

    # 2. behaviours: simulated segment streams of the model (cap 3, payload 1-2) replayed with cap=3?  the real
    # buffer minimum is 249 bytes, so payload sizes are scaled: n=1 -> 100 bytes, n=2 -> 149 bytes with cap 249+...
    # instead the real reader is configured with the smallest buffer (249) and sizes 1->83, 2->166 (3 units = 249)
    cfgs = os.path.join(wd, "sim.cfg")
    vlib.write_cfg(cfgs, "Spec", {"Cap": cap_model, "MaxLen": 14, "Small": False}, ["Export"])
    hists = vlib.simulate("MC_Transport.tla", cfgs, 100, 30, vlib.seed())
    cap_n = 600 if tier == "quick" else 8000
    if len(hists) > cap_n:
        hists = rnd.sample(hists, cap_n)
    # abstract-transition cover: every (assembler state, last three segments) over the reduced alphabet and every
    # (assembler state, last two segments) over the full one
    cover_n = 0
    for small, depth in ((True, 5), (False, 3 if tier == "quick" else 4)):
        cfgc = os.path.join(wd, "cover_%s.cfg" % ("small" if small else "full"))
        vlib.write_cfg(cfgc, "Spec", {"Cap": cap_model, "MaxLen": depth, "Small": small}, ["ExportAll"], view="CoverView")
        ch, n = vlib.cover("MC_Transport.tla", cfgc, workers=8)
        cover_n += n
        hists = ch + hists
    scen = []
    for i, h in enumerate(hists):
        steps = []
        for j, g in enumerate(h, 1):
            steps.append({"k": "seg", "fir": g["fir"], "fin": g["fin"], "seq": g["seq"], "src": g["src"],
                          "bc": g["bc"], "n": 83 * g["n"], "id": j})
        scen.append({"id": "sim_%d" % i, "cfg": {"cap": 249, "unit": 83}, "steps": steps, "meta": {"abs": h}})
    # writer sweep and round trips
    lens = sorted(set([1, 2, 248, 249, 250, 251, 497, 498, 499, 747, 996, 2047, 2048] +
                      ([rnd.randrange(1, 2049) for _ in range(40)] if tier == "quick" else list(range(1, 2049)))))
    scen.append({"id": "writer_sweep", "cfg": {"cap": 2048}, "steps": [{"k": "write", "len": n} for n in lens], "meta": {}})
    for cap in ([249, 2048] if tier == "quick" else [249, 250, 498, 1000, 2048]):
        steps = []
        for n in (lens if tier == "thorough" else rnd.sample(lens, min(25, len(lens)))):
            chunks = [rnd.choice([1, 2, 7, 10, 100, 291, 292, 293, 1000]) for _ in range(rnd.randrange(1, 6))]
            steps.append({"k": "rt", "len": n, "chunks": chunks})
        scen.append({"id": "rt_cap%d" % cap, "cfg": {"cap": cap}, "steps": steps, "meta": {}})
    if replay:
        with open(replay) as f:
            scen = [json.load(f)["scenario"]]
    log(prop, len(scen), "scenarios")
    raw, hangs = vlib.run_harness("transport", scen, "chk_C08")

    # the monitor's Cap is in the model's units for the simulated streams (n is scaled back) and in bytes for rt
    normp = os.path.join(wd, "trace.norm.ndjson")
    nlines = 0
    with open(raw) as fi, open(normp, "w") as fo:
        unit = 1
        for line in fi:
            rj = json.loads(line)
            k = rj.get("k")
            if k == "reset":
                unit = (rj.get("cfg") or {}).get("unit", 1)
                e = {"k": "reset", "id": str(rj.get("id"))}
            elif k == "seg":
                e = {"k": "seg", "fir": rj["fir"], "fin": rj["fin"], "seq": rj["seq"], "src": rj["src"], "bc": rj["bc"],
                     "n": rj["n"] // unit, "id": rj["id"],
                     "delivered": [{"src": d["src"], "bc": d["bc"], "parts": d["parts"], "len": d["len"] // unit}
                                   for d in rj.get("delivered", [])]}
            elif k == "write":
                e = {"k": "write", "len": rj["len"], "segs": [{"fir": s["fir"], "fin": s["fin"], "seq": s["seq"], "n": s["n"]}
                                                               for s in rj["segs"]], "same": rj["same"]}
            elif k == "rt":
                e = {"k": "rt", "len": rj["len"], "ok": rj["ok"], "fits": rj["fits"], "delivered": rj["delivered"]}
            else:
                e = {"k": k}
            fo.write(json.dumps(e, separators=(",", ":")) + "\n")
            nlines += 1
    mcfg = os.path.join(wd, "tm.cfg")
    vlib.write_cfg(mcfg, "TSpec", {"Cap": cap_model}, ["Done"])
    verdict = vlib.trace_run("TM_C08.tla", mcfg, normp, os.path.join(wd, "mon.json"))
    viols = [v for v in verdict["viol"] if v["prop"] == prop]
    rc = 0
    if viols:
        rc = 1
        rp_dir = os.path.join(vlib.ROOT, "replays")
        os.makedirs(rp_dir, exist_ok=True)
        first = viols[0]
        rp = os.path.join(rp_dir, "%s_%s.json" % (prop, vlib.sha([first["sc"], first["reason"]])))
        with open(rp, "w") as f:
            json.dump({"property": prop, "violation": first, "scenario": next((s for s in scen if s["id"] == first["sc"]), None),
                       "all": viols[:50]}, f, indent=1)
        print("VIOLATION property=%s replay=%s" % (prop, rp))
        for v in viols[:10]:
            log("violation", v)
    ok_scen = len(scen) - len({v["sc"] for v in viols})
    cov = {"states": r["distinct"], "transitions": r["generated"], "traces_validated_against_impl": ok_scen,
           "samples": [{"id": s["id"], "steps": s["steps"][:8]} for s in scen[:2] + scen[-1:]],
           "evaluations": sum(len(s["steps"]) for s in scen), "distinct_nontrivial": len({vlib.sha(s["steps"]) for s in scen}),
           "rule": "segment streams exported by TLC from MC_Transport (every stream over the alphabet is explored in the design check; "
                   "a seeded sample is replayed on the real reader with payload sizes scaled to the 249-byte minimum buffer), "
                   "writer sweep over fragment lengths, round trips writer -> re-chunked bytes -> reader for several buffer sizes",
           "writer_lengths": len(lens), "abstract_transition_cover_pairs": cover_n, "trace_lines": nlines, "monitor_violations": len(viols), "hangs": hangs,
           "exhaustive": False}
    vlib.write_evidence(prop, tier, "model_checking", cov,
                        ["segment alphabet of the design check: sequence window {62,63,0,1}, two sources, broadcast flag, two payload sizes, capacity 3",
                         "payload contents are identity markers chosen by the harness"],
                        time.time() - t0, len(viols))
    return rc
