"""Abstract inputs of Master.tla -> harness (mst mode) scenarios."""
import json

CONFIGS = {
    "quiet1": {"tla": "Cfg_quiet1", "assocs": [{"addr": 1024, "kind": "quiet"}]},
    "full1": {"tla": "Cfg_full1", "assocs": [{"addr": 1024, "kind": "full"}]},
    "quiet2": {"tla": "Cfg_quiet2", "assocs": [{"addr": 1024, "kind": "quiet"}, {"addr": 1025, "kind": "quiet"}]},
    "ka2": {"tla": "Cfg_ka2", "assocs": [{"addr": 1024, "kind": "ka"}, {"addr": 1025, "kind": "quiet"}]},
    "tsync1": {"tla": "Cfg_tsync1", "assocs": [{"addr": 1024, "kind": "full", "tsync": "nonlan"}]},
    "tlan1": {"tla": "Cfg_tlan1", "assocs": [{"addr": 1024, "kind": "full", "tsync": "lan"}]},
    "noclock1": {"tla": "Cfg_noclock1", "assocs": [{"addr": 1024, "kind": "quiet"}], "noclock": True},
    "tnoclock1": {"tla": "Cfg_tnoclock1", "assocs": [{"addr": 1024, "kind": "full", "tsync": "nonlan"}], "noclock": True},
    "quiet3": {"tla": "Cfg_quiet3", "assocs": [{"addr": 1024, "kind": "quiet"}, {"addr": 1025, "kind": "quiet"},
                                               {"addr": 1026, "kind": "quiet"}]},
}


def assoc_cfg(a):
    base = {"addr": a["addr"], "response_timeout": 1000, "retry_min": 1000, "retry_max": 4000, "max_queue": 2}
    if a["kind"] in ("quiet", "ka"):
        base.update({"disable_unsol": [False] * 3, "enable_unsol": [False] * 3, "integrity": [False] * 4,
                     "integrity_on_overflow": False, "event_scan": [False] * 3})
        if a["kind"] == "ka":
            base["keep_alive"] = 3000
    else:
        base.update({"disable_unsol": [True] * 3, "enable_unsol": [True] * 3, "integrity": [True] * 4,
                     "integrity_on_overflow": True, "event_scan": [False] * 3})
        if a.get("tsync"):
            base["auto_time_sync"] = a["tsync"]
    return base


def harness_cfg(name):
    cfg = {"maddr": 1, "assocs": [assoc_cfg(a) for a in CONFIGS[name]["assocs"]], "enabled": True}
    if not CONFIGS[name].get("noclock"):
        cfg["time_base"] = 1600000000000
    return cfg


# one-header CROB command with a one-byte index: objects = 0c 01 17 01 <ix> <code> <count> <on x4> <off x4> <status>
BAD_ECHOES = [
    {"status": 4},                                              # status NOT_SUPPORTED
    {"append": "0c011701090101640000006400000000"},            # an extra, unrequested header
    {"xor_at": 4, "xor": 1},                                    # another index
    {"xor_at": 7, "xor": 1},                                    # another on-time
    {"xor_at": 5, "xor": 2},                                    # another control code
    {"status": 1},                                              # status TIMEOUT
]

IIN_KEYS = {"c1": "c1", "c2": "c2", "c3": "c3", "time": "time", "rst": "rst", "ovf": "ovf", "err": "param"}


def steps_of(hist, name):
    addrs = [a["addr"] for a in CONFIGS[name]["assocs"]]

    def addr(i):
        return addrs[i - 1] if 1 <= i <= len(addrs) else 999
    out = []
    nbad = [0]
    salt = sum(len(json.dumps(h)) for h in hist)
    for h in hist:
        k = h["k"]
        if k in ("conn", "cut", "enable", "disable"):
            out.append({"k": k})
        elif k == "adv":
            out.append({"k": "adv", "dt": h["dt"]})
        elif k == "req":
            m = h["m"]
            if m["k"] == "task":
                t = m["task"]
                st = {"k": "req", "id": t.get("id", 0), "assoc": addr(m["a"])}
                if t["t"] == "uread":
                    st.update({"kind": "read", "classes": [True, True, True, True]})
                elif t["t"] == "cmd":
                    st.update({"kind": "cmd", "mode": t["mode"], "objs": [{"t": "crob", "ix": 3 if t["ob"] == "a" else 4}],
                               "tag": {"ob": t["ob"]}})
                elif t["t"] == "restart":
                    st.update({"kind": "restart"})
                elif t["t"] == "link":
                    st.update({"kind": "link_status"})
                elif t["t"] == "empty":
                    st.update({"kind": "empty", "fc": 20})
                elif t["t"] == "time":
                    st.update({"kind": "time", "proc": t["proc"]})
                else:
                    raise ValueError(t)
                out.append(st)
            elif m["k"] == "poll_add":
                out.append({"k": "req", "id": m["id"], "assoc": addr(m["a"]), "kind": "poll_add", "pid": m["pid"],
                            "period": m["period"], "classes": [False] + [bool(((m["pid"] % 7) + 1) >> i & 1) for i in range(3)]})
            elif m["k"] == "poll_demand":
                out.append({"k": "req", "id": m["id"], "assoc": addr(m["a"]), "kind": "poll_demand", "pid": m["pid"]})
            elif m["k"] == "remove":
                out.append({"k": "req", "id": m["id"], "assoc": addr(m["a"]), "kind": "assoc_remove"})
            else:
                raise ValueError(m)
        elif k == "rx":
            f = h["f"]
            if f["fc"] == -1:
                out.append({"k": "lrx", "ctrl": 0x0B, "src": addr(f["src"])})
                continue
            st = {"k": "rx", "fn": "unsol" if f["fc"] == 130 else "response", "seq": f["seq"], "fir": f["fir"],
                  "fin": f["fin"], "con": f["con"], "uns_bit": f["uns"], "src": addr(f["src"]),
                  "iin": {IIN_KEYS[x]: True for x in f["iin"]}, "tag": {"body": f["body"]}}
            b = f["body"]
            if b == "data":
                hv = f.get("hash", 0) % 200
                st["hdrs"] = [{"g": 1, "v": 2, "q": 0, "start": hv % 7, "stop": hv % 7, "data": "%02x" % (0x01 | (0x80 if hv % 2 else 0))}]
            elif b == "echo":
                st["echo"] = True
            elif b == "badecho":
                # a reply that differs from the faithful echo in one respect: status, an extra header, a field of the
                # object, the index, a missing trailing byte is "bad" (unparsable), not this class
                st["echo"] = True
                nbad[0] += 1
                st["mutate"] = BAD_ECHOES[(nbad[0] + salt) % len(BAD_ECHOES)]
            elif b == "g52":
                st["hdrs"] = [{"g": 52, "v": 2, "q": 7, "count": 1, "data": "0a00"}]
            elif b == "g52z":
                st["hdrs"] = [{"g": 52, "v": 2, "q": 7, "count": 1, "data": "0000"}]
            elif b == "bad":
                st["hdrs"] = [{"raw": "016306"}]
            elif b == "hdrbad":
                st["raw_app"] = "%02x700000" % (0xC0 | f["seq"])     # unknown function code 0x70
            out.append(st)
        else:
            raise ValueError(h)
    return out


def scenario(sid, hist, name, meta=None):
    return {"id": sid, "cfg": harness_cfg(name), "steps": steps_of(hist, name), "meta": dict(meta or {}, model=name)}
