"""control requests whose echo outgrows the solicited transmit buffer: the outstation must cut the echo at an object
boundary, patch the count and still transmit a fragment that parses cleanly (C09, C12)"""
import struct

ITEMS = {  # (group, variation) -> item bytes without the index prefix
    (12, 1): bytes([3, 1]) + struct.pack("<II", 100, 100) + b"\x00",
    (41, 1): struct.pack("<i", 1000) + b"\x00",
    (41, 2): struct.pack("<h", 1000) + b"\x00",
    (41, 3): struct.pack("<f", 1.5) + b"\x00",
    (41, 4): struct.pack("<d", 2.5) + b"\x00",
}


def header(g, v, wide, count):
    body = bytes([g, v, 0x28 if wide else 0x17]) + (struct.pack("<H", count) if wide else bytes([count]))
    for i in range(count):
        body += (struct.pack("<H", i) if wide else bytes([i])) + ITEMS[(g, v)]
    return body.hex()


def scenarios(tier):
    out = []
    bufs = [249, 250, 251, 252] if tier == "quick" else list(range(249, 262))
    n = 0
    for (g, v), item in sorted(ITEMS.items()):
        for wide in (False, True):
            sz = len(item) + (2 if wide else 1)
            for buf in bufs:
                # one object more than fits, and a request about twice as large as the buffer
                for count in sorted({(buf - 8) // sz + 1, min(2 * buf // sz, 200)}):
                    for fn in (("select", "direct_operate") if tier == "thorough" else ("select" if n % 2 else "direct_operate",)):
                        out.append({
                            "id": "bigecho_g%dv%d_%s_%d_%d_%s" % (g, v, "w" if wide else "n", buf, count, fn),
                            "cfg": {"sol_buf": buf, "unsol_buf": 249, "confirm_to": 1000, "select_to": 1000, "retry_delay": 2000,
                                    "max_retries": 1, "unsol": False, "evmax": [0] * 8, "class_zero": [True] * 8, "points": [],
                                    "keep_alive": None, "app": {"ctl_default": 0}, "max_controls": 200},
                            "steps": [{"k": "conn"},
                                      {"k": "rx", "fn": fn, "seq": 1, "hdrs": [{"raw": header(g, v, wide, count)}], "tag": {"cls": "ok"}},
                                      {"k": "rx", "fn": "read", "seq": 2, "hdrs": [{"g": 60, "v": 1, "q": 6}]}],
                            "meta": {"src": "bigecho"}})
                        n += 1
    return out
