#!/usr/bin/env python3
"""regenerates /verif/MANIFEST.json from the table below"""
import json, subprocess

PROPS = [json.loads(l)["id"] for l in open("/verif/properties.jsonl")]

OST_NOTE = ("Trusted: TLC; the TLA+ modules (Outstation.tla, EvLedger.tla, Mon_%s.tla); the harness codec (independent of dnp3) and "
            "tokio's paused clock. Bounded constants in the design check (2 points, <=3 updates, depth 5 quick / 6 thorough (events), 4 / 5 (controls)); "
            "conformance and monitor verdicts hold for the executed scenarios only.")

CLAIMS = {
 "C03": dict(text="Design check: TLC explores every interleaving (bounded) of updates, class/limited READs, unsolicited series, right/wrong confirms, "
                  "timeouts, enable/disable, reconnects on Outstation.tla with the event ledger Mon_C03 in lock-step. Binding: TLC-generated behaviours are "
                  "replayed on the production stack over an in-memory pipe with a paused clock; every recorded trace is judged by Mon_C03 (TLC trace validation) "
                  "and validated line by line against Outstation.tla (fragments, IIN, callbacks, times).",
             ref="§7 C03", technique="TLA+ model checking (TLC) + trace validation of replayed behaviours"),
 "C13": dict(text="Same model and traces as C03; Mon_C13 recomputes every IIN bit of every non-re-sent response from the ledger (events in flight, overflow latch, "
                  "restart latch, broadcast latch, application bits) and compares.",
             ref="§7 C13", technique="TLA+ model checking (TLC) + trace validation of replayed behaviours"),
 "C05": dict(text="Mon_C05 (no re-execution of a retransmitted request, echo identical, every re-sent fragment equals one sent before) in lock-step with Outstation.tla "
                  "whose abstract transmit buffers make 'stored header + current buffer' explicit; replayed behaviours validated by TLC.",
             ref="§7 C05", technique="TLA+ model checking (TLC) + trace validation of replayed behaviours"),
 "C14": dict(text="Mon_C14 (null phase, enabled classes, one outstanding, retry count, retry delay, disable, deferred READ answered, other requests answered at once) in lock-step "
                  "with Outstation.tla; time is an input (Advance to each timer +5 ms / small steps); replayed behaviours validated by TLC.",
             ref="§7 C14", technique="TLA+ model checking (TLC) + trace validation of replayed behaviours"),
 "C04": dict(text="Outstation.tla models SELECT/OPERATE/DIRECT_OPERATE with the code's SelectState (sequence, fragment id, object hash, age) and every other fragment kind in between "
                  "(confirms, READs, other masters, broadcasts, rejected fragments, retransmissions), time advanced around the select timeout, reconnects; Mon_C04 derives must / must-not "
                  "from the received-fragment window and compares with ControlHandler callbacks and echoed statuses. Replayed behaviours validated by TLC.",
             ref="§7 C04", technique="TLA+ model checking (TLC) + trace validation of replayed behaviours"),
 "C07": dict(text="Application half: fragments from another master / by broadcast / malformed in every session state on Outstation.tla with Mon_C07 (nothing executed for foreign masters, nothing "
                  "transmitted in reply to a broadcast). The link-layer half (frame addressing, secondary station) is added with the link model.",
             ref="§7 C07", technique="TLA+ model checking (TLC) + trace validation of replayed behaviours"),
 "C11": dict(text="Mon_C11 mirrors the database from the update calls, snapshots it when the answer to a READ starts and checks the whole fragment series (exactly-once, snapshot values, variation, "
                  "FIR/FIN/SEQ/CON, next fragment only after the matching confirm, series ended by new request/timeout/disconnect) in lock-step with Outstation.tla (frozen copies, selection queue, byte budget); "
                  "replayed behaviours validated by TLC.",
             ref="§7 C11", technique="TLA+ model checking (TLC) + trace validation of replayed behaviours"),
 "C12": dict(text="Mon_C12 pairs every transmitted fragment with its trigger (sequence correlation incl. deferred READs and series, UNS bit, unsolicited shape and numbering, no-reply functions, size, "
                  "well-formedness by the independent codec, rejected requests answered with an IIN2 error) in lock-step with Outstation.tla over its input alphabets (events, controls and addressing, freeze / time / broadcast-allowed functions); control requests whose echo outgrows the transmit buffer are executed as well; replayed behaviours validated by TLC.",
             ref="§7 C12", technique="TLA+ model checking (TLC) + trace validation of replayed behaviours"),
 "C06": dict(text="Link.tla models the frame reader at the level of abstract bytes (start-byte classes, frame identity/offset, corruption) exactly as Parser/Reader are written (state carried across reads, "
                  "discard-mode rollback, datagram reset); TLC checks soundness and chunk-independence against the leftmost-first reference scan for every stream of <=4-5 pieces and every split into reads, in three reader modes. "
                  "TLC-exported (stream, split) pairs - and 45-frame streams through a one-frame read buffer in equal reads of many sizes - are concretised with random fields and replayed on the real link::layer::Layer over a pipe; Mon_C06 judges deliveries, Trace_Link validates them read by read; bit-error sweeps run in bulk.",
             ref="§7 C06", technique="TLA+ model checking (TLC) + trace validation of replayed behaviours",
             note="Trusted: TLC, Link.tla's abstraction of CRC validity (no accidental collisions; the concretiser re-draws with its own CRC), the harness codec. Frame kinds in the design check: header-only and one short block; lengths 0..250 and contents are swept/sampled by the harness."),
 "C08": dict(text="Transport.tla holds the assembler as built and the property as an automaton over the same segment stream; TLC checks step-wise refinement for every stream over the alphabet (sequence window around the 6-bit wrap, "
                  "two sources, broadcast, sizes reaching the buffer limit). Simulated streams are replayed on the real transport reader, the real writer is swept over fragment lengths and round trips run through re-chunked bytes; Mon_C08 (the same automaton) judges.",
             ref="§7 C08", technique="TLA+ model checking (TLC, refinement) + trace validation of replayed behaviours",
             note="Trusted: TLC, the harness codec (reference segmenter/reassembler). Bounded stream length in the design check (6 quick / 8 thorough); payload sizes scaled to the 249-byte minimum buffer in replay."),
}

MST_NOTE = ("Trusted: TLC; the TLA+ modules (Master.tla, MasterEv.tla, Mon_%s.tla, MMonBase.tla); the harness codec (independent of dnp3), the scenario "
            "concretiser's classification of replies (faithful echo / mismatching echo / data / malformed) and tokio's paused clock. Bounded constants in the "
            "design check (1-2 associations, <=2-3 user requests, depth 6 quick / 8 thorough); conformance and monitor verdicts hold for the executed scenarios only. "
            "Time-synchronisation and file-transfer tasks are not in Master.tla.")
MST_TECH = "TLA+ model checking (TLC) + trace validation of replayed behaviours"
CLAIMS.update({
 "C15": dict(text="Master.tla is the master session as written (scheduler, task loop, response validation, unsolicited handling); TLC offers at every step every kind of fragment (right / wrong sequence, "
                  "foreign source, every FIR/FIN/CON shape, IIN2 rejection, malformed objects, unparsable header, unsolicited with repeats) for every kind of outstanding task and with none, with Mon_C15 in "
                  "lock-step: it decides from the wire alone whether a fragment answers the outstanding request and compares with handler deliveries, completions and confirms. TLC-generated behaviours "
                  "(abstract-transition cover + simulation) are replayed on the production master over an in-memory pipe; every trace is judged by Mon_C15 and validated line by line against Master.tla.",
             ref="§7 C15", technique=MST_TECH, note=MST_NOTE % "C15"),
 "C16": dict(text="Mon_C16 follows user requests, their completions, the request on the wire and the class of every reply (faithful echo only when byte-identical with status SUCCESS): success only on the "
                  "faithful final reply, OPERATE only after a faithful SELECT echo with next sequence and same objects, corresponding errors, exactly one outcome, at once when not queueable, on the line of a "
                  "disconnect / disable, and within the response timeouts of the steps ahead. Lock-step with Master.tla in TLC; replayed behaviours validated by TLC.",
             ref="§7 C16", technique=MST_TECH, note=MST_NOTE % "C16"),
 "C17": dict(text="Mon_C17 keeps the open start-up obligations per association (clear restart < disable unsolicited < integrity < enable unsolicited), re-armed by the restart indication of any processed "
                  "response, and checks task order, polls only after all obligations, gating of unsolicited data, confirmation of empty unsolicited responses and the back-off schedule of failed automatic tasks; "
                  "TLC explores responses good / rejected / malformed / absent with every indication, unsolicited traffic, reconnects and timer expiries on Master.tla; replayed behaviours validated by TLC.",
             ref="§7 C17", technique=MST_TECH, note=MST_NOTE % "C17"),
 "C19": dict(text="Mon_C19 keeps the accepted user requests, the earliest next run of every poll, link activity per association and the outstanding request; TLC explores two associations with polls of different "
                  "periods, demands, user requests, link status checks, keep-alive, late / absent responses and reconnects on Master.tla (fifo, requests before polls, poll cadence and non-starvation, turns, "
                  "keep-alive only after silence, one outstanding request, no spinning = the harness watchdog); replayed behaviours validated by TLC.",
             ref="§7 C19", technique=MST_TECH, note=MST_NOTE % "C19"),
})

CLAIMS["C09"] = dict(level="other",
    text="AppCodec.tla is the object-header grammar as a table (size / packing of every supported group and variation, bytes implied by qualifier and count or range, per function class) with the "
         "operators Verdict / ExpCount; TLC enumerates the product space from MC_AppCodec.tla (every known variation and some unknown x every qualifier and some undefined x boundary counts and ranges incl. 0, 255, 256, "
         "65535 and ranges ending at 65535 x READ / non-READ request / response x {one byte short, exact, one byte long}, plus pairs of headers: 48.8 k cases); the harness builds each case into bytes and asks the "
         "library's ParsedFragment::parse, to_request / to_response, the lazy iterators at every decode level and the master's extraction; Mon_C09 (TLC trace validation) compares with the table. Every fragment the real "
         "outstation and master transmit in model-generated scenarios (incl. multi-fragment static databases and control echoes that outgrow the transmit buffer) is additionally parsed by the library in the peer's role and compared with the harness codec. Device attributes (AttrType) and free-format group 70 objects (FfVerdict: declared length against the size the object implies) are enumerated the same way.",
    ref="§7 C09", technique="TLA+ table specification enumerated by TLC + trace validation of the parser's answers",
    note="Not a transition system: TLC is used as enumerator and as evaluator of the reference operators (the case-analysis use of TLA+). Trusted: AppCodec.tla (a transcription of the IEEE 1815 object library made for this check), "
         "the harness codec. Object contents are random bytes (value fidelity is C10); free-format g70 and attribute g0 objects are not enumerated; quick runs a seeded third of the cases that are neither must-accept nor end-of-range.")

CLAIMS["C10"] = dict(level="other",
    text="Values.tla states what every static and event variation can carry of a measurement (width, flag octet, absolute / relative time, packing) and the conversions as finite tables over boundary value "
         "tokens (saturation with OVER_RANGE, low 16 bits of counters, promotion of packed formats unless plainly ONLINE, flags proper vs state bits, time and time quality). TLC enumerates from MC_Values.tla every "
         "type x configured static variation x event variation x value token x flag octet (time tokens cycled) and every 3-event sequence over the relative-time boundary tokens with both time qualities; each case is "
         "written into the real outstation database, read back by a class poll through the real outstation, the response is run through the master's extraction, and Mon_C10 (TLC trace validation) compares what the "
         "handler would receive with Values.tla (index, value, flags, time, variation used on the wire).",
    ref="§7 C10", technique="TLA+ table specification enumerated by TLC + trace validation of database-to-handler round trips",
    note="Not a transition system: TLC enumerates the cases and evaluates the reference operators on the recorded round trips. Values are boundary tokens, not all bit patterns (TLC has no floats and 32-bit integers); "
         "Values.tla is a transcription of the IEEE 1815 object library made for this check; octet strings and frozen analog inputs are not covered; quick runs every value plan and a seeded half of the relative-time sequences.")

CLAIMS["C01"] = dict(level="other",
    text="State-complete, input-sampled exploration. Session states: every prefix position of the behaviours of the abstract-transition covers of Outstation.tla (event and control alphabets) and Master.tla "
         "(TLC breadth-first under the CoverView abstraction) - idle, solicited / unsolicited confirm waits, mid series, mid task of each kind. Hostile input: the product space of Hostile.tla enumerated by TLC "
         "(link-level noise, damaged / lying / truncated frames, transport garbage, application fragments of every function code incl. the other role's and undefined ones with every FIR/FIN/CON/UNS shape, object "
         "headers from the AppCodec enumeration, maximum-size and end-of-range requests) x chunkings, with seeded bytes; decode level and link error mode cycled. After the stimulus a probe (link status request, fresh "
         "READ / user request and its answer, on the same or - after a close - a new connection). Mon_C01 (TLC trace validation) rejects panics, watchdog hangs, ended tasks, unanswered probes and sessions closed in "
         "discard mode; a READ repeated faster than any session timer must be answered while the repetitions go on (stalled).",
    ref="§7 C01", technique="TLA+ specifications as generators (state cover by TLC, hostile class product by TLC) + trace validation of executions on the real endpoints",
    note="TLC says nothing about byte strings it never names: the bytes of a stimulus class are seeded random draws (exhaustive:false). Trusted: the harness (pipes, paused clock, watchdog). Not varied: rx buffer sizes other "
         "than the defaults; the TCP / serial / TLS physical layers are replaced by an in-memory pipe.")

CLAIMS["C18"] = dict(
    text="TimeSync.tla models the two procedures step by step on both sides (master/tasks/time.rs states, the outstation's delay-measure / record-current-time / write handlers) over a channel with one-way delays, the "
         "outstation's real and reported processing delay, the distance of the master's clock from 2^48-1, an application that still needs time and replies with unexpected objects; TLC checks the accuracy bound and "
         "the success / failure classification for every parameter set of MC_TimeSync (delays 0 .. 70000 ms, equal and asymmetric). Every parameter set is then executed: honest ones by the real master against the real "
         "outstation through a byte-forwarding proxy with scripted virtual delays (harness pair mode), lying / malformed ones by the real master against scripted replies. Mon_C18 (TLC trace validation) compares the time "
         "handed to OutstationApplication::write_absolute_time with the master's clock at that virtual instant, the reported outcome with the statement, and both with the prediction of TimeSync.tla for the delays observed. "
         "The outstation's side of the LAN procedure is additionally run over every history of RECORD_CURRENT_TIME / byte-identical repetition / pause / WRITE g50v3 up to length 5 (LanExpect).",
    ref="§7 C18", technique="TLA+ model checking (TLC) + trace validation of replayed parameter sets (paired master and outstation)",
    note="Trusted: TLC, TimeSync.tla, the harness proxy and tokio's paused clock. Delays from a boundary set, not all of 0..65535+; the outstation's processing time is applied by the proxy to the reply that reports it; "
         "unrelated traffic interleaved with the procedure is not generated; 3 ms of slack for the harness's settle steps.")

CLAIMS["C02"] = dict(
    text="System.tla composes master, channel and outstation at the level of the data that flows: database versions, the event buffer with written / unwritten marks and overflow, fragments and confirms in flight, "
         "unsolicited reporting, cuts that lose what is in flight, reconnects with the integrity poll, late timeouts. TLC checks the safety invariants (nothing fabricated or cross-wired, no event released before "
         "it was received, static values never go backwards) and, under weak fairness of the system's actions, the two liveness properties (after the environment stops every point's current value and every event not "
         "discarded reach the handler). TLC-generated behaviours of the environment in three configurations (unsolicited and polls, polls only, unsolicited reporting alone - PollOnlyOnConnect, where the picture must be complete before any further poll), plus directed behaviours (cuts while a fragment is in flight, answers later than the time-outs, updates of every class after the start-up handshake), are replayed on the real master and the real outstation connected through a proxy "
         "with seeded one-way delays up to beyond the response and confirm time-outs, re-chunking and cuts (harness pair mode); a sample of the same behaviours also runs on the library's real TCP client and server over the loopback interface with the multi-threaded runtime and the real clock (harness sock mode). Mon_C02 (TLC trace validation) judges the S-trace: every value the ReadHandler received against the update history, convergence and "
         "event completeness at the end.",
    ref="§7 C02", technique="TLA+ model checking with liveness (TLC) + trace validation of replayed behaviours (paired master and outstation)",
    note="Trusted: TLC, System.tla (abstracts the protocol to versions, fragments and confirms; bounded constants: 2 points, <= 3 updates, <= 2 cuts, capacity 1-2), the harness proxy. Most executions use in-memory pipes and a current-thread runtime with a paused clock (exact control of what is in flight); the real TCP stack and multi-threaded scheduling are exercised by the "
         "socket sample only, with whatever OS-thread schedules occur. "
         "Analog input points only; commands are not part of the scenarios.")

def main():
    head = subprocess.run(["git", "-C", "/repo", "log", "--format=%h %s"], capture_output=True, text=True).stdout.splitlines()
    hooks = [l.split()[0] for l in head if "verif hooks" in l]
    checks = []
    for p in PROPS:
        if p not in CLAIMS:
            continue
        c = CLAIMS[p]
        checks.append({
            "property_id": p,
            "quick_cmd": "bin/check %s --tier quick" % p,
            "thorough_cmd": "bin/check %s --tier thorough" % p,
            "evidence_file": "/verif/evidence/%s.json" % p,
            "replay_cmd_template": "bin/check %s --replay {path}" % p,
            "engine": "tlc+harness",
            "level_claimed": {"category": c.get("level", "model_checking"), "text": c["text"], "design_ref": c["ref"]},
            "level_note": c.get("note", OST_NOTE % p),
            "technique": c["technique"],
        })
    na = [{"property_id": p, "reason": NA.get(p, "check not built yet (work in progress)")} for p in PROPS if p not in CLAIMS]
    m = {"version": 1,
         "setup_cmd": "cd /verif/harness && cargo build --offline 2>&1 | tail -2 && cd /verif/spec && for f in Trace_Outstation.tla TM_C03.tla TM_C04.tla TM_C06.tla TM_C07L.tla TM_C08.tla Trace_Link.tla TM_C05.tla TM_C07.tla TM_C11.tla TM_C12.tla TM_C13.tla TM_C14.tla Trace_Master.tla TM_C02.tla TM_C01.tla TM_C09.tla TM_C10.tla TM_C18.tla TM_C15.tla TM_C16.tla TM_C17.tla TM_C19.tla; do tla-sany $f > /dev/null || exit 1; done",
         "hooks": {"guard": "dnp3_verif",
                   "enable": "rustflags --cfg dnp3_verif in /verif/harness/.cargo/config.toml (the harness crate has a path dependency on /repo/dnp3, default-features off)",
                   "baseline_off_cmd": "cd /repo && cargo test --workspace --no-fail-fast --offline",
                   "source_commits": hooks, "add_only": True},
         "engines": [
             {"name": "tlc-mc", "path": "/verif/spec", "serves_properties": sorted(CLAIMS), "kind_free_text": "TLA+ specifications + TLC model checking / simulation (design check, behaviour generation)"},
             {"name": "harness", "path": "/verif/harness", "serves_properties": sorted(CLAIMS), "kind_free_text": "Rust scenario runner on the production dnp3 stack (shim /verif/shim compiled into dnp3 under --cfg dnp3_verif), independent codec, paused tokio clock"},
             {"name": "tlc-trace", "path": "/verif/spec", "serves_properties": sorted(CLAIMS), "kind_free_text": "TLC trace validation: monitors Mon_Cxx (decide) and Trace_* (conformance to the implementation-shaped spec)"}],
         "checks": checks,
         "notes": "bin/check exits 2 on tool failure (never a VIOLATION line). known_findings.json lists genuine defects; see DESIGN.md.",
         "not_applicable": na}
    json.dump(m, open("/verif/MANIFEST.json", "w"), indent=1)
    print("claimed", sorted(CLAIMS), "not claimed", [x["property_id"] for x in na])

NA = {"C20": "stateless enum-to-enum tables in the FFI layer: no state, transition or history to specify; a TLA+ model would be a second copy of the same table (DESIGN.md §10)"}

if __name__ == "__main__":
    main()
