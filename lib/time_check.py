"""C18: TimeSync.tla over boundary parameters (design check), each parameter set executed end to end - the real master
against the real outstation through the delaying proxy (pair mode) for honest runs, the real master against scripted
replies (mst mode) for lying / malformed outstations - and judged by Mon_C18 with TimeSync.tla's prediction."""
import json
import os
import random
import time

import mconc
import vlib
from vlib import ToolError, log

MAXT = 2 ** 48 - 1
BASE = 1600000000000
BIGROOM = 2000000000


T_START = 12    # virtual time at which the scenarios start the procedure (conn + adv 10 + settle)


def base_of(c):
    """the master's clock at virtual time 0: `room` is counted from the start of the procedure"""
    return BASE if c["room"] >= BIGROOM else MAXT - c["room"] - T_START


def master_cfg(c):
    cfg = mconc.harness_cfg("quiet1")
    cfg["time_base"] = base_of(c)
    for a in cfg["assocs"]:
        a["response_timeout"] = 400000
    return cfg


def pair_scenario(sid, c):
    ocfg = {"unsol": False, "points": [],
            "app": {"need_time": True, "clear_need_time": not c["keep"], "processing_delay": c["pRep"]}}
    total = 3 * (c["fwd"] + c["back"]) + c["pAct"] + 100
    steps = [{"k": "conn"}, {"k": "adv", "dt": 10},
             {"k": "delay", "fwd": c["fwd"], "back": c["back"], "back_once": c["pAct"] if c["proc"] == "nonlan" else 0},
             {"k": "m", "step": {"k": "req", "id": 1, "assoc": 1024, "kind": "time", "proc": c["proc"]}, "tag": {"start": True}},
             {"k": "adv", "dt": total}]
    return {"id": sid, "cfg": {"ost": ocfg, "mst": master_cfg(c)}, "steps": steps, "meta": {"c": c, "mode": "pair"}}


JUNK = {"g": 1, "v": 2, "q": 0, "start": 0, "stop": 0, "data": "01"}


def mst_scenario(sid, c):
    """the harness plays the outstation: replies scripted, delays as advances of the virtual clock"""
    steps = [{"k": "conn"}, {"k": "adv", "dt": 10},
             {"k": "req", "id": 1, "assoc": 1024, "kind": "time", "proc": c["proc"], "tag": {"start": True}}]
    first = []
    if c["proc"] == "nonlan":
        d = "%02x%02x" % (c["pRep"] & 0xFF, c["pRep"] >> 8)
        first.append({"g": 52, "v": 2, "q": 7, "count": 2, "data": d + d} if c["junk"] == 3 else
                     {"g": 52, "v": 2, "q": 7, "count": 1, "data": d})
    if c["junk"] == 1:
        first.append(JUNK)
    steps.append({"k": "adv", "dt": c["fwd"] + c["pAct"] + c["back"]})
    steps.append({"k": "rx", "fn": "response", "src": 1024, "hdrs": first, "tag": {"reply": 1}})
    steps.append({"k": "adv", "dt": c["fwd"] + c["back"]})
    second = [JUNK] if c["junk"] == 2 else []
    steps.append({"k": "rx", "fn": "response", "src": 1024, "hdrs": second, "iin": {"time": bool(c["keep"])}, "tag": {"reply": 2}})
    steps.append({"k": "adv", "dt": 10})
    return {"id": sid, "cfg": master_cfg(c), "steps": steps, "meta": {"c": c, "mode": "mst"}}


def lan_scenario(sid, ops):
    """the harness plays the master towards the real outstation: a history of RECORD_CURRENT_TIME, repetitions,
    WRITE g50v3 and pauses (ost mode, paused clock)"""
    import concretize
    hist, seq, last = [{"k": "conn"}], 0, None
    for op in ops:
        if op in ("A1", "A2"):
            hist.append({"k": "adv", "dt": 20 if op == "A1" else 60000})
        elif op == "Rr":
            hist.append(dict(last, rep=True))
        else:
            last = {"k": "req", "f": "record" if op == "R" else "wtlast", "seq": seq, "cl": [], "rep": False}
            seq = (seq + 1) % 16
            hist.append(last)
    sc = concretize.scenario(sid, hist, "os2_cap1", 1, unsol=False, meta={"ops": ops, "mode": "lan"})
    return sc


def lan_events(raw, by_id):
    out, cur, ops, i = [], None, None, 0
    with open(raw) as f:
        for line in f:
            r = json.loads(line)
            if r.get("k") == "reset":
                if cur:
                    out.append(cur)
                sc = by_id.get(r.get("id"))
                cur = None if sc is None else {"k": "lan", "id": sc["id"], "ops": []}
                ops = sc["meta"]["ops"] if sc else None
                i = -1          # the first step is the connection
                continue
            if cur is None:
                continue
            if i >= 0 and i < len(ops):
                wt = -1
                for cb in r.get("cb", []):
                    if cb[1] == "app" and cb[2] == "write_time":
                        wt = num(cb[3])
                cur["ops"].append({"op": ops[i], "t": r.get("t", 0), "wt": wt})
            i += 1
    if cur:
        out.append(cur)
    return out


KNOWN_RES = ["BadOutstationTimeDelay", "StillNeedsTime", "Overflow", "RejectedByIin2", "UnexpectedResponseHeaders",
             "ResponseTimeout", "SystemTimeNotAvailable", "ClockRollback"]


def res_name(d):
    if d == "ok":
        return "ok"
    for k in KNOWN_RES:
        if k in d:
            return k
    return d


def num(v):
    if isinstance(v, (int, float)):
        return int(v)
    s = str(v)
    return int(s[2:]) if s[:2] == "n:" else int(s)


def run(tier, replay=None):
    t0 = time.time()
    prop = "C18"
    wd = vlib.workdir("chk_C18")
    vlib.build_harness()
    # 1. design check and parameter sets
    cfg = os.path.join(wd, "mc.cfg")
    vlib.write_cfg(cfg, "Spec", {}, ["InvAccurate", "InvFailsWhenItMust", "InvFailsOnBadDelay", "InvSucceedsOtherwise", "ExportAll"])
    rc, out = vlib._tlc(["-workers", "4", "-config", cfg, "MC_TimeSync.tla"], timeout=1500)
    import re
    m = re.search(r"(\d+) states generated, (\d+) distinct states found", out)
    if "No error has been found" not in out:
        raise ToolError("TimeSync.tla violates its own invariants: " + "; ".join(l for l in out.splitlines() if "rror" in l[:60] or "violated" in l)[:500])
    params, lan_hists = [], []
    for line in out.splitlines():
        mm = re.search(r'<<"SCENARIO", "(.*)">>', line.strip())
        if mm:
            params.append(json.loads(vlib.tla_unescape(mm.group(1))))
        mm = re.search(r'<<"LAN", "(.*)">>', line.strip())
        if mm:
            lan_hists.append(json.loads(vlib.tla_unescape(mm.group(1))))
    total = len(params)
    rnd = random.Random(vlib.seed())
    params.sort(key=lambda p: json.dumps(p["c"], sort_keys=True))
    if tier == "quick":
        small = [p for p in params if max(p["c"]["fwd"], p["c"]["back"]) <= 501]
        big = [p for p in params if max(p["c"]["fwd"], p["c"]["back"]) > 501]
        params = small + rnd.sample(big, min(len(big), 300))
    lan_replay = None
    if replay:
        with open(replay) as f:
            case = json.load(f)["case"]
        if "lan_ops" in case:
            params, lan_replay = [], case["lan_ops"]
        else:
            params = [{"c": case}]
    pair, mst = [], []
    for i, p in enumerate(params):
        c = p["c"]
        honest = c["pRep"] == c["pAct"] and c["junk"] == 0
        if honest:
            pair.append(pair_scenario("ts_p_%d" % i, c))
        if not honest or i % 4 == 0:
            mst.append(mst_scenario("ts_m_%d" % i, c))
    log(prop, len(pair), "paired scenarios,", len(mst), "scripted-outstation scenarios of", total, "parameter sets")
    praw, ph = vlib.run_harness("pair", pair, "chk_C18/pair") if pair else (None, 0)
    mraw, mh = vlib.run_harness("mst", mst, "chk_C18/mst") if mst else (None, 0)
    if lan_replay:
        lan = [lan_scenario("lan_0", lan_replay)]
    else:
        lan = [] if replay else [lan_scenario("lan_%d" % i, h) for i, h in enumerate(sorted(lan_hists))]
    lraw, lh = vlib.run_harness("ost", lan, "chk_C18/lan") if lan else (None, 0)
    by_id = {s["id"]: s for s in pair + mst}

    lines = []
    for raw, mode in ((praw, "pair"), (mraw, "mst")):
        if not raw:
            continue
        cur = None
        with open(raw) as f:
            for line in f:
                r = json.loads(line)
                if r.get("k") == "reset":
                    if cur:
                        lines.append(cur)
                    sc = by_id.get(r.get("id"))
                    cur = None if sc is None else {"k": "ts", "id": sc["id"], "c": sc["meta"]["c"], "res": "", "wrote": False, "tm": 0, "tmAt": 0,
                                                   "fwdObs": sc["meta"]["c"]["fwd"], "backObs": sc["meta"]["c"]["back"], "mode": mode,
                                                   "_t0": None, "_reqs": [], "_resps": []}
                    continue
                if cur is None:
                    continue
                c = cur["c"]
                base = base_of(c)
                mline = r.get("m", r) if mode == "pair" else r
                oline = r.get("o", {}) if mode == "pair" else {}
                for d in mline.get("done", []):
                    if d[1] == 1:
                        cur["res"] = res_name(str(d[2]))
                        cur["_tdone"] = d[0]
                for x in mline.get("tx", []):
                    if x.get("fc") in (23, 24, 2):
                        cur["_reqs"].append(x)
                        if cur["_t0"] is None:
                            cur["_t0"] = x["t"]
                if mode == "pair":
                    for cb in oline.get("cb", []):
                        if cb[1] == "app" and cb[2] == "write_time":
                            cur["wrote"], cur["tm"], cur["tmAt"] = True, num(cb[3]) - base - cur["_t0"], cb[0] - cur["_t0"]
                        if cb[1] == "info" and cb[2] == "request_from_idle" and cur["_reqs"]:
                            cur["fwdObs"] = cb[0] - cur["_reqs"][-1]["t"]
                    for x in oline.get("tx", []):
                        cur["_resps"].append(x["t"])
                else:
                    # scripted outstation: the write object the master sent is what an honest application would receive
                    for x in mline.get("tx", []):
                        for o in x.get("objs", []):
                            if o.get("g") == 50 and x.get("fc") == 2:
                                arrive = x["t"] + c["fwd"]
                                tm = num(o["tm"]) - base
                                if o.get("v") == 3:
                                    tm += arrive - (cur["_t0"] + c["fwd"])      # elapsed since RECORD_CURRENT_TIME arrived
                                over = tm + base > MAXT
                                cur["wrote"], cur["tm"], cur["tmAt"] = (not over), tm - cur["_t0"], arrive - cur["_t0"]
        if cur:
            lines.append(cur)
    for e in lines:
        # the delays actually experienced (they include the harness's settle milliseconds) replace the nominal ones:
        # interval = first request -> the master's reaction to the first reply (its next request, or its verdict)
        c = dict(e["c"])
        e["nominal"] = {"fwd": c["fwd"], "back": c["back"]}
        if e["_t0"] is not None:
            later = [x["t"] for x in e["_reqs"] if x["t"] > e["_t0"] or x is not e["_reqs"][0]]
            t1 = later[0] if later else e.get("_tdone")
            if t1 is not None:
                fwd = e["fwdObs"] if e["mode"] == "pair" else c["fwd"]
                back = t1 - e["_t0"] - fwd - (c["pAct"] if c["proc"] == "nonlan" else 0)
                if back >= 0:
                    c["fwd"], c["back"] = fwd, back
                    e["fwdObs"], e["backObs"] = fwd, back
        e["c"] = c
        # the room actually left when the procedure started (the start instant is observed, not assumed)
        if e["c"]["room"] < BIGROOM and e["_t0"] is not None:
            e["c"] = dict(e["c"], room=MAXT - base_of(e["c"]) - e["_t0"])
            if e["c"]["room"] < 0:
                e["c"]["room"] = 0
        for k in ("_t0", "_reqs", "_resps", "_tdone"):
            e.pop(k, None)
    lan_lines = lan_events(lraw, {s["id"]: s for s in lan}) if lraw else []
    normp = os.path.join(wd, "trace.norm.ndjson")
    with open(normp, "w") as f:
        for e in lines + lan_lines:
            f.write(json.dumps(e, separators=(",", ":")) + "\n")
    verdict = vlib.trace_run("TM_C18.tla", os.path.join(vlib.SPEC, "TM.cfg"), normp, os.path.join(wd, "mon.json"), timeout=3000)
    viols = verdict["viol"]
    rc = 0
    unexplained = []
    for v in viols:
        e = next((x for x in lines + lan_lines if x["id"] == v["sc"]), {})
        v["case"] = e.get("c") or {"lan_ops": [o["op"] for o in e.get("ops", [])]}
        v["obs"] = {k: e.get(k) for k in ("res", "wrote", "tm", "tmAt", "fwdObs", "backObs", "mode")}
        unexplained.append(v)
    if ph + mh + lh:
        unexplained.append({"prop": prop, "reason": "hang", "sc": "?", "line": 0})
    if unexplained:
        rc = 1
        rp_dir = os.path.join(vlib.ROOT, "replays")
        os.makedirs(rp_dir, exist_ok=True)
        first = unexplained[0]
        rp_path = os.path.join(rp_dir, "C18_%s.json" % vlib.sha([first["sc"], first["reason"]]))
        with open(rp_path, "w") as f:
            json.dump({"property": prop, "violation": first, "case": first.get("case"), "all_unexplained": unexplained[:50]}, f, indent=1)
        print("VIOLATION property=%s replay=%s" % (prop, rp_path))
        for u in unexplained[:10]:
            log("unexplained", u["reason"], u["sc"], u.get("ctx"), json.dumps(u.get("case")), json.dumps(u.get("obs")))
    cov = {"states": int(m.group(2)) if m else 0, "transitions": int(m.group(1)) if m else 0,
           "traces_validated_against_impl": len(lines) - len({v["sc"] for v in viols}),
           "evaluations": len(lines) + len(lan_lines), "distinct_nontrivial": len({json.dumps(e["c"], sort_keys=True) for e in lines}),
           "samples": [pair[0]["meta"], mst[0]["meta"]] if pair and mst else [],
           "rule": "one evaluation = one time synchronisation with one parameter set of MC_TimeSync (procedure, one-way delays, real and reported "
                   "processing delay, distance of the master clock from 2^48-1, NEED_TIME kept, unexpected objects), executed by the real master "
                   "against the real outstation through the delaying proxy (honest sets) and / or against scripted replies (lying or malformed sets)",
           "parameter_sets_enumerated": total, "paired": len(pair), "scripted": len(mst), "monitor_violations": len(viols),
           "hangs": ph + mh + lh, "lan_histories": len(lan_lines), "unexplained": [{k: u.get(k) for k in ("reason", "sc", "ctx", "case", "obs")} for u in unexplained[:20]],
           "exhaustive": False}
    vlib.write_evidence(prop, tier, "model_checking", cov,
                        ["delays from a boundary set (0, 1, 2, 7, 500, 501, 65535, 70000 ms), not all of 0..65535+",
                         "the outstation's processing time is applied by the proxy to the reply it reports it for (honest outstation)",
                         "4 ms of slack for the harness's settle milliseconds", "unrelated traffic interleaved with the procedure is not generated"],
                        time.time() - t0, len(unexplained))
    return rc
