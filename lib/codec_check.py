"""C09: the object-header product space enumerated by TLC (MC_AppCodec.tla) is built into bytes by the harness,
shown to the library's parser / iterators / extraction, and the answers are judged by Mon_C09 (AppCodec.tla
operators evaluated by TLC on the trace)."""
import json
import os
import random
import re
import subprocess
import time
from concurrent.futures import ThreadPoolExecutor

import vlib
from vlib import ToolError, log

PARTS = 8


def enumerate_cases(wd):
    def one(part):
        cfg = os.path.join(wd, "apc_%d.cfg" % part)
        with open(cfg, "w") as f:
            f.write("SPECIFICATION Spec\nCONSTANTS\n  Part = %d\n  Parts = %d\n" % (part, PARTS))
        rc, out = vlib._tlc(["-workers", "1", "-config", cfg, "MC_AppCodec.tla"], timeout=1500)
        if "No error has been found" not in out:
            errs = [l for l in out.splitlines() if "rror" in l[:60]]
            raise ToolError("MC_AppCodec enumeration failed: " + "; ".join(errs[:4])[:500])
        cases, pairs = [], []
        for line in out.splitlines():
            m = re.match(r'<<"(CASE|PAIR|ATTR|FF)", "(.*)">>$', line.strip())
            if m:
                (cases if m.group(1) == "CASE" else pairs).append(json.loads(vlib.tla_unescape(m.group(2))))
        return cases, pairs
    with ThreadPoolExecutor(max_workers=PARTS) as ex:
        res = list(ex.map(one, range(PARTS)))
    cases = [c for r in res for c in r[0]]
    pairs = [p for r in res for p in r[1]]
    return cases, pairs


def big_static_scenarios(tier):
    """databases whose class 0 / event responses fill several fragments of several sizes with multi-field objects: the
    response writers are exercised where a fragment runs out of space inside a header or an object"""
    out = []
    variants = [(1, 1, 1, 1, 1), (2, 2, 5, 2, 3), (5, 1, 1, 3, 7), (6, 2, 5, 4, 8), (3, 5, 9, 1, 4), (4, 6, 10, 2, 2)]
    sizes = [249, 250, 251, 252, 253, 254, 255, 292, 300, 2048] if tier == "quick" else list(range(249, 330)) + [400, 512, 1000, 2048]
    n = 0
    for sol in sizes:
        for (ai, ctr, fctr, aos, aiev) in (variants if tier == "thorough" else variants[n % 2::2]):
            pts = []
            for i in range(40):
                pts.append({"ty": "ai", "ix": i, "cls": 1, "svar": ai, "evar": aiev, "db": 0.0, "init": {"val": i, "fl": 1, "tm": 5}})
            for i in range(25):
                pts.append({"ty": "ctr", "ix": i, "cls": 2, "svar": ctr, "evar": 5, "init": {"val": i, "fl": 1, "tm": 5}})
                pts.append({"ty": "fctr", "ix": i, "cls": 3, "svar": fctr, "evar": 5, "init": {"val": i, "fl": 1, "tm": 5}})
            for i in range(20):
                pts.append({"ty": "aos", "ix": i, "cls": 1, "svar": aos, "evar": 7, "init": {"val": i, "fl": 1, "tm": 5}})
                pts.append({"ty": "bi", "ix": i * 3, "cls": 2, "svar": 2, "evar": 2, "init": {"val": i % 2, "fl": 1, "tm": 5}})
            steps = [{"k": "conn"}]
            for i in range(0, 40, 3):
                steps.append({"k": "upd", "ty": "ai", "ix": i, "val": 1000 + i, "fl": 1, "tm": 2000 + i})
            for i in range(0, 25, 2):
                steps.append({"k": "upd", "ty": "ctr", "ix": i, "val": 70000 + i, "fl": 1, "tm": 3000 + i})
            steps.append({"k": "rx", "fn": "read", "seq": 1, "hdrs": [{"g": 60, "v": 2, "q": 6}, {"g": 60, "v": 3, "q": 6},
                                                                       {"g": 60, "v": 4, "q": 6}, {"g": 60, "v": 1, "q": 6}]})
            steps += [{"k": "confirm"}] * 14
            out.append({"id": "big_%d_%d" % (sol, n), "cfg": {"unsol": False, "sol_buf": sol, "points": pts, "evmax": [100] * 8,
                                                            "class_zero": [True] * 8}, "steps": steps, "meta": {"src": "big"}})
            n += 1
    return out


def peer_fragments(tier, wd):
    """fragments transmitted by the real outstation and the real master in model-generated scenarios, each parsed by
    the library's parser in the peer's role inside the harness (tx field `peer`) and compared with the harness codec"""
    import concretize
    import mconc
    import mst_check
    import ost_check
    known = vlib.load_known()
    devs = ost_check.open_devs(known)
    ost_check.ensure_dev_defs([devs] + [[d] for d in devs])
    mst_check.ensure_dev_defs(mst_check.open_devs(known), mst_check.sensitivity("C15", "quick", None)[1])
    num = 40 if tier == "quick" else 600
    lines, programs = [], set()
    abstract = list(ost_check.corpus())
    for alpha, groups in (("events", [("mixed", 1), ("os2_cap2", 0)]), ("ctl", [("mixed", 0)])):
        abstract += ost_check.simulated(tier, wd, devs, alpha, groups, num, 25)
    scen = [concretize.scenario(a["id"], a["hist"], a["model"], a["retries"]) for a in abstract]
    scen += big_static_scenarios(tier)
    import bigecho
    scen += bigecho.scenarios(tier)
    with open(vlib.ROOT + "/corpus/ost_concrete.json") as f:
        scen += json.load(f)
    raw, _ = vlib.run_harness("ost", scen, "chk_C09/ost")
    mabs = list(mst_check.corpus())
    for gi, (alpha, cfgname) in enumerate(mst_check.ALL_PAIRS):
        mabs += mst_check.simulated(tier, wd, alpha, cfgname, num, 14, gi)
    mscen = [mconc.scenario(a["id"], a["hist"], a["model"]) for a in mabs]
    mraw, _ = vlib.run_harness("mst", mscen, "chk_C09/mst")
    for side, path in (("outstation", raw), ("master", mraw)):
        sid = "?"
        with open(path) as f:
            for i, line in enumerate(f, 1):
                r = json.loads(line)
                if r.get("k") == "reset":
                    sid = r.get("id", "?")
                for x in r.get("tx", []):
                    if "peer" not in x:
                        continue
                    for h in x.get("hdrs", []):
                        programs.add("%s fc=%s g%sv%s q=%s" % (side, x.get("fc"), h.get("g"), h.get("v"), h.get("q")))
                    if not x.get("hdrs"):
                        programs.add("%s fc=%s (no objects)" % (side, x.get("fc")))
                    lines.append({"k": "frag", "src": "%s %s line %d: %s" % (side, sid, i, x["peer"]),
                                  "agree": x["peer"] == "ok", "panic": x["peer"] == "panic"})
    return lines, programs


def run(tier, replay=None):
    t0 = time.time()
    prop = "C09"
    wd = vlib.workdir("chk_C09")
    vlib.build_harness()
    cases, pairs = enumerate_cases(wd)
    total_cases = len(cases)
    log(prop, "enumerated", len(cases), "cases", len(pairs), "pairs")
    sd = vlib.seed()
    if tier == "quick":
        # every must-accept case and every boundary of the range fields is kept; the rest is a seeded third
        rnd = random.Random(sd)
        keep = [c for c in cases if c["exp"] == "accept" or c["c"]["b"] >= 65535 or c["c"]["a"] >= 65535]
        rest = [c for c in cases if not (c["exp"] == "accept" or c["c"]["b"] >= 65535 or c["c"]["a"] >= 65535)]
        cases = keep + rnd.sample(rest, len(rest) // 3)
    if replay:
        with open(replay) as f:
            rp = json.load(f)
        cases, pairs = ([rp["case"]] if "c" in rp["case"] else []), ([rp["case"]] if "c" not in rp["case"] else [])
    scen = []
    for i, c in enumerate(cases):
        scen.append(dict(c, id=i, seed=sd))
    for j, p in enumerate(pairs):
        scen.append(dict(p, id=len(cases) + j, seed=sd))
    raw, hangs = vlib.run_harness("codec", scen, "chk_C09")
    frag_lines, programs = ([], set()) if replay else peer_fragments(tier, wd)
    by_id = {s["id"]: s for s in scen}
    normp = os.path.join(wd, "trace.norm.ndjson")
    n = 0
    panics = 0
    with open(raw) as fi, open(normp, "w") as fo:
        for line in fi:
            line = line.strip()
            if not line:
                continue
            r = json.loads(line)
            if r.get("k") not in ("case", "pair", "attr", "ff"):
                continue
            s = by_id[r["id"]]
            e = {"k": r["k"], "id": r["id"], "panic": "panic" in r, "hv": r.get("hv", ""), "ov": r.get("ov", ""),
                 "role": r.get("role", ""), "hs": r.get("hs", []), "ex": bool(r.get("ex", False)),
                 "items": r.get("items", -1), "ifirst": r.get("ifirst", -1), "ilast": r.get("ilast", -1)}
            panics += e["panic"]
            if r["k"] == "case":
                e["c"] = s["c"]
                e["exp"] = s["exp"]
            elif r["k"] == "attr":
                e["at"] = s["at"]
                e["exp"] = s["exp"]
            elif r["k"] == "ff":
                e["ff"] = s["ff"]
                e["exp"] = s["exp"]
            else:
                e["c1"], e["c2"] = s["c1"], s["c2"]
            fo.write(json.dumps(e, separators=(",", ":")) + "\n")
            n += 1
        for e in frag_lines:
            fo.write(json.dumps(e, separators=(",", ":")) + "\n")
    if n != len(scen) and hangs == 0:
        raise ToolError("codec trace has %d lines for %d cases" % (n, len(scen)))
    verdict = vlib.trace_run("TM_C09.tla", os.path.join(vlib.SPEC, "TM.cfg"), normp, os.path.join(wd, "mon.json"), timeout=3000)
    viols = verdict["viol"]

    known = vlib.load_known()
    open_f = [f for f in known["findings"] if prop in f.get("reasons", {}) and f["status"] == "open"]
    unexplained, explained = [], {}
    for v in viols:
        if not v["sc"].startswith(("case", "pair", "attr", "ff ")):
            unexplained.append(v)
            continue
        sc = by_id[int(v["sc"].split()[1])]
        v["case"] = sc
        hit = None
        for f in open_f:
            if v["reason"] in f["reasons"][prop] and f.get("case_match") and all(
                    (sc["n"] if k == "n" else (sc.get("c") or {}).get(k)) in (val if isinstance(val, list) else [val])
                    for k, val in f["case_match"].items()):
                hit = f
                break
        if hit:
            explained.setdefault(hit["id"], []).append(v)
        else:
            unexplained.append(v)
    rc = 0
    out_lines = []
    for f in open_f:
        if explained.get(f["id"]):
            out_lines.append("KNOWN-FINDING: property=%s %s %s" % (prop, f["id"], f["what"]))
    if hangs:
        unexplained.append({"prop": prop, "reason": "hang", "sc": "?", "line": 0})
    if unexplained:
        rc = 1
        rp_dir = os.path.join(vlib.ROOT, "replays")
        os.makedirs(rp_dir, exist_ok=True)
        first = unexplained[0]
        rp_path = os.path.join(rp_dir, "C09_%s.json" % vlib.sha([first.get("case"), first["reason"]]))
        with open(rp_path, "w") as f:
            json.dump({"property": prop, "violation": {k: v for k, v in first.items() if k != "case"},
                       "case": first.get("case"), "all_unexplained": [
                           {"reason": u["reason"], "case": u.get("case")} for u in unexplained[:50]]}, f, indent=1)
        out_lines.append("VIOLATION property=%s replay=%s" % (prop, rp_path))
        for u in unexplained[:10]:
            log("unexplained", u["reason"], json.dumps(u.get("case"))[:300])
    from collections import Counter
    exp_counts = Counter(s.get("exp", "pair") for s in scen)
    cov = {"evaluations": len(scen), "distinct_nontrivial": len(scen), "samples": [scen[0], scen[len(scen) // 2], scen[-1]],
           "rule": "one evaluation = one object header case (group/variation x qualifier x boundary count or range x function class x "
                   "{-1,0,+1} byte) or one pair of exactly encoded headers, enumerated by TLC from MC_AppCodec.tla, built into bytes by the "
                   "harness with random object contents, parsed by ParsedFragment::parse (+ to_request / to_response), iterated at every decode "
                   "level and, for responses, extracted by the master; the verdict is computed by TLC from AppCodec.tla",
           "enumerated_total": total_cases, "executed_by_expected_verdict": dict(exp_counts), "pairs": len(pairs),
           "peer_parsed_fragments": len(frag_lines), "programs_reached": sorted(programs), "monitor_violations": len(viols), "panics": panics, "hangs": hangs,
           "explained_by_known_findings": {k: len(v) for k, v in explained.items()},
           "unexplained": [{"reason": u["reason"], "case": u.get("case")} for u in unexplained[:20]],
           "exhaustive": tier == "thorough" and not replay}
    vlib.write_evidence(prop, tier, "other", cov,
                        ["object contents are random bytes (value fidelity is C10)", "free-format (g70) objects are enumerated by size class only (3 variable-part lengths x 3 declared-length deltas)",
                         "the table AppCodec.tla is a transcription of the IEEE 1815 object library made for this check",
                         "the must-accept set is the set of combinations the library's own writers produce"],
                        time.time() - t0, len(unexplained))
    for ln in out_lines:
        print(ln)
    return rc
