"""C10: value cases enumerated by TLC from MC_Values.tla are written into the real outstation database, read by
class polls through the real outstation, the responses are run through the master's extraction inside the harness
(tx field `ext`), and Mon_C10 (Values.tla operators evaluated by TLC) judges what the handler would have seen."""
import json
import math
import os
import random
import re
import struct
import time

import vlib
from vlib import ToolError, log

F32MAX = 3.4028234663852886e38


def f32(x):
    return struct.unpack("<f", struct.pack("<f", x))[0]


ANALOG = {"z0": 0.0, "p1": 1.0, "m1": -1.0, "p3_5": 3.5, "m3_5": -3.5, "p0_1": 0.1, "p32767": 32767.0, "p32768": 32768.0,
          "m32768": -32768.0, "m32769": -32769.0, "p16777217": 16777217.0, "p2147483647": 2147483647.0,
          "p2147483648": 2147483648.0, "m2147483648": -2147483648.0, "m2147483649": -2147483649.0, "f32max": F32MAX,
          "pbig": 1e39, "mbig": -1e39, "pinf": math.inf, "minf": -math.inf, "nan": math.nan,
          # results only
          "p3": 3.0, "p4": 4.0, "m3": -3.0, "m4": -4.0, "p0_1f": f32(0.1), "p16777216": 16777216.0, "mf32max": -F32MAX}
COUNTER = {"c0": 0, "c1": 1, "c65535": 65535, "c65536": 65536, "c65537": 65537, "c4294967295": 4294967295}
TIMES = {"t0": 0, "t999999": 999999, "t1000000": 1000000, "t1000001": 1000001, "t1065535": 1065535, "t1065536": 1065536,
         "tmax": 2 ** 48 - 1}
INDICES = [0, 3, 255, 256, 1000, 65535]


def val_json(ty, tok):
    if ty in ("bi", "bos", "dbi"):
        return tok
    if ty in ("ctr", "fctr"):
        v = COUNTER[tok]
        return v if v < 2 ** 31 else "n:%d" % v
    v = ANALOG[tok]
    if math.isnan(v):
        return "f:nan"
    if math.isinf(v):
        return "f:inf" if v > 0 else "f:-inf"
    return "f:%r" % v


def time_json(tok):
    v = TIMES[tok]
    return v if v < 2 ** 31 else "n:%d" % v


def parse_num(v):
    if isinstance(v, (int, float)):
        return float(v)
    s = str(v)
    s = s[2:] if s[:2] in ("f:", "n:") else s
    s = s.lower()
    if s == "nan":
        return math.nan
    if s in ("inf", "-inf"):
        return math.inf if s == "inf" else -math.inf
    return float(s)


def val_token(ty, v):
    """recorded value -> token (exact equality), or other:<repr>"""
    if ty in ("bi", "bos", "dbi"):
        return v
    if ty in ("ctr", "fctr"):
        n = int(parse_num(v))
        for k, x in COUNTER.items():
            if x == n:
                return k
        return "other:%d" % n
    x = parse_num(v)
    for k, y in ANALOG.items():
        if (math.isnan(x) and math.isnan(y)) or x == y:
            return k
    return "other:%r" % x


def time_token(v):
    if v == "" or v is None:
        return "none"
    n = int(parse_num(v))
    for k, x in TIMES.items():
        if x == n:
            return k
    return "other:%d" % n


def ix_of(j):
    return INDICES[j] if j < len(INDICES) else 2000 + j


def plan_scenarios(plan, pairs, times, chunk=24):
    ty, sv, ev = plan["ty"], plan["sv"], plan["ev"]
    pairs = sorted(pairs, key=lambda p: (str(p["val"]), p["fl"]))
    out = []
    for c in range(0, len(pairs), chunk):
        part = pairs[c:c + chunk]
        pts = []
        for j, p in enumerate(part):
            tm = times[(c + j) % len(times)]
            pts.append({"ix": ix_of(j), "val": p["val"], "fl": p["fl"], "tm": tm, "tq": "s" if (c + j) % 3 else "u"})
        out.append({"id": "val_%s_s%d_e%d_%d" % (ty, sv, ev, c // chunk), "ty": ty, "sv": sv, "ev": ev, "pts": pts, "evs": pts})
    return out


def cto_scenarios(ty, seq, n):
    pts = [{"ix": ix_of(j), "val": 1 if ty == "bi" else 2, "fl": 1, "tm": s["tm"], "tq": s["tq"]} for j, s in enumerate(seq)]
    return {"id": "cto_%s_%d" % (ty, n), "ty": ty, "sv": 2, "ev": 3, "pts": pts, "evs": pts}


def harness_scenario(sc):
    ty = sc["ty"]
    points = [{"ty": ty, "ix": p["ix"], "cls": 1, "svar": sc["sv"], "evar": sc["ev"], "db": 0.0} for p in sc["pts"]]
    steps = [{"k": "conn"}]
    for p in sc["pts"]:
        steps.append({"k": "upd", "ty": ty, "ix": p["ix"], "val": val_json(ty, p["val"]), "fl": p["fl"],
                      "tm": time_json(p["tm"]), "tq": p["tq"], "mode": "force"})
    steps.append({"k": "rx", "fn": "read", "seq": 1, "hdrs": [{"g": 60, "v": 2, "q": 6}, {"g": 60, "v": 1, "q": 6}]})
    steps.append({"k": "confirm"})
    return {"id": sc["id"], "cfg": {"unsol": False, "points": points, "evmax": [60] * 8, "sol_buf": 2048}, "steps": steps,
            "meta": {"src": "values"}}


def enumerate_plans(wd):
    cfg = os.path.join(wd, "mcv.cfg")
    with open(cfg, "w") as f:
        f.write("SPECIFICATION Spec\n")
    rc, out = vlib._tlc(["-workers", "1", "-config", cfg, "MC_Values.tla"], timeout=900)
    if "No error has been found" not in out:
        raise ToolError("MC_Values enumeration failed: " + "; ".join(l for l in out.splitlines() if "rror" in l[:60])[:500])
    plans, ctos = [], []
    for line in out.splitlines():
        m = re.match(r'<<"(PLAN|CTO)", "(.*)">>$', line.strip())
        if m:
            (plans if m.group(1) == "PLAN" else ctos).append(json.loads(vlib.tla_unescape(m.group(2))))
    return plans, ctos


def run(tier, replay=None):
    t0 = time.time()
    prop = "C10"
    wd = vlib.workdir("chk_C10")
    vlib.build_harness()
    plans, ctos = enumerate_plans(wd)
    scs = []
    for p in plans:
        scs += plan_scenarios(p["plan"], p["pairs"], p["times"])
    for n, c in enumerate(ctos):
        scs.append(cto_scenarios(c["ty"], c["seq"], n))
    total = len(scs)
    if tier == "quick":
        rnd = random.Random(vlib.seed())
        vals = [s for s in scs if s["id"].startswith("val_")]
        cto = [s for s in scs if s["id"].startswith("cto_")]
        scs = vals + rnd.sample(cto, min(len(cto), 200))
    if replay:
        with open(replay) as f:
            scs = [json.load(f)["case"]]
    by_id = {s["id"]: s for s in scs}
    raw, hangs = vlib.run_harness("ost", [harness_scenario(s) for s in scs], "chk_C10")
    # one line per scenario: what went in, what the handler would see
    normp = os.path.join(wd, "trace.norm.ndjson")
    cur, lines = None, []

    def flush():
        if cur is not None:
            lines.append(cur)
    with open(raw) as f:
        for line in f:
            r = json.loads(line)
            if r.get("k") == "reset":
                flush()
                s = by_id.get(r.get("id"))
                cur = None if s is None else {"k": "vals", "id": s["id"], "ty": s["ty"], "sv": s["sv"], "ev": s["ev"],
                                              "pts": sorted(s["pts"], key=lambda p: p["ix"]), "evs": s["evs"],
                                              "sitems": [], "eitems": [], "err": ""}
                continue
            if cur is None:
                continue
            if "panic" in r or r.get("k") in ("hang", "crash", "dead"):
                cur["err"] = "panic" if "panic" in r else r["k"]
            for x in r.get("tx", []):
                ext = x.get("ext")
                if isinstance(ext, str):
                    cur["err"] = cur["err"] or ext
                    continue
                for it in ext or []:
                    item = {"ty": it["ty"], "g": it["g"], "v": it["v"], "ix": it["ix"], "val": val_token(it["ty"], it["val"]),
                            "fl": it["fl"], "tm": time_token(it["tm"]), "tq": it["tq"]}
                    (cur["eitems"] if it["ev"] else cur["sitems"]).append(item)
    flush()
    with open(normp, "w") as f:
        for e in lines:
            f.write(json.dumps(e, separators=(",", ":")) + "\n")
    if len(lines) != len(scs) and not hangs:
        raise ToolError("value trace has %d scenarios for %d" % (len(lines), len(scs)))
    verdict = vlib.trace_run("TM_C10.tla", os.path.join(vlib.SPEC, "TM.cfg"), normp, os.path.join(wd, "mon.json"), timeout=3000)
    viols = verdict["viol"]

    known = vlib.load_known()
    open_f = [f for f in known["findings"] if prop in f.get("reasons", {}) and f["status"] == "open"]
    line_of = {e["id"]: e for e in lines}
    unexplained, explained = [], {}
    for v in viols:
        e = line_of.get(v["sc"], {})
        v["detail"] = detail(e, v)
        hit = None
        for f in open_f:
            m = f.get("value_match") or {}
            d = v["detail"] or {}
            if v["reason"] in f["reasons"][prop] and m and all(
                    d.get(k) in (val if isinstance(val, list) else [val]) for k, val in m.items()):
                hit = f
                break
        if hit:
            explained.setdefault(hit["id"], []).append(v)
        else:
            unexplained.append(v)
    rc = 0
    out_lines = []
    for f in open_f:
        if explained.get(f["id"]):
            out_lines.append("KNOWN-FINDING: property=%s %s %s" % (prop, f["id"], f["what"]))
    if hangs:
        unexplained.append({"prop": prop, "reason": "hang", "sc": "?", "line": 0, "detail": None})
    if unexplained:
        rc = 1
        rp_dir = os.path.join(vlib.ROOT, "replays")
        os.makedirs(rp_dir, exist_ok=True)
        first = unexplained[0]
        rp_path = os.path.join(rp_dir, "C10_%s.json" % vlib.sha([first["sc"], first["reason"]]))
        with open(rp_path, "w") as f:
            json.dump({"property": prop, "violation": first, "case": by_id.get(first["sc"]),
                       "all_unexplained": unexplained[:50]}, f, indent=1)
        out_lines.append("VIOLATION property=%s replay=%s" % (prop, rp_path))
        for u in unexplained[:10]:
            log("unexplained", u["reason"], u["sc"], json.dumps(u.get("detail"))[:400])
    npoints = sum(len(s["pts"]) for s in scs)
    cov = {"evaluations": npoints * 2, "distinct_nontrivial": npoints * 2, "scenarios": len(scs), "scenarios_enumerated": total,
           "samples": [scs[0], scs[len(scs) // 2], scs[-1]],
           "rule": "one evaluation = one (type, configured variation, value token, flag octet, time token) case written into the real "
                   "outstation database and read back once as a static object and once as an event object through the real outstation "
                   "and the master's extraction; cases enumerated by TLC from MC_Values.tla (all value tokens x flag octets per type and "
                   "configured static / event variation; all 3-event sequences over the relative-time boundary tokens)",
           "plans": len(plans), "cto_sequences": len(ctos), "monitor_violations": len(viols), "hangs": hangs,
           "explained_by_known_findings": {k: len(v) for k, v in explained.items()},
           "unexplained": [{"reason": u["reason"], "sc": u["sc"], "detail": u.get("detail")} for u in unexplained[:20]],
           "exhaustive": tier == "thorough" and not replay}
    vlib.write_evidence(prop, tier, "other", cov,
                        ["values are boundary tokens of every representation, not all bit patterns (TLC has no floats and 32-bit integers)",
                         "Values.tla is a transcription of the IEEE 1815 object library made for this check",
                         "octet strings and frozen analog inputs are not covered; indices from a sparse set incl. 0, 255, 256, 65535"],
                        time.time() - t0, len(unexplained))
    for ln in out_lines:
        print(ln)
    return rc


def detail(e, v):
    """the offending point and item of a value violation"""
    try:
        i = int(v.get("ctx") or 0)
    except ValueError:
        return None
    if not e or i < 1:
        return None
    if v["reason"] in ("static-value", "packed-not-online"):
        p, it = e["pts"][i - 1], e["sitems"][i - 1]
    elif v["reason"] == "event-value":
        p, it = e["evs"][i - 1], e["eitems"][i - 1]
    else:
        return None
    return {"ty": e["ty"], "sv": e["sv"], "ev": e["ev"], "val": p["val"], "fl": p["fl"], "tm": p["tm"], "tq": p["tq"],
            "item_g": it["g"], "item_v": it["v"], "item_val": it["val"], "item_fl": it["fl"], "item_tm": it["tm"], "item_tq": it["tq"]}
