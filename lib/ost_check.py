"""Decision procedure for the properties decided on the outstation model (Outstation.tla):
design check with the monitor in lock-step, behaviour generation (spec -> code), trace validation
(code -> monitor, code -> spec), classification against known_findings.json, evidence."""
import json
import os
import random
import sys
import time

import concretize
import vlib
from vlib import ToolError, log

# model configurations: (name, TLA constant definitions, retries)
MODELS = {
    "os2_cap1": {"Pts": ("<-", "Pts_os2_cap1"), "EvMax": ("<-", "EvMax_os2")},
    "os2_cap2": {"Pts": ("<-", "Pts_os2_cap2"), "EvMax": ("<-", "EvMax_os2")},
    "os2_max1": {"Pts": ("<-", "Pts_os2_cap1"), "EvMax": ("<-", "EvMax_os1")},
    "mixed":    {"Pts": ("<-", "Pts_mixed"),    "EvMax": ("<-", "EvMax_mixed")},
    "os_big":   {"Pts": ("<-", "Pts_os_big"),   "EvMax": ("<-", "EvMax_mixed")},
    "mixed_pk": {"Pts": ("<-", "Pts_mixed_pk"), "EvMax": ("<-", "EvMax_mixed")},
}
GROUPS_QUICK = [("os2_cap1", 1), ("os2_cap2", 0), ("os2_max1", -1), ("mixed", 1), ("mixed_pk", 1)]
GROUPS_THOROUGH = GROUPS_QUICK + [("os2_cap1", -1), ("os2_cap1", 0), ("os2_cap2", 1), ("mixed", 0),
                                  ("os2_max1", 1)]

# which input alphabets of MC_O_events serve which property
ALPHAS = {"C03": ["events"], "C14": ["events"], "C13": ["events", "ctl", "misc"], "C05": ["events", "ctl", "misc"],
          "C04": ["ctl"], "C12": ["ctl", "events", "misc"], "C07": ["ctl", "misc"], "C11": ["events"]}
GROUPS_CTL_QUICK = [("os2_cap1", 1), ("mixed", 0)]
GROUPS_CTL_THOROUGH = [("os2_cap1", 1), ("mixed", 0), ("os2_cap2", -1), ("os2_max1", 1)]


def open_devs(known):
    return sorted({f["deviation"] for f in known["findings"] if f["status"] == "open" and f.get("deviation")
                   and f.get("side", "ost") == "ost"})


def constants(model, retries, dev_name, extra=None):
    c = dict(MODELS[model])
    c.update({"SolBudget": 245, "UnsolBudget": 245, "ConfirmTO": concretize.TIMING["ConfirmTO"],
              "RetryDelay": concretize.TIMING["RetryDelay"], "SelectTO": concretize.TIMING["SelectTO"],
              "Retries": retries if retries >= 0 else ("<-", "NegOne"), "UnsolOn": True, "ClassZero": ("<-", "CZ_os"), "DEV": ("<-", dev_name)})
    if extra:
        c.update(extra)
    return c


def dev_defs(devs):
    """name of a TLA+ definition (in MC_O_events / Trace_Outstation) for a deviation set"""
    if not devs:
        return "DEV_none"
    return "DEV_set_" + "_".join(sorted(devs))


def ensure_dev_defs(all_sets):
    """append `DEV_set_x == {...}` definitions to the generated include module"""
    lines = ["---- MODULE DevSets ----", "EXTENDS Integers", "NegOne == -1", "DEV_none == {}"]
    seen = set()
    for devs in all_sets:
        n = dev_defs(devs)
        if n == "DEV_none" or n in seen:
            continue
        seen.add(n)
        lines.append("%s == {%s}" % (n, ", ".join('"%s"' % d for d in sorted(devs))))
    lines.append("====")
    path = os.path.join(vlib.SPEC, "DevSets.tla")
    text = "\n".join(lines) + "\n"
    if not os.path.exists(path) or open(path).read() != text:
        with open(path, "w") as f:
            f.write(text)


def design_check(prop, tier, wd, devs_open):
    """TLC on the intended design (all deviations off) with the monitor of `prop` in lock-step.
    A counter-example here is a defect of the specification or the monitor: tool error."""
    out = {"states": 0, "transitions": 0, "runs": []}
    runs = []
    for alpha in ALPHAS[prop]:
        if alpha == "events":
            depth = 5 if tier == "quick" else 6
            groups = [("os2_cap1", 1)] if tier == "quick" else [("os2_cap1", 1), ("os2_cap2", 0), ("mixed", 1)]
        else:
            depth = 4 if tier == "quick" else 5
            groups = [("os2_cap1", 1)] if tier == "quick" else [("os2_cap1", 1), ("mixed", 0)]
        runs += [(alpha, depth, g) for g in groups]
    for alpha, depth, (model, retries) in runs:
        cfg = os.path.join(wd, "mc_%s_%s_%d.cfg" % (alpha, model, retries))
        c = constants(model, retries, "DEV_none",
                      {"MaxUpd": 3 if alpha == "events" else 1, "MaxSteps": depth, "Classes": ("<-", "Cl123"),
                       "MonName": '"%s"' % prop, "Alpha": '"%s"' % alpha})
        vlib.write_cfg(cfg, "Spec", c, ["NoViolation", "NoPanic", "CountersExact"], view="View")
        r = vlib.model_check("MC_O_events.tla", cfg, workers=8, timeout=3000)
        out["runs"].append({"alpha": alpha, "model": model, "retries": retries, "depth": depth, "distinct": r["distinct"],
                            "generated": r["generated"], "wall_s": r["wall_s"], "dev": []})
        out["states"] += r["distinct"]
        out["transitions"] += r["generated"]
        if r["violated"]:
            raise ToolError("intended design violates %s (%s) on %s: hist=%s viol=%s" % (
                prop, r["violated"], model, json.dumps(r["hist"]), r.get("viol")))
    return out


def asbuilt_witnesses(prop, tier, wd, devs_open):
    """TLC with each open deviation switched on singly: the counter-example (if any within the bound) is a
    witness scenario of how the code as it is now breaks the property."""
    wits = []
    runs = []
    for dev in devs_open:
        for model, retries in [("os2_cap1", 1), ("os2_cap2", 1), ("os2_max1", 1)]:
            cfg = os.path.join(wd, "mcdev_%s_%s.cfg" % (dev, model))
            c = constants(model, retries, dev_defs([dev]),
                          {"MaxUpd": 3, "MaxSteps": 7, "Classes": ("<-", "Cl123"),
                           "MonName": '"%s"' % prop, "Alpha": '"%s"' % ALPHAS[prop][0]})
            vlib.write_cfg(cfg, "Spec", c, ["NoViolation", "NoPanic"], view="View")
            try:
                r = vlib.model_check("MC_O_events.tla", cfg, workers=12, timeout=150 if tier == "quick" else 400)
            except ToolError as e:
                if "timeout" in str(e):
                    runs.append({"dev": [dev], "model": model, "timeout": True})
                    continue
                raise
            runs.append({"dev": [dev], "model": model, "distinct": r["distinct"], "generated": r["generated"],
                         "violated": r["violated"], "wall_s": r["wall_s"]})
            if r["violated"] and r["hist"]:
                wits.append({"id": "mc_%s_%s" % (dev, model), "model": model, "retries": retries,
                             "hist": r["hist"], "dev": dev, "inv": r["violated"]})
                break
    return wits, runs


def simulated(tier, wd, devs_open, alpha, groups, num, depth):
    """TLC -simulate on the as-built specification: random behaviours, exported as resolved inputs"""
    out = []
    sd = vlib.seed()
    for gi, (model, retries) in enumerate(groups):
        cfg = os.path.join(wd, "sim_%s_%s_%d.cfg" % (alpha, model, retries))
        c = constants(model, retries, dev_defs(devs_open),
                      {"MaxUpd": 6 if alpha == "events" else 2, "MaxSteps": depth, "Classes": ("<-", "Cl123"),
                       "MonName": '"none"', "Alpha": '"%s"' % alpha})
        vlib.write_cfg(cfg, "Spec", c, ["Export"])
        hists = vlib.simulate("MC_O_events.tla", cfg, num, depth + 10, sd * 1000 + gi + (100 if alpha == "ctl" else 0))
        # TLC prints many more behaviours than asked for; keep a seeded sample
        rnd = random.Random(sd * 7919 + gi)
        cap = 150 if tier == "quick" else 4000
        if len(hists) > cap:
            hists = rnd.sample(hists, cap)
        for i, h in enumerate(hists):
            out.append({"id": "sim_%s_%s_r%d_%d" % (alpha, model, retries, i), "model": model,
                        "retries": retries, "hist": h})
    return out


def covered(tier, wd, devs_open, alpha, groups, depth):
    """abstract-transition cover of the as-built specification (TLC BFS under the CoverView abstraction)"""
    out, pairs = [], 0
    for model, retries in groups:
        cfg = os.path.join(wd, "cover_%s_%s_%d.cfg" % (alpha, model, retries))
        c = constants(model, retries, dev_defs(devs_open),
                      {"MaxUpd": 4 if alpha == "events" else 1, "MaxSteps": depth, "Classes": ("<-", "Cl123"),
                       "MonName": '"none"', "Alpha": '"%s"' % alpha})
        vlib.write_cfg(cfg, "Spec", c, ["ExportAll"], view="CoverView")
        hists, n = vlib.cover("MC_O_events.tla", cfg, workers=8)
        pairs += n
        cap = 6000 if tier == "quick" else 40000
        if len(hists) > cap:
            # very large covers are replayed as a seeded sample; the short behaviours (first reach of most abstract
            # transitions) are all kept
            short = [h for h in hists if len(h) <= 4]
            rest = [h for h in hists if len(h) > 4]
            rnd = random.Random(vlib.seed() * 31 + len(hists))
            hists = short + rnd.sample(rest, min(len(rest), max(0, cap - len(short))))
        for i, h in enumerate(hists):
            out.append({"id": "cov_%s_%s_r%d_%d" % (alpha, model, retries, i), "model": model,
                        "retries": retries, "hist": h})
    return out, pairs


def corpus():
    with open(vlib.ROOT + "/corpus/ost_abstract.json") as f:
        return json.load(f)


def run(prop, tier, replay=None):
    t0 = time.time()
    known = vlib.load_known()
    devs_open = open_devs(known)
    wd = vlib.workdir("chk_" + prop)
    ensure_dev_defs([devs_open] + [[d] for d in devs_open])
    vlib.build_harness()

    # 1. design check
    design = design_check(prop, tier, wd, devs_open)
    log(prop, "design check", design["states"], "states")

    # 2. scenarios
    abstract = list(corpus())
    wits, wit_runs = [], []
    if tier == "thorough":
        mine = sorted({f["deviation"] for f in known["findings"]
                       if f["status"] == "open" and prop in f.get("reasons", {})})
        wits, wit_runs = asbuilt_witnesses(prop, tier, wd, mine)
    abstract += wits
    cover_pairs = 0
    for alpha in ALPHAS[prop]:
        if alpha == "events":
            groups = GROUPS_QUICK if tier == "quick" else GROUPS_THOROUGH
            cgroups = [("os2_cap1", 1)] if tier == "quick" else [("os2_cap1", 1), ("os2_cap2", 0), ("mixed", -1)]
            cdepth = 7 if tier == "quick" else 10
        else:
            groups = GROUPS_CTL_QUICK if tier == "quick" else GROUPS_CTL_THOROUGH
            cgroups = [("os2_cap1", 1)] if tier == "quick" else [("os2_cap1", 1), ("mixed", 0)]
            cdepth = 6 if tier == "quick" else 8
        if len(ALPHAS[prop]) > 1 and tier == "quick":
            cdepth -= 1
        cov, n = covered(tier, wd, devs_open, alpha, cgroups, cdepth)
        cover_pairs += n
        abstract += cov
        abstract += simulated(tier, wd, devs_open, alpha, groups, 60 if tier == "quick" else 1500,
                              25 if tier == "quick" else 40)
    if replay:
        with open(replay) as f:
            rp = json.load(f)
        abstract = [rp["abstract"]]
    scen = [concretize.scenario(a["id"], a["hist"], a["model"], a["retries"],
                                meta={"src": a["id"].split("_")[0]}) for a in abstract]
    by_id = {a["id"]: a for a in abstract}
    if not replay:
        # scenarios outside the abstract alphabet (requests with dozens of objects, ...): executed and judged by the
        # monitor, not part of the conformance check
        with open(vlib.ROOT + "/corpus/ost_concrete.json") as f:
            scen += json.load(f)
        if prop == "C12":
            import bigecho
            scen += bigecho.scenarios(tier)
    log(prop, len(scen), "scenarios")

    # 3. execute on the real stack
    raw, hangs = vlib.run_harness("ost", scen, "chk_" + prop)
    normp, nlines = vlib.normalize(raw, "chk_" + prop)
    spans = vlib.split_by_scenario(normp)
    span_of = {sid: (a, b) for sid, a, b in spans}

    # 4. the monitor decides the property on every recorded execution
    mon_cfg = os.path.join(vlib.SPEC, "TM.cfg")
    verdict = vlib.trace_run("TM_%s.tla" % prop, mon_cfg, normp, os.path.join(wd, "mon.json"))
    viols = [v for v in verdict["viol"] if v["prop"] == prop]

    # 5. conformance to the as-built specification, per model configuration
    conf = {"ok": 0, "div": [], "unmodelled": [], "fired": [], "steps": 0}
    grouped = {}
    for a in abstract:
        grouped.setdefault((a["model"], a["retries"]), []).append(a["id"])
    for (model, retries), ids in grouped.items():
        sub = os.path.join(wd, "norm_%s_%d.ndjson" % (model, retries))
        offs = []
        with open(normp) as f:
            lines = f.readlines()
        with open(sub, "w") as f:
            n = 0
            for sid in ids:
                if sid not in span_of:
                    continue
                a, b = span_of[sid]
                offs.append((n + 1, a))          # sub line n+1 == full line a
                f.writelines(lines[a - 1:b])
                n += b - a + 1
        cfgp = os.path.join(wd, "tr_%s_%d.cfg" % (model, retries))
        vlib.write_cfg(cfgp, "TSpec", constants(model, retries, dev_defs(devs_open)), ["Done"])
        r = vlib.trace_run("Trace_Outstation.tla", cfgp, sub, os.path.join(wd, "conf.json"))["res"]

        def full_line(subline):
            base = max((o for o in offs if o[0] <= subline), key=lambda o: o[0])
            return base[1] + (subline - base[0])
        conf["ok"] += r["ok"]
        conf["steps"] += r["steps"]
        for d in r["div"]:
            d["line"] = full_line(d["line"])
            conf["div"].append(d)
        for d in r["unmodelled"]:
            d["line"] = full_line(d["line"])
            conf["unmodelled"].append(d)
        for d in r["fired"]:
            d["line"] = full_line(d["line"])
            conf["fired"].append(d)

    # 6. classification
    div_at = {}
    for d in conf["div"] + conf["unmodelled"]:
        div_at[d["sc"]] = min(d["line"], div_at.get(d["sc"], 10 ** 9))
    fired = {}
    for d in conf["fired"]:
        fired.setdefault(d["sc"], []).append((d["line"], d["dev"]))
    findings = [f for f in known["findings"] if prop in f.get("reasons", {})]
    open_f = [f for f in findings if f["status"] == "open"]
    unexplained, explained = [], {}
    for v in viols:
        ok = None
        conforms = div_at.get(v["sc"], 10 ** 9) > v["line"]
        for f in open_f:
            if v["reason"] not in f["reasons"][prop]:
                continue
            if conforms and any(ln <= v["line"] and dev == f["deviation"] for ln, dev in fired.get(v["sc"], [])):
                ok = f
                break
        if ok:
            explained.setdefault(ok["id"], []).append(v)
        else:
            unexplained.append(v)
    # panics / hangs observed anywhere are violations of C01, not of this property; they are reported in
    # the evidence so that the reader sees them
    rc = 0
    out_lines = []
    for f in open_f:
        if explained.get(f["id"]):
            out_lines.append("KNOWN-FINDING: property=%s %s %s" % (prop, f["id"], f["what"]))
    if unexplained:
        rc = 1
        rp_dir = os.path.join(vlib.ROOT, "replays")
        os.makedirs(rp_dir, exist_ok=True)
        first = unexplained[0]
        rp_path = os.path.join(rp_dir, "%s_%s.json" % (prop, vlib.sha([first["sc"], first["reason"]])))
        a = by_id.get(first["sc"])
        with open(rp_path, "w") as f:
            json.dump({"property": prop, "violation": first, "abstract": a,
                       "scenario": next(s for s in scen if s["id"] == first["sc"]),
                       "all_unexplained": unexplained[:50]}, f, indent=1)
        out_lines.append("VIOLATION property=%s replay=%s" % (prop, rp_path))
        for v in unexplained[:10]:
            log("unexplained", v)

    # the link-layer half of C07 is decided on LinkAddr.tla / the real link::layer::Layer
    link_extra = {}
    if prop == "C07" and not replay:
        import link_check
        lviol, link_extra = link_check.run_c07_link(tier, wd)
        if lviol:
            rc = 1
            rp_dir = os.path.join(vlib.ROOT, "replays")
            os.makedirs(rp_dir, exist_ok=True)
            rp_path = os.path.join(rp_dir, "C07_link_%s.json" % vlib.sha(lviol[0]))
            with open(rp_path, "w") as f:
                json.dump({"property": "C07", "violation": lviol[0], "all": lviol[:50]}, f, indent=1)
            out_lines.append("VIOLATION property=C07 replay=%s" % rp_path)
            unexplained = unexplained + lviol[:20]

    # 7. evidence
    samples = []
    for a in abstract[:2] + abstract[-1:]:
        samples.append({"id": a["id"], "model": a["model"], "inputs": a["hist"][:12]})
    distinct = len({vlib.sha(a["hist"]) for a in abstract if len(a["hist"]) >= 3})
    cov = {
        "states": design["states"], "transitions": design["transitions"],
        "traces_validated_against_impl": conf["ok"],
        "samples": samples,
        "evaluations": len(scen), "distinct_nontrivial": distinct,
        "rule": "scenarios = committed witnesses + abstract-transition cover (TLC breadth-first under the CoverView "
                "abstraction: one behaviour per reachable (abstract source state, input kind, abstract target state) triple, maximal "
                "histories; very large covers are replayed as a seeded sample that keeps all short behaviours) + TLC -simulate "
                "behaviours of Outstation.tla (+ in thorough: TLC counter-examples of the as-built spec), each executed on "
                "the production stack; distinct = distinct abstract input sequences of length >= 3",
        "design_runs": design["runs"], "asbuilt_runs": wit_runs,
        "abstract_transition_cover_pairs": cover_pairs,
        "trace_lines": nlines, "conformance": {"scenarios_conforming": conf["ok"], "steps_matched": conf["steps"],
                                               "divergences": conf["div"][:20], "unmodelled": len(conf["unmodelled"])},
        "monitor_violations": len(viols), "explained_by_known_findings": {k: len(v) for k, v in explained.items()},
        "unexplained": unexplained[:20], "hangs": hangs, "open_deviations_modelled": devs_open,
        "exhaustive": False,
    }
    cov.update(link_extra)
    if link_extra:
        cov["states"] += link_extra.get("link_states", 0)
        cov["transitions"] += link_extra.get("link_transitions", 0)
        cov["traces_validated_against_impl"] += link_extra.get("link_conforming", 0)
    vlib.write_evidence(prop, tier, "model_checking", cov,
                        ["bounded constants in the design check (2 points, <=3 updates, depth %d)" % (5 if tier == "quick" else 6),
                         "conformance and monitor verdicts only on executed scenarios",
                         "harness codec and tokio paused-clock semantics trusted"],
                        time.time() - t0, len(unexplained))
    for ln in out_lines:
        print(ln)
    return rc
