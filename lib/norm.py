"""Projection of raw harness trace lines (ndjson) onto the fixed event alphabet read by the
TLA+ monitors and trace specifications (DESIGN.md section 3).  Pure re-shaping: every field is
copied or defaulted, nothing is judged here.  TLC needs homogeneous types, so
  - measurement values / times are strings ("" = absent),
  - flags / status / indices are ints (-1 = absent),
  - callbacks are {t,k,n,i:[ints],s:str}.
"""
import json

TYPES = ["bi", "dbi", "bos", "ctr", "fctr", "ai", "aos", "os"]
DEFAULT_SVAR = {"bi": 2, "dbi": 2, "bos": 2, "ctr": 1, "fctr": 1, "ai": 1, "aos": 1, "os": 0}
DEFAULT_EVAR = {"bi": 1, "dbi": 1, "bos": 1, "ctr": 1, "fctr": 1, "ai": 1, "aos": 1, "os": 0}
STATIC_GROUP = {"bi": 1, "dbi": 3, "bos": 10, "ctr": 20, "fctr": 21, "ai": 30, "aos": 40, "os": 110}
EVENT_GROUP = {"bi": 2, "dbi": 4, "bos": 11, "ctr": 22, "fctr": 23, "ai": 32, "aos": 42, "os": 111}

IIN_KEYS = ["bc", "c1", "c2", "c3", "time", "local", "trouble", "rst",
            "nofn", "unk", "param", "ovf", "busy", "cfg", "r6", "r7"]


def s(v):
    """value -> string token"""
    if v is None:
        return ""
    if isinstance(v, bool):
        return "1" if v else "0"
    return str(v)


def norm_cfg(c):
    c = c or {}
    app = c.get("app") or {}
    pts = []
    for p in c.get("points", []):
        ty = p["ty"]
        init = p.get("init") if isinstance(p.get("init"), dict) else {}
        pts.append({"ty": ty, "ix": p["ix"], "cls": p.get("cls", 0),
                    "svar": p.get("svar") or DEFAULT_SVAR[ty],
                    "evar": p.get("evar") or DEFAULT_EVAR[ty],
                    "init": s(init.get("val")) if "val" in init else "?"})
    cz = c.get("class_zero")
    if cz is None:
        cz = [True, True, True, True, True, True, True, False]
    return {
        "oaddr": c.get("oaddr", 1024), "maddr": c.get("maddr", 1),
        "sol_buf": c.get("sol_buf", 2048), "unsol_buf": c.get("unsol_buf", 2048),
        "rx_buf": c.get("rx_buf", 2048),
        "confirm_to": c.get("confirm_to", 5000), "select_to": c.get("select_to", 5000),
        "unsol": c.get("unsol", True), "broadcast": c.get("broadcast", True),
        "self_addr": c.get("self_addr", False), "any_master": c.get("any_master", False),
        "retries": -1 if c.get("max_retries") is None else c["max_retries"],
        "retry_delay": c.get("retry_delay", 5000),
        "keep_alive": -1 if c.get("keep_alive") is None else c["keep_alive"],
        "max_controls": -1 if c.get("max_controls") is None else c["max_controls"],
        "evmax": (c.get("evmax") or [10] * 8) + [0] * (8 - len(c.get("evmax") or [10] * 8)),
        "class_zero": cz,
        "points": pts,
        "close": c.get("error_mode", "close") == "close",
        "app": {"time": bool(app.get("need_time")), "local": bool(app.get("local_control")),
                "trouble": bool(app.get("device_trouble")), "cfg": bool(app.get("config_corrupt"))},
    }


def norm_obj(o):
    return {
        "g": o.get("g", -1), "v": o.get("v", -1),
        "ix": o.get("ix", -1) if isinstance(o.get("ix", -1), int) else -1,
        "ty": o.get("ty", ""), "ev": bool(o.get("ev", False)),
        "val": s(o.get("val")), "fl": o.get("fl", -1),
        "tm": s(o.get("tm")), "tq": o.get("tq", ""),
        "st": o.get("status", -1),
    }


def norm_hdr(h):
    if "start" in h:
        a, b = h["start"], h["stop"]
    elif "count" in h:
        a, b = h["count"], -1
    else:
        a, b = -1, -1
    return {"g": h["g"], "v": h["v"], "q": h["q"], "a": a, "b": b}


def norm_iin(i):
    i = i or {}
    return {k: bool(i.get(k, False)) for k in IIN_KEYS}


def norm_tx(x):
    return {
        "t": x.get("t", 0), "fc": x.get("fc", -1), "seq": x.get("seq", -1),
        "fir": bool(x.get("fir")), "fin": bool(x.get("fin")), "con": bool(x.get("con")),
        "uns": bool(x.get("uns")), "bid": x.get("bid", 0), "len": x.get("len", 0),
        "wf": bool(x.get("wf")), "dst": x.get("dst", -1), "src": x.get("src", -1),
        "iin": norm_iin(x.get("iin")),
        "hdrs": [norm_hdr(h) for h in x.get("hdrs", [])],
        "objs": [norm_obj(o) for o in x.get("objs", [])],
    }


OPTYPE = {"sbo": 1, "do": 2, "dona": 3}


def norm_cb(c):
    t, k, n = c[0], c[1], c[2]
    ints, strs = [], []

    def walk(a):
        for v in a:
            if isinstance(v, bool):
                ints.append(1 if v else 0)
            elif isinstance(v, int):
                ints.append(v if -2**31 < v < 2**31 else -1)
            elif isinstance(v, list):
                walk(v)
            elif isinstance(v, str):
                if k == "ctl" and v in OPTYPE:
                    ints.append(OPTYPE[v])      # operate type as a number: sbo=1, do=2, dona=3
                else:
                    strs.append(v)
            else:
                strs.append(s(v))
    walk(c[3:])
    return {"t": t, "k": k, "n": n, "i": ints, "s": ":".join(strs)}


def dst_class(dst, cfg):
    if dst == cfg["oaddr"]:
        return "U"
    return {0xFFFF: "BC_OPT", 0xFFFE: "BC_MAN", 0xFFFD: "BC_NR", 0xFFFC: "SELF"}.get(
        dst, "RSVD" if dst >= 0xFFF0 else "OTHER")


def norm_line(r, cfg):
    """r: raw harness line; cfg: normalized cfg of the current scenario"""
    k = r.get("k", "")
    e = {"k": k, "t": r.get("t", 0)}
    tag = r.get("tag") or {}
    e["cls"] = tag.get("cls", "") if isinstance(tag, dict) else ""
    e["tag"] = tag.get("a", "") if isinstance(tag, dict) else ""
    if k == "reset":
        e["id"] = s(r.get("id"))
        e["cfg"] = cfg
        return e
    if k in ("dead", "hang", "bad_scenario"):
        return e
    e["tx"] = [norm_tx(x) for x in r.get("tx", [])]
    e["ltx"] = [{"t": x["t"], "fn": x["fn"], "dst": x["dst"], "src": x["src"],
                 "dir": x["dir"], "fcb": x["fcb"], "fcv": x["fcv"]} for x in r.get("ltx", [])]
    e["cb"] = [norm_cb(c) for c in r.get("cb", [])]
    e["panic"] = "panic" in r
    e["pmsg"] = (r.get("panic") or {}).get("loc", "")
    e["ended"] = bool(r.get("ended"))
    e["eof"] = bool(r.get("eof"))
    e["sess"] = [x[1].split(":")[0] for x in r.get("sess", [])]
    e["txerr"] = len(r.get("txerr", []))
    if k in ("upd", "upds"):
        e["k"] = "upd"
        items = []
        for u in r.get("items", []):
            info = u.get("info")
            kind, cid, did = "noevent", -1, -1
            if isinstance(info, list):
                kind = info[0]
                cid = info[1]
                did = info[2] if len(info) > 2 else -1
            elif isinstance(info, str):
                kind = info
            items.append({"ty": u.get("ty", ""), "ix": u.get("ix", -1), "val": s(u.get("val")),
                          "fl": u.get("fl", 1), "tm": s(u.get("tm")), "tq": u.get("tq", "s"),
                          "static": u.get("static", True), "mode": u.get("mode", "detect"),
                          "info": kind, "id": cid, "disc": did})
        e["items"] = items
    elif k in ("rx", "confirm"):
        e["k"] = "rx"
        f = r.get("frag", {})
        e["fc"] = f.get("fc", -1)
        e["seq"] = f.get("seq", -1)
        for b in ("fir", "fin", "con", "uns"):
            e[b] = bool(f.get(b))
        e["bid"] = f.get("bid", 0)
        e["obid"] = f.get("obid", 0)
        e["wf"] = bool(f.get("wf"))
        e["len"] = f.get("len", 0)
        e["hdrs"] = [norm_hdr(h) for h in f.get("hdrs", [])]
        e["robjs"] = [norm_obj(o) for o in f.get("objs", [])]
        src = r.get("src", cfg["maddr"])
        e["src"] = "M" if src == cfg["maddr"] else "X"
        e["dst"] = dst_class(r.get("dst", cfg["oaddr"]), cfg)
        e["noconn"] = bool(r.get("noconn"))
        if not e["cls"]:
            e["cls"] = "ok"
    elif k == "adv":
        e["dt"] = r.get("dt", 0)
    elif k == "app":
        e["app"] = {"time": r.get("need_time"), "local": r.get("local_control"),
                    "trouble": r.get("device_trouble"), "cfg": r.get("config_corrupt")}
        # -1 = unchanged, 0/1 = new value
        e["app"] = {kk: (-1 if v is None else (1 if v else 0)) for kk, v in e["app"].items()}
    elif k == "lrx":
        e["ctrl"] = r.get("ctrl", 0)
        e["src"] = "M" if r.get("src") == cfg["maddr"] else "X"
        e["dst"] = dst_class(r.get("dst", cfg["oaddr"]), cfg)
        e["corrupt"] = "corrupt" in r
    elif k == "raw":
        e["len"] = r.get("len", 0)
    return e


def normalize_file(src, dst):
    """returns number of lines written"""
    cfg = norm_cfg({})
    n = 0
    with open(src) as fi, open(dst, "w") as fo:
        for line in fi:
            line = line.strip()
            if not line:
                continue
            r = json.loads(line)
            if r.get("k") == "reset":
                cfg = norm_cfg(r.get("cfg"))
            fo.write(json.dumps(norm_line(r, cfg), separators=(",", ":")) + "\n")
            n += 1
    return n


# ---------------------------------------------------------------- master-side traces

def norm_mcfg(c):
    c = c or {}
    out = []
    for a in c.get("assocs", []):
        def anyb(v, d):
            return any(v) if isinstance(v, list) else d
        out.append({"addr": a.get("addr", 1024), "rt": a.get("response_timeout", 1000),
                    "dis": anyb(a.get("disable_unsol"), True), "integ": anyb(a.get("integrity"), True),
                    "en": anyb(a.get("enable_unsol"), True), "tsync": a.get("auto_time_sync") or "",
                    "rmin": a.get("retry_min", 1000), "rmax": a.get("retry_max", 10000),
                    "ka": -1 if a.get("keep_alive") is None else a["keep_alive"],
                    "ovfInteg": a.get("integrity_on_overflow", True), "evscan": anyb(a.get("event_scan"), False),
                    "maxq": a.get("max_queue", 16), "clock": c.get("time_base") is not None})
    return {"maddr": c.get("maddr", 1), "assocs": out, "enabled": c.get("enabled", True)}


def norm_mcb(c):
    t, k, n = c[0], c[1], c[2]
    if k == "rh" and n == "item":
        # [t, rh, item, assoc, ty, g, v, ix, val, fl, tm, tq, is_event]
        return {"t": t, "k": k, "n": n, "i": [c[3], c[5], c[6], c[7], c[9], 1 if c[12] else 0],
                "s": "%s|%s|%s|%s" % (c[4], s(c[8]), s(c[10]), c[11]), "x": ""}
    r = norm_cb(c)
    r["x"] = ""
    if k == "ai" and n == "task_fail" and ":" in r["s"]:
        r["s"], r["x"] = r["s"].split(":", 1)
    return r


def body_class(r, f):
    tag = r.get("tag") or {}
    if isinstance(tag, dict) and tag.get("body"):
        return tag["body"]
    if not f.get("wf", True):
        return "bad"
    return "data" if f.get("hdrs") else "empty"


def poll_id(x):
    """the scenarios give poll k of an association the k-th non-empty subset of the event classes: a READ of event
    classes only identifies its poll"""
    hs = x.get("hdrs", [])
    if x.get("fc") == 1 and hs and all(h.get("g") == 60 and h.get("v") in (2, 3, 4) for h in hs):
        mask = 0
        for h in hs:
            mask |= 1 << (h["v"] - 2)
        return mask - 1
    return -1


def norm_mline(r, cfg):
    k = r.get("k", "")
    e = {"k": k, "t": r.get("t", 0)}
    if k == "reset":
        e["id"] = s(r.get("id"))
        e["cfg"] = cfg
        return e
    if k in ("dead", "hang", "bad_scenario", "crash"):
        return e
    e["tx"] = [{"t": x.get("t", 0), "fc": x.get("fc", -1), "seq": x.get("seq", -1), "fir": bool(x.get("fir")),
                "fin": bool(x.get("fin")), "con": bool(x.get("con")), "uns": bool(x.get("uns")),
                "dst": x.get("dst", -1), "bid": x.get("bid", 0), "obid": x.get("obid", 0),
                "nobj": len(x.get("objs", [])), "wf": bool(x.get("wf", True)),
                "hdrs": [norm_hdr(h) for h in x.get("hdrs", [])], "pid": poll_id(x)} for x in r.get("tx", [])]
    e["ltx"] = [{"t": x["t"], "fn": x["fn"], "dst": x["dst"]} for x in r.get("ltx", [])]
    e["cb"] = [norm_mcb(c) for c in r.get("cb", [])]
    e["done"] = [{"t": d[0], "id": d[1] if isinstance(d[1], int) else -1,
                  "res": "BadOutstationTimeDelay" if s(d[2]).startswith("BadOutstationTimeDelay") else s(d[2])} for d in r.get("done", [])]
    e["panic"] = "panic" in r
    e["ended"] = bool(r.get("ended"))
    e["sess"] = [x[1].split(":")[0] for x in r.get("sess", [])]
    if k == "adv":
        e["dt"] = r.get("dt", 0)
    elif k == "req":
        objs = r.get("objs") or []
        e["req"] = {"id": r.get("id", 0), "a": r.get("assoc", cfg["assocs"][0]["addr"] if cfg["assocs"] else 1024),
                    "kind": r.get("kind", ""), "mode": r.get("mode", ""), "nobj": len(objs),
                    "ob": (r.get("tag") or {}).get("ob", ""), "pid": r.get("pid", 0), "period": r.get("period", 0),
                    "proc": r.get("proc", "")}
    elif k == "rx":
        f = r.get("frag", {})
        e["rx"] = {"fc": f.get("fc", -2), "seq": f.get("seq", -1), "fir": bool(f.get("fir")), "fin": bool(f.get("fin")),
                   "con": bool(f.get("con")), "uns": bool(f.get("uns")), "src": r.get("src", -1),
                   "iin": norm_iin(f.get("iin")), "body": body_class(r, f), "hash": f.get("obid", 0),
                   "bid": f.get("bid", 0), "wf": bool(f.get("wf", True)), "noconn": bool(r.get("noconn")),
                   "items": [{"g": o.get("g", -1), "v": o.get("v", -1), "ix": o.get("ix", -1) if isinstance(o.get("ix", -1), int) else -1,
                              "ty": o.get("ty", "")} for o in f.get("objs", []) if o.get("ty")]}
    elif k == "lrx":
        e["k"] = "rx"
        e["rx"] = {"fc": -1, "seq": 0, "fir": True, "fin": True, "con": False, "uns": False, "src": r.get("src", 1024),
                   "iin": norm_iin({}), "body": "link", "hash": 0, "bid": 0, "wf": True, "noconn": False, "items": []}
    return e


def normalize_master_file(src, dst):
    cfg = norm_mcfg({})
    n = 0
    with open(src) as fi, open(dst, "w") as fo:
        for line in fi:
            line = line.strip()
            if not line:
                continue
            r = json.loads(line)
            if r.get("k") == "reset":
                cfg = norm_mcfg(r.get("cfg"))
            fo.write(json.dumps(norm_mline(r, cfg), separators=(",", ":")) + "\n")
            n += 1
    return n


def normalize_link_file(src, dst):
    """link-level traces: nearly pass-through; the reset line carries kinds / stream from the scenario meta"""
    n = 0
    with open(src) as fi, open(dst, "w") as fo:
        for line in fi:
            line = line.strip()
            if not line:
                continue
            r = json.loads(line)
            k = r.get("k", "")
            if k == "reset":
                c = r.get("cfg") or {}
                meta = r.get("meta") or {}
                e = {"k": "reset", "id": s(r.get("id")),
                     "cfg": {"discard": bool(c.get("discard")), "datagram": bool(c.get("datagram")),
                             "is_master": bool(c.get("is_master")), "self_addr": bool(c.get("self_addr"))},
                     "kinds": meta.get("kinds", []),
                     "stream": [{"c": b["c"], "f": b["f"], "o": b["o"], "bad": bool(b["bad"])} for b in meta.get("stream", [])]}
            elif k == "chunk":
                e = {"k": "chunk", "n": r.get("n", 0), "delivered": r.get("delivered", []),
                     "closed": bool(r.get("closed")), "replies": r.get("replies", []), "panic": "panic" in r}
            elif k == "lframe":
                h = r.get("h") or {}
                e = {"k": "lframe", "h": {"dir": bool(h.get("dir")), "func": h.get("func", "OTHER"),
                                          "fcv": bool(h.get("fcv")), "fcb": bool(h.get("fcb")),
                                          "dst": h.get("dst", "OWN"), "src": h.get("src", "EP")},
                     "deliver": r.get("deliver", "none"), "bc": r.get("bc", ""), "reply": r.get("reply", "none"),
                     "ndeliver": r.get("ndeliver", 0), "nreply": r.get("nreply", 0), "closed": bool(r.get("closed")),
                     "panic": "panic" in r}
            elif k == "sweep":
                e = {"k": "sweep", "variants": r.get("variants", 0), "bad_delivered": r.get("bad_delivered", 0),
                     "follow_lost": r.get("follow_lost", 0), "follow_altered": r.get("follow_altered", 0),
                     "what": r.get("what", "")}
            else:
                e = {"k": k}
            fo.write(json.dumps(e, separators=(",", ":")) + "\n")
            n += 1
    return n


if __name__ == "__main__":
    import sys
    print(normalize_file(sys.argv[1], sys.argv[2]))
