------------------------------ MODULE Transport ------------------------------
(***************************************************************************)
(* Transport function: reassembly (transport/real/assembler.rs) and        *)
(* segmentation (transport/real/writer.rs).                                *)
(* A segment is [fir, fin, seq, src, bc, n, id]: header bits, 6-bit        *)
(* sequence, link source address, broadcast flag of the carrying frame,    *)
(* payload length, identity.  Cap is the receive buffer size.              *)
(*                                                                         *)
(* Asm*  - the assembler as built (state Empty / Running / Complete)       *)
(* Ref*  - the property: a fragment is delivered iff it is a maximal run   *)
(*         FIR ... FIN of consecutive sequence numbers from one source     *)
(*         that fits the buffer; a broadcast only as a single FIR+FIN      *)
(*         segment; a damaged run costs only itself                        *)
(***************************************************************************)
EXTENDS Naturals, Sequences, TLC

CONSTANT Cap

S64(n) == n % 64

\* ---- assembler as built: a = [st, src, bc, seq, len, parts]
AsmInit == [st |-> "Empty", src |-> 0, bc |-> FALSE, seq |-> 0, len |-> 0, parts |-> <<>>]
Empty(a) == [a EXCEPT !.st = "Empty", !.len = 0, !.parts = <<>>]

\* append: returns [a, out]  (out = <<>> or <<delivered fragment>>)
Append_(a, g, accLen, accParts) ==
    LET newLen == accLen + g.n IN
    IF newLen > Cap THEN [a |-> Empty(a), out |-> <<>>]
    ELSE IF g.fin
      THEN \* Complete: the probe / session pops it at once
           [a |-> Empty(a), out |-> <<[src |-> g.src, bc |-> g.bc, parts |-> Append(accParts, g.id), len |-> newLen]>>]
      ELSE [a |-> [st |-> "Running", src |-> g.src, bc |-> g.bc, seq |-> g.seq, len |-> newLen,
                   parts |-> Append(accParts, g.id)], out |-> <<>>]

Assemble(a0, g) ==
    LET a == IF g.fir THEN Empty(a0) ELSE a0      \* FIR always clears the state
    IN IF g.bc THEN
            IF g.fir /\ g.fin THEN Append_(a, g, 0, <<>>) ELSE [a |-> a, out |-> <<>>]
       ELSE IF a.st = "Empty" THEN
            IF ~g.fir THEN [a |-> a, out |-> <<>>] ELSE Append_(a, g, 0, <<>>)
       ELSE \* Running
            IF g.seq # S64(a.seq + 1) THEN [a |-> Empty(a), out |-> <<>>]
            ELSE IF g.src # a.src \/ g.bc # a.bc THEN [a |-> Empty(a), out |-> <<>>]
            ELSE Append_(a, g, a.len, a.parts)

\* ---- the property as an automaton over the same stream: c = candidate run (sequence of segments)
RefInit == <<>>
Fits(c, g) == LET tot == IF c = <<>> THEN 0 ELSE c[Len(c)].acc IN tot + g.n <= Cap
Tag(c, g) == [g EXCEPT !.acc = (IF c = <<>> THEN 0 ELSE c[Len(c)].acc) + g.n]
RefStep(c, g0) ==
    LET g == g0 @@ [acc |-> 0]
        \* does g continue the candidate?
        cont == c # <<>> /\ ~g.fir /\ ~g.bc /\ g.seq = S64(c[Len(c)].seq + 1) /\ g.src = c[1].src /\ ~c[1].bc
        base == IF cont THEN c ELSE <<>>
        starts == g.fir /\ (~g.bc \/ g.fin)
    IN IF cont \/ starts THEN
            IF ~Fits(base, g) THEN [c |-> <<>>, out |-> <<>>]
            ELSE LET c1 == Append(base, Tag(base, g))
                 IN IF g.fin
                      THEN [c |-> <<>>, out |-> <<[src |-> c1[1].src, bc |-> c1[1].bc,
                                                   parts |-> [i \in 1..Len(c1) |-> c1[i].id], len |-> c1[Len(c1)].acc]>>]
                      ELSE [c |-> c1, out |-> <<>>]
       ELSE \* g neither continues nor starts a run: a pending run is lost (unless g is a stray broadcast
            \* piece or a non-FIR segment with nothing pending, which cost nothing)
            \* (a FIR segment of any kind ends a pending run - the property leaves this case open and
            \*  the reference follows the code; a non-FIR broadcast piece is simply ignored)
            IF g.bc /\ ~g.fir THEN [c |-> c, out |-> <<>>]
            ELSE [c |-> <<>>, out |-> <<>>]

\* ---- writer: segmentation of a fragment of length L starting at transport sequence s
NSeg(L) == IF L = 0 THEN 0 ELSE (L + 248) \div 249
Segments(L, s) == [i \in 1..NSeg(L) |->
                      [fir |-> i = 1, fin |-> i = NSeg(L), seq |-> S64(s + i - 1),
                       n |-> IF i < NSeg(L) THEN 249 ELSE L - 249 * (NSeg(L) - 1)]]
=============================================================================
