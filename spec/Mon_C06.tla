------------------------------ MODULE Mon_C06 ------------------------------
(***************************************************************************)
(* C06 - Only intact link frames are delivered, and every frame sent is    *)
(* recovered.  Events of a link-reader trace:                              *)
(*   reset   cfg (discard, datagram), kinds (kind of each frame),          *)
(*           stream (every abstract byte of the scenario, in order)        *)
(*   chunk   n bytes handed to one read; delivered = ids of the frames the *)
(*           reader passed up (0 = a frame that matches none sent intact), *)
(*           closed = the session ended with a link error                  *)
(*   sweep   bulk result: variants tried, corrupted variants delivered,    *)
(*           intact following frames lost / delivered altered              *)
(* Verdicts: corrupt-delivered, stitched (datagram), order/dup, lost-frame *)
(* (at the end of the stream the deliveries equal the leftmost-first scan  *)
(* of the whole stream, whatever the split), close-mode-continued.         *)
(***************************************************************************)
EXTENDS Link

MonInit == [viol |-> <<>>, sc |-> "", cfg |-> [discard |-> TRUE, datagram |-> FALSE], kinds |-> <<>>,
            stream |-> <<>>, pos |-> 0, got |-> <<>>, closed |-> FALSE, dgram |-> <<>>]
V(m, reason, l, ctx) == [m EXCEPT !.viol = IF Len(@) >= 300 THEN @ ELSE Append(@, [prop |-> "C06", reason |-> reason, line |-> l, sc |-> m.sc, ctx |-> ctx])]


\* datagram mode reference: frames wholly inside one datagram, leftmost-first inside it
RECURSIVE DgIdeal(_, _)
DgIdeal(dgs, kinds) == IF dgs = <<>> THEN <<>> ELSE Ideal(Head(dgs), kinds) \o DgIdeal(Tail(dgs), kinds)

MonStep(m, e, l) ==
    IF e.k = "reset" THEN [MonInit EXCEPT !.viol = m.viol, !.sc = e.id, !.cfg = e.cfg, !.kinds = e.kinds,
                                          !.stream = e.stream]
    ELSE IF e.k = "sweep" THEN
        IF e.bad_delivered > 0
          THEN V(m, "corrupt-delivered", l, "a frame damaged in transit was delivered")
        ELSE IF e.follow_altered > 0
          THEN V(m, "altered", l, "the intact frame following a damaged one was delivered with other contents than transmitted")
        ELSE IF e.follow_lost > 0
          THEN V(m, "lost-frame", l, "the intact frame following a damaged one was not found (discard mode)")
        ELSE m
    ELSE IF e.k # "chunk" THEN m
    ELSE
    LET pos1 == m.pos + e.n
        got1 == m.got \o e.delivered
        dg1  == Append(m.dgram, SubSeq(m.stream, m.pos + 1, pos1))
        sofar == SubSeq(m.stream, 1, pos1)
        last == pos1 >= Len(m.stream)
        ref  == IF m.cfg.datagram THEN DgIdeal(dg1, m.kinds)
                ELSE IF m.cfg.discard THEN Ideal(sofar, m.kinds) ELSE IdealClose(sofar, m.kinds)
        m1 == IF \E i \in 1..Len(e.delivered) : e.delivered[i] = 0
                THEN V(m, "corrupt-delivered", l, "delivered frame equals no frame that was sent intact") ELSE m
        m2 == IF m.closed /\ e.delivered # <<>>
                THEN V(m1, "close-mode-continued", l, "frames delivered after the session ended") ELSE m1
        \* soundness and order at every step: what was delivered so far is a prefix of the reference
        m3 == IF ~IsPrefix(SelectSeq(got1, LAMBDA k : k # 0), ref)
                THEN V(m2, IF m.cfg.datagram THEN "stitched" ELSE "order", l,
                       "deliveries are not a prefix of the reference scan (wrong frame, order, duplicate or stitched)")
                ELSE m2
        \* completeness once the whole stream has been handed over
        m4 == IF last /\ Len(SelectSeq(got1, LAMBDA k : k # 0)) < Len(ref) /\ IsPrefix(SelectSeq(got1, LAMBDA k : k # 0), ref)
                THEN V(m3, "lost-frame", l, "an intact frame of the stream was never delivered") ELSE m3
    IN [m4 EXCEPT !.pos = pos1, !.got = got1, !.dgram = dg1, !.closed = @ \/ e.closed]

Claimed == {"C06"}
=============================================================================
