SPECIFICATION Spec
CONSTANTS
  Pts <- Pts_os2_cap1
  EvMax <- EvMax_os2
  SolBudget = 245
  UnsolBudget = 245
  ConfirmTO = 1000
  RetryDelay = 2000
  SelectTO = 1000
  Retries = 1
  UnsolOn = TRUE
  ClassZero <- CZ_os
  DEV <- DEV_none
  MaxUpd = 3
  MaxSteps = 6
  Classes <- Cl123
  MonName = "C03"
  Alpha = "events"
INVARIANT NoViolation
INVARIANT NoPanic
INVARIANT CountersExact
INVARIANT LedgerAgrees
VIEW View
CHECK_DEADLOCK FALSE
