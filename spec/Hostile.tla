------------------------------- MODULE Hostile -------------------------------
(***************************************************************************)
(* The classes of hostile input of C01 as a product space, enumerated by   *)
(* TLC: what a peer can send that is not a well-formed, expected message,  *)
(* at each layer, and how it is cut into reads.  The bytes of a class are  *)
(* drawn by lib/hostile.py (seeded); object-level cases come from the      *)
(* enumeration of AppCodec.tla.  Where the stimulus arrives - the session  *)
(* state - is covered by prefixing every stimulus with behaviours of       *)
(* Outstation.tla / Master.tla that reach every abstract state (the        *)
(* abstract-transition covers of MC_O_events and MC_Master).               *)
(***************************************************************************)
EXTENDS Naturals, Sequences, FiniteSets, TLC, Json
VARIABLE x

LinkKinds == {"noise", "sync_noise", "bad_hdr_crc", "bad_body_crc", "len_short", "len_long", "trunc_frame",
              "wrong_dir", "unknown_func", "other_dest", "header_only_data"}
Sizes == {1, 9, 40, 292, 3000}
TransKinds == {"random_payload", "no_fir", "never_fin", "empty_segment", "seq_jump", "fir_twice"}
AppKinds == {"one_byte", "header_only", "random_objects", "case", "max_size", "end_of_range", "huge_count", "trunc_valid", "extend_valid"}
\* function codes offered to an outstation / a master (including ones meant for the other role and undefined ones)
FcToOutstation == {0, 1, 2, 3, 4, 5, 6, 7, 8, 9, 10, 11, 12, 13, 14, 20, 21, 22, 23, 24, 25, 26, 27, 28, 29, 30, 31, 32, 33, 70, 129, 130, 131, 255}
FcToMaster == {129, 130, 131, 0, 1, 2, 70, 255}
Chunkings == {"whole", "bytes", "two", "three"}
Controls == {"firfin", "fir", "fin", "none", "con", "uns"}

Stimuli(role) ==
    {[lay |-> "link", kind |-> k, n |-> n, fc |-> 0, ctl |-> "firfin", chunk |-> c] : k \in LinkKinds, n \in Sizes, c \in {"whole", "bytes", "two"}}
    \cup {[lay |-> "tr", kind |-> k, n |-> n, fc |-> 0, ctl |-> "firfin", chunk |-> c] : k \in TransKinds, n \in {1, 40, 292}, c \in {"whole", "two"}}
    \cup {[lay |-> "app", kind |-> k, n |-> n, fc |-> f, ctl |-> ct, chunk |-> c] :
              k \in AppKinds, n \in {1, 40}, f \in (IF role = "outstation" THEN FcToOutstation ELSE FcToMaster),
              ct \in Controls, c \in {"whole", "three"}}

ASSUME \A r \in {"outstation", "master"} : \A s \in Stimuli(r) : PrintT(<<"STIM", ToJson([role |-> r, s |-> s])>>)

Init == x = 0
Next == x' = x
Spec == Init /\ [][Next]_x
=============================================================================
