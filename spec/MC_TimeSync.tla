---------------------------- MODULE MC_TimeSync ----------------------------
(***************************************************************************)
(* TimeSync.tla over boundary parameters: both procedures, one-way delays  *)
(* from 0 to beyond 65535 ms, equal and asymmetric, real and reported      *)
(* processing delays (honest, and lying beyond the round trip), a master   *)
(* clock near the end of the 48-bit range, an application that still needs *)
(* time, replies with unexpected objects.                                  *)
(***************************************************************************)
EXTENDS TimeSync, Json
VARIABLE s

Delays == {0, 1, 2, 7, 500, 501, 65535, 70000}
Procs == {0, 3, 250, 65535}
Big == 2000000000
\* "tight": the master's clock stays inside the 48-bit range for the whole procedure, but clock + propagation delay at
\* the moment the master computes the time to write does not
Tight(c) == c.fwd + c.pAct + c.back + ((c.fwd + c.back) \div 4)
Params == [proc : {"lan", "nonlan"}, fwd : Delays, back : Delays, pAct : Procs, pRep : Procs \cup {10}, room : {Big, 0},
           keep : BOOLEAN, junk : {0, 1, 2, 3}]
\* the reported delay only matters for the non-LAN procedure; lying is explored with small real delays
Relevant(c) == /\ (c.proc = "lan" => c.pAct = 0 /\ c.pRep = 0)
               /\ (c.pRep # c.pAct => c.proc = "nonlan" /\ c.fwd \in {0, 2, 500} /\ c.back \in {0, 7, 500})
               /\ (c.junk # 0 => ~c.keep /\ c.room = Big)
               /\ (c.junk = 3 => c.proc = "nonlan")
               /\ (c.room < Big => c.proc = "nonlan" /\ c.fwd + c.back >= 4 /\ c.fwd <= 501 /\ c.back <= 501 /\ c.pAct \in {0, 3} /\ c.pRep = c.pAct)

\* histories of the LAN procedure at the outstation: they start with a RECORD_CURRENT_TIME and contain a WRITE
LanLen == 5
LanHistories == UNION {{h \in [1..n -> LanOps] : h[1] = "R" /\ (\E i \in 1..n : h[i] = "W") /\ h[n] \in {"W", "Rr"}} : n \in 2..LanLen}
ASSUME \A h \in LanHistories : PrintT(<<"LAN", ToJson(h)>>)

MCInit == \E c \in Params : Relevant(c) /\ s = Init(IF c.room = 0 THEN [c EXCEPT !.room = Tight(c)] ELSE c)
MCNext == s.pc # "done" /\ s' = Step(s)
Spec == MCInit /\ [][MCNext]_s

AtEnd(P(_)) == s.pc = "done" => P(s)
InvAccurate == AtEnd(Accurate)
InvFailsWhenItMust == AtEnd(FailsWhenItMust)
InvFailsOnBadDelay == AtEnd(FailsOnBadDelay)
InvSucceedsOtherwise == AtEnd(SucceedsOtherwise)
ExportAll == s.pc # "done" \/ PrintT(<<"SCENARIO", ToJson([c |-> s.c, res |-> s.res, wrote |-> s.wrote, tm |-> s.tm, tmAt |-> s.tmAt])>>)
=============================================================================
