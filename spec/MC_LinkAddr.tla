---------------------------- MODULE MC_LinkAddr ----------------------------
(***************************************************************************)
(* All link headers (direction x function x FCV x FCB x destination class  *)
(* x source class) in every secondary-station state, for one station       *)
(* configuration, with Mon_C07L in lock-step; ExportAll + CoverView give   *)
(* one history per (state, header) pair for replay on the real Layer.      *)
(***************************************************************************)
EXTENDS LinkAddr, Json, Integers

CONSTANTS IsMaster, SelfAddr, MaxSteps, Small
Mon == INSTANCE Mon_C07L

FullHeaders == [dir : BOOLEAN, func : Funcs, fcv : BOOLEAN, fcb : BOOLEAN, dst : Dsts, src : {"EP", "BAD"}]
\* the reduced alphabet of the 3-switch cover: well-addressed primary frames that drive the frame-count-bit automaton
SmallHeaders == [dir : {~IsMaster}, func : {"RESET", "TEST", "CONF_DATA", "UNCONF_DATA"}, fcv : BOOLEAN, fcb : BOOLEAN,
                 dst : {"OWN"}, src : {"EP"}]
Headers == IF Small THEN SmallHeaders ELSE FullHeaders

VARIABLES sec, m, hist
vars == <<sec, m, hist>>

ResetEv == [k |-> "reset", id |-> "mc", cfg |-> [is_master |-> IsMaster, self_addr |-> SelfAddr]]
Init == sec = SecInit /\ m = Mon!MonStep(Mon!MonInit, ResetEv, 0) /\ hist = <<>>
Next == /\ Len(hist) < MaxSteps
        /\ \E h \in Headers :
              LET p == ProcessHeader(sec, h, IsMaster, SelfAddr)
                  e == [k |-> "lframe", h |-> h, deliver |-> p.deliver, bc |-> p.bc, reply |-> p.reply]
              IN sec' = p.sec /\ m' = Mon!MonStep(m, e, Len(hist) + 1) /\ hist' = Append(hist, h)
Spec == Init /\ [][Next]_vars
NoViolation == m.viol = <<>>
View == <<sec, m.reset, m.lastFcb>>
LastK(k) == SubSeq(hist, IF Len(hist) > k THEN Len(hist) - k + 1 ELSE 1, Len(hist))
CoverView == <<sec, LastK(IF Small THEN 3 ELSE 1)>>
ExportAll == hist = <<>> \/ PrintT(<<"SCENARIO", ToJson(hist)>>)
=============================================================================
