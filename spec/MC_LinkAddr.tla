---------------------------- MODULE MC_LinkAddr ----------------------------
(***************************************************************************)
(* All link headers (direction x function x FCV x FCB x destination class  *)
(* x source class) in every secondary-station state, for one station       *)
(* configuration, with Mon_C07L in lock-step; ExportAll + CoverView give   *)
(* one history per (state, header) pair for replay on the real Layer.      *)
(***************************************************************************)
EXTENDS LinkAddr, Json, Integers

CONSTANTS IsMaster, SelfAddr, MaxSteps
Mon == INSTANCE Mon_C07L

Headers == [dir : BOOLEAN, func : Funcs, fcv : BOOLEAN, fcb : BOOLEAN, dst : Dsts, src : {"EP", "BAD"}]

VARIABLES sec, m, hist
vars == <<sec, m, hist>>

ResetEv == [k |-> "reset", id |-> "mc", cfg |-> [is_master |-> IsMaster, self_addr |-> SelfAddr]]
Init == sec = SecInit /\ m = Mon!MonStep(Mon!MonInit, ResetEv, 0) /\ hist = <<>>
Next == /\ Len(hist) < MaxSteps
        /\ \E h \in Headers :
              LET p == ProcessHeader(sec, h, IsMaster, SelfAddr)
                  e == [k |-> "lframe", h |-> h, deliver |-> p.deliver, bc |-> p.bc, reply |-> p.reply]
              IN sec' = p.sec /\ m' = Mon!MonStep(m, e, Len(hist) + 1) /\ hist' = Append(hist, h)
Spec == Init /\ [][Next]_vars
NoViolation == m.viol = <<>>
View == <<sec, m.reset, m.lastFcb>>
CoverView == <<sec, IF hist = <<>> THEN <<>> ELSE <<hist[Len(hist)]>>>>
ExportAll == hist = <<>> \/ PrintT(<<"SCENARIO", ToJson(hist)>>)
=============================================================================
