------------------------------ MODULE Mon_C11 ------------------------------
(***************************************************************************)
(* C11 - A READ is answered with a complete, consistent snapshot as an     *)
(* orderly series.  The monitor mirrors the database from the update       *)
(* calls, takes a snapshot when the first fragment of the answer to a READ *)
(* appears, and checks over the fragments of that series:                  *)
(*   leak / stale     a static object whose value is not the snapshot's    *)
(*   missing / duplicate / unexpected                                      *)
(*                    at FIN every selected point was reported exactly     *)
(*                    once (per request header), nothing else              *)
(*   order            ascending index within a type                        *)
(*   variation        requested or configured variation (flag promotion of *)
(*                    the packed formats allowed)                          *)
(*   fir / fin / seq-gap / no-con / early-next / not-ended                 *)
(*                    FIR on the first fragment only, consecutive sequence *)
(*                    numbers, CON on every non-final or event-bearing     *)
(*                    fragment, the next fragment only in reaction to the  *)
(*                    matching confirm, nothing after a new request, a     *)
(*                    timeout or a disconnect                              *)
(*   no-progress      a non-final fragment that carries no object          *)
(*   packed-flags     the packed variation of a binary / double-bit point  *)
(*                    is used exactly when the snapshot value's flags are  *)
(*                    plainly ONLINE                                       *)
(***************************************************************************)
EXTENDS MonBase

StaticGroups == {1, 3, 10, 20, 21, 30, 40, 110}
TypeOfStGroup(g) ==
    CASE g = 1 -> "bi" [] g = 3 -> "dbi" [] g = 10 -> "bos" [] g = 20 -> "ctr" [] g = 21 -> "fctr"
      [] g = 30 -> "ai" [] g = 40 -> "aos" [] g = 110 -> "os" [] OTHER -> ""
StGroupOf(ty) ==
    CASE ty = "bi" -> 1 [] ty = "dbi" -> 3 [] ty = "bos" -> 10 [] ty = "ctr" -> 20 [] ty = "fctr" -> 21
      [] ty = "ai" -> 30 [] ty = "aos" -> 40 [] ty = "os" -> 110 [] OTHER -> 0

NoSer == [active |-> FALSE, check |-> FALSE, next |-> -1, snap |-> <<>>, exp |-> <<>>, got |-> <<>>,
          hdrs |-> <<>>, lastT |-> 0, lastBid |-> -1, awaitSeq |-> -1,
          wait |-> FALSE]      \* the last fragment asked for a confirm that has not arrived yet

MonInit == [cfg |-> [confirm_to |-> 5000, any_master |-> FALSE, self_addr |-> FALSE, points |-> <<>>,
                     class_zero |-> <<>>],
            sc |-> "", viol |-> <<>>,
            db |-> <<>>,                                     \* <<[ty, ix, val]>> mirror of the static values
            rd |-> [pend |-> FALSE, seq |-> -1, hdrs |-> <<>>, bid |-> -1],
            ser |-> NoSer,
            lastReq |-> [bid |-> -1, seq |-> -1]]

V(m, reason, l, ctx) == [m EXCEPT !.viol = IF Len(@) >= 300 THEN @ ELSE Append(@, Viol("C11", reason, l, m.sc, ctx))]

InitDb(cfg) == [i \in 1..Len(cfg.points) |-> [ty |-> cfg.points[i].ty, ix |-> cfg.points[i].ix,
                                              val |-> cfg.points[i].init, fl |-> 1]]
SetVal(db, ty, ix, val, fl) == [i \in 1..Len(db) |-> IF db[i].ty = ty /\ db[i].ix = ix THEN [db[i] EXCEPT !.val = val, !.fl = fl] ELSE db[i]]
FlOf(db, ty, ix) == LET r == SelectSeq(db, LAMBDA d : d.ty = ty /\ d.ix = ix) IN IF r = <<>> THEN 1 ELSE r[1].fl
\* flags proper (the state bits of binary and double-bit points are not flags)
PlainOnline(ty, fl) == (IF ty = "dbi" THEN fl % 64 ELSE fl % 128) = 1
ValOf(db, ty, ix) == LET r == SelectSeq(db, LAMBDA d : d.ty = ty /\ d.ix = ix) IN IF r = <<>> THEN "?" ELSE r[1].val

\* points a header selects, as <<[ty, ix, v]>> (v = requested variation, 0 = configured)
HdrPoints(cfg, h) ==
    LET pts == cfg.points
    IN CASE h.g = 60 /\ h.v = 1 ->
              LET sel == SelectSeq(pts, LAMBDA p : TypeIndex(p.ty) > 0 /\ cfg.class_zero[TypeIndex(p.ty)])
              IN [i \in 1..Len(sel) |-> [ty |-> sel[i].ty, ix |-> sel[i].ix, v |-> 0]]
         [] h.g \in StaticGroups ->
              LET ty == TypeOfStGroup(h.g)
                  sel == SelectSeq(pts, LAMBDA p : p.ty = ty /\ (h.q = 6 \/ (h.q \in {0, 1} /\ p.ix >= h.a /\ p.ix <= h.b)))
              IN [i \in 1..Len(sel) |-> [ty |-> sel[i].ty, ix |-> sel[i].ix, v |-> h.v]]
         [] OTHER -> <<>>
HdrKnown(h) == (h.g = 60 /\ h.v \in 1..4) \/ (h.g \in StaticGroups /\ h.q \in {0, 1, 6}) \/ h.g \in EventGroups
Expected(cfg, hdrs) == FoldLeft(LAMBDA acc, h : acc \o HdrPoints(cfg, h), <<>>, hdrs)

Svar(cfg, ty, ix) == LET ps == SelectSeq(cfg.points, LAMBDA p : p.ty = ty /\ p.ix = ix)
                     IN IF ps = <<>> THEN 0 ELSE ps[1].svar
\* packed variations are promoted to the flagged one when flags are not plainly ONLINE
VarAllowed(want, got, ty) == got = want \/ (ty \in {"bi", "dbi", "bos"} /\ want = 1 /\ got = 2) \/ ty = "os"

Count(seq, ty, ix) == Len(SelectSeq(seq, LAMBDA r : r.ty = ty /\ r.ix = ix))

StObjs(x) == SelectSeq(x.objs, LAMBDA o : ~o.ev /\ o.ty # "" /\ o.g \in StaticGroups)
HasEvents(x) == \E i \in 1..Len(x.objs) : x.objs[i].ev

\* one fragment of the series
SeriesFragment(m, x, e, l, first) ==
    LET sr == m.ser
        objs == StObjs(x)
        m1 == IF ~first /\ x.fir THEN V(m, "fir", l, "FIR on a later fragment of the series") ELSE m
        m2a == IF ~x.fin /\ ~x.con THEN V(m1, "no-con", l, "non-final fragment without CON") ELSE m1
        \* an orderly series makes progress: a fragment that is not the last one carries something
        m2 == IF ~x.fin /\ x.objs = <<>> THEN V(m2a, "no-progress", l, "empty non-final fragment") ELSE m2a
        m3 == IF HasEvents(x) /\ ~x.con THEN V(m2, "no-con", l, "event-bearing fragment without CON") ELSE m2
        \* the next fragment may only be sent in reaction to the confirm of the previous one
        m4 == IF ~first /\ ~(IsConfirm(e) /\ ~e.uns /\ e.seq = sr.awaitSeq)
                THEN V(m3, "early-next", l, "next fragment sent without the matching confirm") ELSE m3
        bad == SelectSeq(objs, LAMBDA o : ValOf(sr.snap, o.ty, o.ix) # "?" /\ o.val # ValOf(sr.snap, o.ty, o.ix))
        leak == \E i \in 1..Len(bad) : bad[i].val = ValOf(m.db, bad[i].ty, bad[i].ix)
        m5 == IF sr.check /\ bad # <<>>
                THEN V(m4, IF leak THEN "leak" ELSE "stale", l,
                       "static object does not carry the value the point had when the READ was processed") ELSE m4
        got == sr.got \o [i \in 1..Len(objs) |-> [ty |-> objs[i].ty, ix |-> objs[i].ix, v |-> objs[i].v]]
        \* ascending index within a run of one type inside the fragment
        m6 == IF \E i \in 1..(Len(objs) - 1) : objs[i].ty = objs[i + 1].ty /\ objs[i].g = objs[i + 1].g
                                               /\ objs[i].ix >= objs[i + 1].ix /\ Len(sr.hdrs) = 1
                THEN V(m5, "order", l, "static objects not in ascending index order") ELSE m5
        \* completeness at the end of the series
        missing == \E i \in 1..Len(sr.exp) : Count(got, sr.exp[i].ty, sr.exp[i].ix) < Count(sr.exp, sr.exp[i].ty, sr.exp[i].ix)
        extra   == \E i \in 1..Len(got) : Count(got, got[i].ty, got[i].ix) > Count(sr.exp, got[i].ty, got[i].ix)
        m7 == IF sr.check /\ x.fin /\ missing
                THEN V(m6, "missing", l, "a selected point was not reported in the series") ELSE m6
        m8 == IF sr.check /\ extra
                THEN V(m7, "duplicate", l, "a point was reported more often than it was selected") ELSE m7
        varBad == \E i \in 1..Len(objs) :
                     LET want == LET hs == SelectSeq(sr.exp, LAMBDA r : r.ty = objs[i].ty /\ r.ix = objs[i].ix)
                                 IN IF hs = <<>> \/ hs[1].v = 0 THEN Svar(m.cfg, objs[i].ty, objs[i].ix) ELSE hs[1].v
                     IN ~VarAllowed(want, objs[i].v, objs[i].ty)
        m9a == IF sr.check /\ varBad
                THEN V(m8, "variation", l, "static object not in the requested / configured variation") ELSE m8
        \* a packed variation is used exactly when the value of the snapshot is plainly ONLINE
        pkBad == \E i \in 1..Len(objs) :
                     LET o == objs[i]
                         want == LET hs == SelectSeq(sr.exp, LAMBDA r : r.ty = o.ty /\ r.ix = o.ix)
                                 IN IF hs = <<>> \/ hs[1].v = 0 THEN Svar(m.cfg, o.ty, o.ix) ELSE hs[1].v
                     IN o.ty \in {"bi", "dbi", "bos"} /\ want = 1 /\ ValOf(sr.snap, o.ty, o.ix) # "?"
                        /\ (o.v = 1) # PlainOnline(o.ty, FlOf(sr.snap, o.ty, o.ix))
        m9 == IF sr.check /\ ~varBad /\ pkBad
                THEN V(m9a, "packed-flags", l, "packed variation used for a value that is not plainly ONLINE in the snapshot, or not used for one that is")
                ELSE m9a
    IN [m9 EXCEPT !.ser = [sr EXCEPT !.got = got, !.next = Seq16(x.seq + 1), !.active = ~x.fin,
                                     !.lastT = x.t, !.lastBid = x.bid, !.awaitSeq = x.seq, !.wait = x.con]]

TxStep(m, x, e, l) ==
    IF x.uns THEN m
    ELSE
    LET isEcho == m.ser.wait /\ x.seq = m.ser.awaitSeq
                  /\ IsReq(e) /\ e.bid = m.lastReq.bid /\ e.seq = m.lastReq.seq
        starts == x.fir /\ m.rd.pend /\ x.seq = m.rd.seq /\ ~isEcho
    IN IF isEcho THEN [m EXCEPT !.ser.lastT = x.t]
       ELSE IF starts THEN
            LET known == \A i \in 1..Len(m.rd.hdrs) : HdrKnown(m.rd.hdrs[i])
                m1 == [m EXCEPT !.rd.pend = FALSE,
                                !.lastReq = [bid |-> m.rd.bid, seq |-> m.rd.seq],
                                !.ser = [NoSer EXCEPT !.active = TRUE, !.check = known /\ ~Iin2Err(x),
                                                      !.next = x.seq, !.snap = m.db,
                                                      !.exp = Expected(m.cfg, m.rd.hdrs), !.hdrs = m.rd.hdrs]]
            IN SeriesFragment(m1, x, e, l, TRUE)
       ELSE IF ~x.fir THEN
            \* a continuation fragment
            IF ~m.ser.active
              THEN V(m, "not-ended", l, "series continued after it had ended (new request, timeout, disconnect or FIN)")
            ELSE IF x.seq # m.ser.next
              THEN V(m, "seq-gap", l, "sequence numbers of the series not consecutive")
            ELSE SeriesFragment(m, x, e, l, FALSE)
       ELSE m

MonStep(m, e, l) ==
    IF e.k = "reset" THEN [MonInit EXCEPT !.cfg = e.cfg, !.sc = e.id, !.viol = m.viol, !.db = InitDb(e.cfg)]
    ELSE IF ~HasOutputs(e) THEN m
    ELSE
    LET \* the series ends by timeout
        m00 == IF (m.ser.active \/ m.ser.wait) /\ e.t >= m.ser.lastT + m.cfg.confirm_to
                 THEN [m EXCEPT !.ser.active = FALSE, !.ser.wait = FALSE] ELSE m
        \* the matching confirm ends the wait for the last fragment
        m0 == IF IsConfirm(e) /\ ~e.uns /\ m00.ser.wait /\ e.seq = m00.ser.awaitSeq /\ SrcOk(e, m.cfg)
                 THEN [m00 EXCEPT !.ser.wait = FALSE] ELSE m00
        m1 == CASE e.k = "upd" ->
                    [m0 EXCEPT !.db = FoldLeft(LAMBDA acc, it : IF it.static /\ it.info # "nopoint"
                                                                 THEN SetVal(acc, it.ty, it.ix, it.val, it.fl) ELSE acc,
                                               @, e.items)]
                [] e.k \in {"cut", "conn", "raw"} ->
                    [m0 EXCEPT !.ser.active = FALSE, !.ser.wait = FALSE, !.rd.pend = FALSE,
                               !.lastReq = [bid |-> -1, seq |-> -1]]
                [] e.k = "rx" /\ IsReq(e) /\ SrcOk(e, m.cfg) /\ (Unicast(e, m.cfg) \/ Broadcast(e)) /\ ~e.noconn ->
                    LET rep == Unicast(e, m.cfg) /\ e.bid = m0.lastReq.bid /\ e.seq = m0.lastReq.seq /\ e.fc = 1
                    IN IF rep /\ m0.ser.wait THEN m0         \* a READ repeated in the confirm wait is echoed
                       ELSE [m0 EXCEPT !.ser.active = FALSE, !.ser.wait = FALSE,
                                       !.rd = IF e.fc = 1 /\ e.wf /\ Unicast(e, m.cfg)
                                                THEN [pend |-> TRUE, seq |-> e.seq, hdrs |-> e.hdrs, bid |-> e.bid]
                                                ELSE [@ EXCEPT !.pend = FALSE],
                                       !.lastReq = IF Unicast(e, m.cfg) /\ e.wf /\ ProcessedNow(e)
                                                     THEN [bid |-> e.bid, seq |-> e.seq] ELSE @]
                [] OTHER -> m0
    IN FoldLeft(LAMBDA acc, x : TxStep(acc, x, e, l), m1, e.tx)

Claimed == {"C11"}
=============================================================================
