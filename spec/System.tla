------------------------------- MODULE System -------------------------------
(***************************************************************************)
(* Master || channel || outstation at the level of the data that flows     *)
(* (C02): database versions, the outstation's event buffer with its        *)
(* written / unwritten marks, fragments in flight in both directions,      *)
(* confirms, unsolicited reporting, connection cuts that lose what is in   *)
(* flight, the integrity poll a master runs on every new connection and    *)
(* its periodic polls.  Protocol details (sequence numbers, IIN, timers)   *)
(* are the subject of Outstation.tla and Master.tla; here a confirm names  *)
(* the fragment it confirms and a timeout is an action of its own.         *)
(*                                                                         *)
(* A version is a global update counter: version v of point p is "the      *)
(* value the v-th update gave p"; 0 is the initial value of every point.   *)
(***************************************************************************)
EXTENDS Naturals, Integers, Sequences, FiniteSets, TLC

CONSTANTS NPts,      \* number of points
          MaxUpd,    \* updates the environment may make
          MaxCut,    \* connection cuts the environment may make
          Cap,       \* capacity of the outstation's event buffer
          MaxLate,   \* response / confirm timeouts that may fire although the peer is alive (lateness)
          UnsolOn,   \* unsolicited reporting configured
          PollOnlyOnConnect   \* the master polls only to complete the integrity poll of a new connection: afterwards
                              \* the picture is kept current by unsolicited reporting alone (the library's default)

Pts == 1..NPts
FragIds == 0..3

VARIABLES
    cur,        \* [Pts -> Nat]  current version of every point
    owner,      \* [1..MaxUpd -> Pts \cup {0}]  which point an update (version) belongs to
    nupd,
    evq,        \* event buffer: <<[p, v, st]>>, st = "U" (not yet written) | "W" (written, awaiting its confirm)
    disc,       \* versions whose event was discarded by overflow (reported to the application)
    up,         \* the connection exists
    om,         \* fragments in flight outstation -> master: <<[id, uns, evs, st]>>
    mo,         \* in flight master -> outstation: <<[k, id]>>, k = "poll" | "confirm"
    awaiting,   \* id of the fragment whose confirm the outstation waits for, -1 none
    fid,        \* next fragment id
    mneed,      \* the master still owes this connection its integrity poll
    mwait,      \* the master has a poll outstanding
    gotE,       \* versions the master's handler received as events
    gotS,       \* [Pts -> set of versions received as static values]
    lastS,      \* [Pts -> last version received as a static value]
    sinceS,     \* [Pts -> BOOLEAN] a static value was received after the last update of the point
    ncut, nlate, stopped

vars == <<cur, owner, nupd, evq, disc, up, om, mo, awaiting, fid, mneed, mwait, gotE, gotS, lastS, sinceS, ncut, nlate, stopped>>

Init ==
    /\ cur = [p \in Pts |-> 0] /\ owner = [v \in 1..MaxUpd |-> 0] /\ nupd = 0
    /\ evq = <<>> /\ disc = {} /\ up = FALSE /\ om = <<>> /\ mo = <<>> /\ awaiting = -1 /\ fid = 0
    /\ mneed = FALSE /\ mwait = FALSE /\ gotE = {} /\ gotS = [p \in Pts |-> {}] /\ lastS = [p \in Pts |-> 0]
    /\ sinceS = [p \in Pts |-> FALSE] /\ ncut = 0 /\ nlate = 0 /\ stopped = FALSE

Unwrite(q) == [i \in 1..Len(q) |-> [q[i] EXCEPT !.st = "U"]]

-----------------------------------------------------------------------------
(* environment *)
Upd(p) ==
    /\ ~stopped /\ nupd < MaxUpd
    /\ LET v == nupd + 1
           full == Len(evq) >= Cap
           q == IF full THEN Tail(evq) ELSE evq
       IN /\ nupd' = v /\ cur' = [cur EXCEPT ![p] = v] /\ owner' = [owner EXCEPT ![v] = p]
          /\ evq' = Append(q, [p |-> p, v |-> v, st |-> "U"])
          /\ disc' = IF full THEN disc \cup {Head(evq).v} ELSE disc
          /\ sinceS' = [sinceS EXCEPT ![p] = FALSE]
    /\ UNCHANGED <<up, om, mo, awaiting, fid, mneed, mwait, gotE, gotS, lastS, ncut, nlate, stopped>>

Cut ==
    /\ up /\ ~stopped /\ ncut < MaxCut
    /\ up' = FALSE /\ om' = <<>> /\ mo' = <<>> /\ awaiting' = -1 /\ evq' = Unwrite(evq) /\ mwait' = FALSE
    /\ ncut' = ncut + 1
    /\ UNCHANGED <<cur, owner, nupd, disc, fid, mneed, gotE, gotS, lastS, sinceS, nlate, stopped>>

Conn ==
    /\ ~up /\ up' = TRUE /\ mneed' = TRUE /\ mwait' = FALSE
    /\ UNCHANGED <<cur, owner, nupd, evq, disc, om, mo, awaiting, fid, gotE, gotS, lastS, sinceS, ncut, nlate, stopped>>

Stop == ~stopped /\ stopped' = TRUE
        /\ UNCHANGED <<cur, owner, nupd, evq, disc, up, om, mo, awaiting, fid, mneed, mwait, gotE, gotS, lastS, sinceS, ncut, nlate>>

-----------------------------------------------------------------------------
(* master *)
\* integrity poll of a new connection, or a periodic / final poll: events of all classes, then class 0
MasterPoll ==
    /\ up /\ ~mwait /\ mwait' = TRUE
    /\ (PollOnlyOnConnect => mneed)
    /\ mo' = Append(mo, [k |-> "poll", id |-> 0])
    /\ UNCHANGED <<cur, owner, nupd, evq, disc, up, om, awaiting, fid, mneed, gotE, gotS, lastS, sinceS, ncut, nlate, stopped>>

\* no answer within the response timeout: the poll failed and will be retried
MasterTimeout ==
    /\ ~stopped /\ nlate < MaxLate /\ up /\ mwait /\ mwait' = FALSE /\ nlate' = nlate + 1
    /\ UNCHANGED <<cur, owner, nupd, evq, disc, up, om, mo, awaiting, fid, mneed, gotE, gotS, lastS, sinceS, ncut, stopped>>

MasterRecv ==
    /\ up /\ om # <<>>
    /\ LET f == Head(om)
           accepted == f.uns \/ mwait              \* a response is accepted only while its request is outstanding
       IN /\ om' = Tail(om)
          /\ IF accepted
               THEN /\ gotE' = gotE \cup {f.evs[i].v : i \in 1..Len(f.evs)}
                    /\ gotS' = [p \in Pts |-> IF f.st # <<>> THEN gotS[p] \cup {f.st[p]} ELSE gotS[p]]
                    /\ lastS' = [p \in Pts |-> IF f.st # <<>> THEN f.st[p] ELSE lastS[p]]
                    /\ sinceS' = [p \in Pts |-> IF f.st # <<>> /\ f.st[p] = cur[p] THEN TRUE ELSE sinceS[p]]
                    /\ mo' = IF f.evs # <<>> THEN Append(mo, [k |-> "confirm", id |-> f.id]) ELSE mo
                    /\ mwait' = IF f.uns THEN mwait ELSE FALSE
                    /\ mneed' = IF f.uns THEN mneed ELSE FALSE
               ELSE UNCHANGED <<gotE, gotS, lastS, sinceS, mo, mwait, mneed>>
    /\ UNCHANGED <<cur, owner, nupd, evq, disc, up, awaiting, fid, ncut, nlate, stopped>>

-----------------------------------------------------------------------------
(* outstation *)
Written(q, ids) == [i \in 1..Len(q) |-> IF i \in ids THEN [q[i] EXCEPT !.st = "W"] ELSE q[i]]
UIdx(q) == {i \in 1..Len(q) : q[i].st = "U"}
EvsOf(q, ids) == SelectSeq([i \in 1..Len(q) |-> [p |-> q[i].p, v |-> q[i].v, i |-> i]], LAMBDA r : r.i \in ids)

\* a new request ends whatever the outstation was waiting for: written events become unwritten again
OstRecvPoll ==
    /\ up /\ mo # <<>> /\ Head(mo).k = "poll"
    /\ LET q0 == Unwrite(evq)
           ids == UIdx(q0)
       IN /\ evq' = Written(q0, ids)
          /\ om' = Append(om, [id |-> fid, uns |-> FALSE, evs |-> EvsOf(q0, ids), st |-> cur])
          /\ awaiting' = IF ids # {} THEN fid ELSE -1
    /\ fid' = (fid + 1) % 4 /\ mo' = Tail(mo)
    /\ UNCHANGED <<cur, owner, nupd, disc, up, mneed, mwait, gotE, gotS, lastS, sinceS, ncut, nlate, stopped>>

OstRecvConfirm ==
    /\ up /\ mo # <<>> /\ Head(mo).k = "confirm"
    /\ mo' = Tail(mo)
    /\ IF Head(mo).id = awaiting
         THEN /\ evq' = SelectSeq(evq, LAMBDA e : e.st # "W") /\ awaiting' = -1
         ELSE UNCHANGED <<evq, awaiting>>
    /\ UNCHANGED <<cur, owner, nupd, disc, up, om, fid, mneed, mwait, gotE, gotS, lastS, sinceS, ncut, nlate, stopped>>

OstUnsol ==
    /\ UnsolOn /\ up /\ awaiting = -1 /\ UIdx(evq) # {}
    /\ LET ids == UIdx(evq)
       IN /\ evq' = Written(evq, ids)
          /\ om' = Append(om, [id |-> fid, uns |-> TRUE, evs |-> EvsOf(evq, ids), st |-> <<>>])
          /\ awaiting' = fid
    /\ fid' = (fid + 1) % 4
    /\ UNCHANGED <<cur, owner, nupd, disc, up, mo, mneed, mwait, gotE, gotS, lastS, sinceS, ncut, nlate, stopped>>

\* the confirm did not come in time
\* (a confirm already in the receive queue is read first: a 2-bit fragment id would otherwise let a stale
\* confirm release a later fragment, which needs lateness of 16 fragments with the protocol's 4 bits)
OstTimeout ==
    /\ ~stopped /\ nlate < MaxLate /\ awaiting # -1 /\ mo = <<>> /\ awaiting' = -1 /\ evq' = Unwrite(evq) /\ nlate' = nlate + 1
    /\ UNCHANGED <<cur, owner, nupd, disc, up, om, mo, fid, mneed, mwait, gotE, gotS, lastS, sinceS, ncut, stopped>>

\* the confirm cannot come any more (neither the fragment nor its confirm is in flight): the confirm timer fires -
\* not lateness, and therefore fair
OstGiveUp ==
    /\ awaiting # -1
    /\ ~\E i \in 1..Len(mo) : mo[i].k = "confirm" /\ mo[i].id = awaiting
    /\ ~\E i \in 1..Len(om) : om[i].id = awaiting
    /\ awaiting' = -1 /\ evq' = Unwrite(evq)
    /\ UNCHANGED <<cur, owner, nupd, disc, up, om, mo, fid, mneed, mwait, gotE, gotS, lastS, sinceS, ncut, nlate, stopped>>

-----------------------------------------------------------------------------
Env == (\E p \in Pts : Upd(p)) \/ Cut \/ Stop
Sys == Conn \/ MasterPoll \/ MasterTimeout \/ MasterRecv \/ OstRecvPoll \/ OstRecvConfirm \/ OstUnsol \/ OstTimeout \/ OstGiveUp
Next == Env \/ Sys
\* the timeouts are not fair: they model lateness, which a stopped environment no longer produces
Fairness == WF_vars(Conn) /\ WF_vars(MasterPoll) /\ WF_vars(MasterRecv) /\ WF_vars(OstRecvPoll)
            /\ WF_vars(OstRecvConfirm) /\ WF_vars(OstUnsol) /\ WF_vars(Stop) /\ WF_vars(OstGiveUp)
Spec == Init /\ [][Next]_vars /\ Fairness

-----------------------------------------------------------------------------
(* properties *)
TypeOK == /\ \A i \in 1..Len(evq) : evq[i].v \in 1..nupd /\ owner[evq[i].v] = evq[i].p
          /\ Len(evq) <= Cap

\* nothing fabricated or cross-wired: every version received for p was a version of p
NoFabrication ==
    /\ \A v \in gotE : v \in 1..nupd
    /\ \A p \in Pts : \A v \in gotS[p] : v = 0 \/ (v \in 1..nupd /\ owner[v] = p)

\* static values never go backwards
NoResurrection == [][\A p \in Pts : lastS'[p] >= lastS[p]]_vars

\* an event is released only after the master received it
NoLoss == \A v \in 1..nupd : (v \in disc) \/ (v \in gotE) \/ (\E i \in 1..Len(evq) : evq[i].v = v)

\* once the environment stops: every point's current value and every event not discarded reach the handler
Converges == stopped ~> (\A p \in Pts : sinceS[p] \/ cur[p] = 0 \/ cur[p] \in gotE)
AllEvents == stopped ~> (\A v \in 1..nupd : v \in disc \/ v \in gotE)
=============================================================================
