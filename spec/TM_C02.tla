------------------------------- MODULE TM_C02 -------------------------------
(* trace validation: run Mon_C02 over the normalised S-trace *)
EXTENDS Mon_C02, Json, IOUtils
Rec == ndJsonDeserialize(IOEnv.TRACE)
VARIABLES l, m
TInit == l = 1 /\ m = MonInit
TNext == l <= Len(Rec) /\ m' = MonStep(m, Rec[l], l) /\ l' = l + 1
TSpec == TInit /\ [][TNext]_<<l, m>>
Done == l <= Len(Rec) \/ JsonSerialize(IOEnv.OUT, [lines |-> Len(Rec), viol |-> m.viol, n |-> m.n])
=============================================================================
