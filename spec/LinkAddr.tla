------------------------------ MODULE LinkAddr ------------------------------
(***************************************************************************)
(* Implementation-shaped specification of link/layer.rs process_header:    *)
(* which frames a station accepts, what it passes up and what it replies,  *)
(* including the secondary-station state (NotReset / Reset(expected FCB)). *)
(* A header is [dir, func, fcv, fcb, dst, src]:                            *)
(*   dir   TRUE = sent by a master                                          *)
(*   func  RESET | TEST | CONF_DATA | UNCONF_DATA | REQ_STATUS (primary)    *)
(*         ACK | NACK | STATUS | NOTSUP (secondary) | OTHER                 *)
(*   dst   OWN | OTHER | SELF | BC_OPT | BC_MAN | BC_NR | RSVD              *)
(*   src   EP (a normal endpoint address) | BAD (reserved/broadcast/self)   *)
(***************************************************************************)
EXTENDS Naturals, Sequences, TLC

Funcs == {"RESET", "TEST", "CONF_DATA", "UNCONF_DATA", "REQ_STATUS", "ACK", "NACK", "STATUS", "NOTSUP", "OTHER"}
Dsts  == {"OWN", "OTHER", "SELF", "BC_OPT", "BC_MAN", "BC_NR", "RSVD"}

\* sec: [reset: BOOLEAN, fcb: BOOLEAN]  (expected fcb)
SecInit == [reset |-> FALSE, fcb |-> FALSE]

Nothing(sec) == [deliver |-> "none", bc |-> "", reply |-> "none", sec |-> sec]

\* isMaster: this station is a master; selfAddr: feature enabled
ProcessHeader(sec, h, isMaster, selfAddr) ==
    IF h.dir = isMaster THEN Nothing(sec)                 \* same station type
    ELSE IF h.src # "EP" THEN Nothing(sec)
    ELSE IF h.dst = "OTHER" \/ h.dst = "RSVD" THEN Nothing(sec)
    ELSE IF h.dst = "SELF" /\ ~selfAddr THEN Nothing(sec)
    ELSE IF h.dst \in {"BC_OPT", "BC_MAN", "BC_NR"} /\ isMaster THEN Nothing(sec)
    ELSE
    LET bc == IF h.dst \in {"BC_OPT", "BC_MAN", "BC_NR"} THEN h.dst ELSE ""
    IN IF bc # "" /\ h.func \notin {"UNCONF_DATA", "CONF_DATA"} THEN Nothing(sec)
       ELSE
       CASE h.func = "UNCONF_DATA" ->
                IF h.fcv THEN Nothing(sec)
                ELSE [deliver |-> "data", bc |-> bc, reply |-> "none", sec |-> sec]
         [] h.func = "RESET" ->
                IF h.fcv THEN Nothing(sec)
                ELSE [deliver |-> "none", bc |-> "", reply |-> "ack", sec |-> [reset |-> TRUE, fcb |-> TRUE]]
         [] h.func = "CONF_DATA" ->
                IF ~h.fcv THEN Nothing(sec)
                ELSE IF ~sec.reset THEN Nothing(sec)
                ELSE LET rp == IF bc = "" THEN "ack" ELSE "none"
                     IN IF h.fcb = sec.fcb
                          THEN [deliver |-> "data", bc |-> bc, reply |-> rp, sec |-> [sec EXCEPT !.fcb = ~@]]
                          ELSE [deliver |-> "none", bc |-> "", reply |-> rp, sec |-> sec]
         [] h.func = "REQ_STATUS" ->
                IF h.fcv THEN Nothing(sec)
                ELSE [deliver |-> "lsreq", bc |-> bc, reply |-> "status", sec |-> sec]
         [] h.func = "STATUS" -> [deliver |-> "lsresp", bc |-> bc, reply |-> "none", sec |-> sec]
         [] OTHER -> Nothing(sec)
=============================================================================
