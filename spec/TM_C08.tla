------------------------------- MODULE TM_C08 -------------------------------
EXTENDS Mon_C08, Json, IOUtils
Rec == ndJsonDeserialize(IOEnv.TRACE)
VARIABLES l, m
TInit == l = 1 /\ m = MonInit
TNext == l <= Len(Rec) /\ m' = MonStep(m, Rec[l], l) /\ l' = l + 1
TSpec == TInit /\ [][TNext]_<<l, m>>
Done == l <= Len(Rec) \/ JsonSerialize(IOEnv.OUT, [lines |-> Len(Rec), viol |-> m.viol])
=============================================================================
