------------------------------ MODULE Mon_C07 ------------------------------
(***************************************************************************)
(* C07 (application half) - an outstation executes and answers application *)
(* fragments only from its configured master (unless told to accept any),  *)
(* and transmits nothing in reply to a broadcast, well-formed or not.      *)
(* The link-layer half (addressing of frames, secondary station rules) is  *)
(* decided on the link model (Mon_C07L).                                   *)
(***************************************************************************)
EXTENDS MonBase

MonInit == [cfg |-> [any_master |-> FALSE, self_addr |-> FALSE], sc |-> "", viol |-> <<>>, reads |-> {}]
V(m, reason, l, ctx) == [m EXCEPT !.viol = IF Len(@) >= 300 THEN @ ELSE Append(@, Viol("C07", reason, l, m.sc, ctx))]

\* a solicited first fragment carrying the stimulus' sequence number, not owed to an earlier READ
RepliesTo(m, e) == \E i \in 1..Len(e.tx) : ~e.tx[i].uns /\ e.tx[i].fir /\ e.tx[i].seq = e.seq
                                            /\ e.tx[i].seq \notin m.reads
Acted(e) == \E i \in 1..Len(e.cb) : ExecCb(e.cb[i])
               \/ (e.cb[i].k = "info" /\ e.cb[i].n \in {"request_from_idle", "broadcast"})

MonStep(m, e, l) ==
    IF e.k = "reset" THEN [MonInit EXCEPT !.cfg = e.cfg, !.sc = e.id, !.viol = m.viol]
    ELSE IF ~HasOutputs(e) THEN m
    ELSE IF e.k \in {"cut", "conn", "raw"} THEN [m EXCEPT !.reads = {}]
    ELSE IF e.k # "rx" \/ e.noconn THEN m
    ELSE
    LET foreign == ~SrcOk(e, m.cfg)
        bc == Broadcast(e)
        other == e.dst \in {"OTHER", "RSVD"} \/ (e.dst = "SELF" /\ ~m.cfg.self_addr)
        m1 == IF foreign /\ (Acted(e) \/ RepliesTo(m, e))
                THEN V(m, "acted-foreign", l, "fragment from another master was executed or answered") ELSE m
        m2 == IF bc /\ ~foreign /\ (RepliesTo(m, e) \/ e.ltx # <<>>)
                THEN V(m1, "replied-broadcast", l, "something was transmitted in reply to a broadcast") ELSE m1
        m3 == IF other /\ (Acted(e) \/ RepliesTo(m, e) \/ e.ltx # <<>>)
                THEN V(m2, "acted-misaddressed", l, "fragment addressed to another station was acted on") ELSE m2
        mine == ~foreign /\ Unicast(e, m.cfg)
        answered == {e.tx[i].seq : i \in {j \in 1..Len(e.tx) : ~e.tx[j].uns /\ e.tx[j].fir}}
    IN [m3 EXCEPT !.reads = IF mine /\ IsReq(e)
                              THEN (IF e.fc = 1 /\ e.wf THEN {e.seq} ELSE {}) \ answered
                              ELSE @ \ answered]

Claimed == {"C07"}
=============================================================================
