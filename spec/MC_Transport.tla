---------------------------- MODULE MC_Transport ----------------------------
(***************************************************************************)
(* The assembler as built refines the property automaton: for every stream *)
(* of segments over a small alphabet (sequence window around the 63 -> 0   *)
(* wrap, two sources, broadcast, payload sizes that reach the buffer       *)
(* limit) both deliver the same fragments at every step.                   *)
(***************************************************************************)
EXTENDS Transport, Json, Integers

CONSTANTS MaxLen, Small

FullSegs == [fir : BOOLEAN, fin : BOOLEAN, seq : {62, 63, 0, 1}, src : {1, 2}, bc : BOOLEAN, n : {1, 2}]
\* the reduced alphabet of the 3-switch cover: one source, no broadcast, one size
SmallSegs == [fir : BOOLEAN, fin : BOOLEAN, seq : {62, 63, 0, 1}, src : {1}, bc : {FALSE}, n : {1}]
Segs == IF Small THEN SmallSegs ELSE FullSegs

VARIABLES a, c, hist, ok
vars == <<a, c, hist, ok>>
Init == a = AsmInit /\ c = RefInit /\ hist = <<>> /\ ok = TRUE
Next == /\ Len(hist) < MaxLen
        /\ \E g0 \in Segs :
              LET g == g0 @@ [id |-> Len(hist) + 1]
                  x == Assemble(a, g)
                  y == RefStep(c, g)
              IN a' = x.a /\ c' = y.c /\ hist' = Append(hist, g0) /\ ok' = (x.out = y.out)
Spec == Init /\ [][Next]_vars
Refines == ok
\* the candidate of the property and the state of the assembler describe the same run
Coupled == (a.st = "Running") = (c # <<>>) /\ (c # <<>> => a.parts = [i \in 1..Len(c) |-> c[i].id])
View == <<a, c, ok, Len(hist)>>
\* behaviour generation: one stream per reachable (assembler state, last three segments) over the reduced alphabet,
\* one per (assembler state, last two segments) over the full one
LastK(k) == SubSeq(hist, IF Len(hist) > k THEN Len(hist) - k + 1 ELSE 1, Len(hist))
CoverView == <<a.st, a.src, a.bc, a.seq, Len(a.parts), LastK(IF Small THEN 3 ELSE 2)>>
ExportAll == hist = <<>> \/ PrintT(<<"SCENARIO", ToJson(hist)>>)
Export == Len(hist) < MaxLen \/ PrintT(<<"SCENARIO", ToJson(hist)>>)
=============================================================================
