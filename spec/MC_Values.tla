----------------------------- MODULE MC_Values -----------------------------
(***************************************************************************)
(* Enumeration of the value cases of Values.tla: for every measurement     *)
(* type, configured static variation and event variation, every value      *)
(* token x flag octet of the type, with the time tokens cycled through;    *)
(* and, for the relative-time event variations (g2v3, g4v3), every         *)
(* sequence of three events over the time tokens around the 16-bit         *)
(* boundary with both time qualities (the common-time-of-occurrence rule). *)
(* TLC prints the plans; lib/values_check.py turns them into scenarios.    *)
(***************************************************************************)
EXTENDS Values, Json
VARIABLE x

ValTokens(ty) == CASE ty \in {"bi", "bos"} -> {0, 1} [] ty = "dbi" -> {0, 1, 2, 3}
                   [] ty \in {"ctr", "fctr"} -> CounterTokens [] OTHER -> AnalogTokens
FlagTokens(ty) == CASE ty \in {"bi", "bos"} -> {1, 0, 3, 33, 16, 129} [] ty = "dbi" -> {1, 0, 3, 33, 16, 129, 65} [] ty \in {"ctr", "fctr"} -> {1, 0, 65, 33}
                    [] OTHER -> {1, 0, 3, 33, 65}
TimeTokens == <<"t1000000", "t0", "tmax", "t1065536">>

Plans == {[ty |-> ty, sv |-> sv, ev |-> ev] : ty \in Types, sv \in 1..10, ev \in 1..8}
Valid(p) == p.sv \in StaticVars(p.ty) /\ p.ev \in EventVars(p.ty)

\* the (value, flags) pairs of a type, as a set of records; the driver orders them and cycles the time tokens
Pairs(ty) == {[val |-> v, fl |-> f] : v \in ValTokens(ty), f \in FlagTokens(ty)}

ASSUME \A p \in {q \in Plans : Valid(q)} : PrintT(<<"PLAN", ToJson([plan |-> p, pairs |-> Pairs(p.ty), times |-> TimeTokens])>>)

\* common time of occurrence: three events, the first at the base time
CtoTimes == {"t1000000", "t1000001", "t1065535", "t1065536", "t999999"}
CtoSeqs == {<<[tm |-> "t1000000", tq |-> q1], [tm |-> t2, tq |-> q2], [tm |-> t3, tq |-> q3]>> :
               q1 \in {"s", "u"}, t2 \in CtoTimes, q2 \in {"s", "u"}, t3 \in CtoTimes, q3 \in {"s", "u"}}
ASSUME \A ty \in {"bi", "dbi"} : \A s \in CtoSeqs : PrintT(<<"CTO", ToJson([ty |-> ty, seq |-> s])>>)

Init == x = 0
Next == x' = x
Spec == Init /\ [][Next]_x
=============================================================================
