----------------------------- MODULE Outstation -----------------------------
(***************************************************************************)
(* Implementation-shaped specification of the dnp3 outstation session and  *)
(* its database (outstation/session.rs, database/details).               *)
(*                                                                         *)
(* One action per await-to-await critical section of the code.  The state  *)
(* is one record `s` whose components carry the names the code uses.  A    *)
(* stimulus (a fragment, an update, the passing of time, a cut/connect) is *)
(* applied by Apply(s, in) which injects it and then composes micro-steps  *)
(* with Run until the task blocks again, exactly as the real task runs     *)
(* between two await points; the outputs of those micro-steps (fragments    *)
(* written, callbacks made) are collected into an event record in the      *)
(* alphabet of DESIGN.md section 3, the same alphabet the harness records. *)
(*                                                                         *)
(* Behaviour that reading found to be defective is kept, guarded by the    *)
(* deviation switches in DEV, so the module is both the as-built and the   *)
(* as-intended design.                                                     *)
(***************************************************************************)
EXTENDS Naturals, Integers, Sequences, FiniteSets, SequencesExt, TLC

CONSTANTS
    Pts,         \* <<[ty, ix, cls, esz, ssz, eg, ev, sg, sv]>> points: event object size (with
                 \* 2-byte index prefix), static object size, event group/var, static group/var
    EvMax,       \* [1..8 -> Nat]  per-type event maxima (index = TypeIndex)
    SolBudget,   \* bytes available for objects in a solicited fragment (buffer size - 4)
    UnsolBudget,
    ConfirmTO, RetryDelay, SelectTO,   \* milliseconds
    Retries,     \* max unsolicited retries, -1 = unlimited
    UnsolOn,     \* feature switch
    ClassZero,   \* set of type names reported by class 0
    DEV          \* set of deviation names that are switched on

TypeIdx(ty) ==
    CASE ty = "bi" -> 1 [] ty = "dbi" -> 2 [] ty = "bos" -> 3 [] ty = "ctr" -> 4
      [] ty = "fctr" -> 5 [] ty = "ai" -> 6 [] ty = "aos" -> 7 [] ty = "os" -> 8
      [] OTHER -> 0

NP == Len(Pts)
S16(n) == n % 16
Min2(a, b) == IF a < b THEN a ELSE b
NoTime == -1

-----------------------------------------------------------------------------
(* event alphabet constructors (same record shapes as lib/norm.py produces) *)

NoIin == [bc |-> FALSE, c1 |-> FALSE, c2 |-> FALSE, c3 |-> FALSE, time |-> FALSE,
          local |-> FALSE, trouble |-> FALSE, rst |-> FALSE, nofn |-> FALSE, unk |-> FALSE,
          param |-> FALSE, ovf |-> FALSE, busy |-> FALSE, cfg |-> FALSE, r6 |-> FALSE, r7 |-> FALSE]

MkCb(t, k, n, i) == [t |-> t, k |-> k, n |-> n, i |-> i, s |-> ""]

\* wire image of an event / a static value
\* an event is written in the variation selected for it: var = 0 the point's configured default,
\* otherwise the variation a READ named explicitly (modelled for binary inputs: g2v1 carries no time)
EvVar(rec) == IF rec.var = 0 THEN Pts[rec.p].ev ELSE rec.var
HasTime(p, v) == p.ty # "os" /\ ~(p.ty = "bi" /\ v = 1)
EvSize(rec) == IF rec.var = 0 THEN Pts[rec.p].esz ELSE IF Pts[rec.p].ty = "bi" /\ rec.var = 1 THEN 3 ELSE Pts[rec.p].esz
\* points whose configured static variation is the packed one (sv = 1) have their flags coupled to the value in the
\* scenarios: value 1 comes with ONLINE|RESTART (3), value 0 plainly ONLINE (1).  StaticVariation::promote: the packed
\* format is used only for plainly ONLINE values, otherwise the flagged variation (2) - decided from the frozen value
FlagsOf(p, val) == IF p.ty = "os" THEN -1 ELSE IF p.sv = 1 /\ val = "1" THEN 3 ELSE 1
EvObj(rec) ==
    LET p == Pts[rec.p]
    IN [g |-> p.eg, v |-> EvVar(rec), ix |-> p.ix, ty |-> p.ty, ev |-> TRUE, val |-> rec.val,
        fl |-> FlagsOf(p, rec.val), tm |-> IF HasTime(p, EvVar(rec)) THEN rec.tm ELSE "",
        tq |-> "", st |-> -1]
StObj(pn, val) ==
    LET p == Pts[pn]
    IN [g |-> p.sg, v |-> IF p.sv = 1 /\ FlagsOf(p, val) # 1 THEN 2 ELSE p.sv, ix |-> p.ix, ty |-> p.ty, ev |-> FALSE, val |-> val,
        fl |-> FlagsOf(p, val), tm |-> "", tq |-> "", st |-> -1]

-----------------------------------------------------------------------------
(* initial state *)

\* value every point is initialised with before the scenario starts
InitVal(p) == IF Pts[p].ty = "os" THEN "os" \o ToString(Pts[p].ssz) \o ":0" ELSE "0"

NoResp == [has |-> FALSE, uns |-> FALSE, seq |-> 0, fir |-> TRUE, fin |-> TRUE, con |-> FALSE,
           iin |-> NoIin, body |-> <<>>, bcg |-> 0]   \* bcg: generation of the broadcast it reported (ghost)
NoLast == [has |-> FALSE, seq |-> 0, hash |-> 0, resp |-> NoResp]
NoDef  == [has |-> FALSE, seq |-> 0, hash |-> 0, hs |-> <<>>]
NoSel  == [has |-> FALSE, seq |-> 0, fid |-> 0, t |-> 0, hash |-> 0]

Init0 ==
    [pc        |-> "Down",      \* Down | Top | After1 | After2 | After3 | Block | SolWait | UnsolWait
     now       |-> 0,
     \* transport reader: at most one assembled fragment waiting (reader.read returns at once)
     inbox     |-> <<>>,
     fid       |-> 0,           \* assembler frame id
     \* SessionState
     restart   |-> TRUE,
     lastRec   |-> NoTime,      \* last_recorded_time
     app       |-> [time |-> FALSE, local |-> FALSE, trouble |-> FALSE, cfg |-> FALSE],   \* application indications
     enabled   |-> {},          \* enabled_unsolicited_classes
     last      |-> NoLast,      \* last_valid_request
     select    |-> NoSel,
     unsol     |-> "Null",      \* Null | Ready
     notBefore |-> NoTime,      \* Ready(Some(deadline))
     unsolSeq  |-> 0,
     deferred  |-> NoDef,
     lastBc    |-> "none",
     bcGen     |-> 0,           \* number of broadcasts latched so far (ghost: which one a fragment reported)
     \* the confirm wait we are blocked in
     series    |-> [ecsn |-> 0, fin |-> TRUE],
     cont      |-> "After1",    \* where run_idle_state resumes after a solicited wait
     solRep    |-> [gen |-> 0, seq |-> -1],   \* the last written solicited fragment that reported a confirm-mandatory
                                              \* broadcast: its generation and sequence number (kept across sessions)
     awaitBc   |-> 0,           \* generation of the broadcast the awaited solicited fragment reported (0 none)
     deadline  |-> NoTime,
     uresp     |-> NoResp,      \* unsolicited response being (re)sent
     isNull    |-> FALSE,
     retries   |-> 0,           \* retries left (-1 unlimited)
     nextAct   |-> "Event",     \* NextIdleAction: NoSleep | Event | Until
     sleepTo   |-> NoTime,
     \* transmit buffers: abstract content (list of wire objects)
     solBuf    |-> <<>>,
     unsolBuf  |-> <<>>,
     \* database
     events    |-> <<>>,        \* <<[id, p, val, tm, st]>>  st: U | S | W
     total     |-> [c \in 1..3 |-> 0],
     written   |-> [c \in 1..3 |-> 0],
     totalT    |-> [i \in 1..8 |-> 0],
     ovf       |-> FALSE,
     nextId    |-> 0,
     cur       |-> [p \in 1..NP |-> InitVal(p)],
     frozen    |-> [p \in 1..NP |-> InitVal(p)],
     selq      |-> <<>>,        \* static selection queue: point numbers still to be written
     changed   |-> FALSE,       \* Notify permit
     \* master side bookkeeping needed to concretise inputs
     mseq      |-> 15,          \* last request sequence used by the master
     mlast     |-> [k |-> "none"],
     bids      |-> <<>>,        \* interning of fragment contents -> byte identity
     nupd      |-> 0,
     \* outputs of the line being built
     otx       |-> <<>>,
     ocb       |-> <<>>,
     devs      |-> {}]          \* deviations that have fired (attribution)

-----------------------------------------------------------------------------
(* byte identities *)

Intern(s, content) ==
    IF \E i \in 1..Len(s.bids) : s.bids[i] = content
      THEN [st |-> s, id |-> CHOOSE i \in 1..Len(s.bids) : s.bids[i] = content]
      ELSE [st |-> [s EXCEPT !.bids = Append(@, content)], id |-> Len(s.bids) + 1]

-----------------------------------------------------------------------------
(* database: EventBuffer *)

PCls(p) == Pts[p].cls
PTy(p)  == TypeIdx(Pts[p].ty)

\* EventBuffer::insert
DbInsert(s, p, val, tm) ==
    LET ti == PTy(p)
        c  == PCls(p)
        id == s.nextId
        full == s.totalT[ti] = EvMax[ti]
        victimIx == IF full /\ \E i \in 1..Len(s.events) : PTy(s.events[i].p) = ti
                      THEN CHOOSE i \in 1..Len(s.events) :
                              /\ PTy(s.events[i].p) = ti
                              /\ \A j \in 1..(i - 1) : PTy(s.events[j].p) # ti
                      ELSE 0
        victim == IF victimIx > 0 THEN s.events[victimIx] ELSE [id |-> -1, p |-> p, st |-> "U", var |-> 0]
        evs1 == IF victimIx > 0
                  THEN [i \in 1..(Len(s.events) - 1) |->
                            IF i < victimIx THEN s.events[i] ELSE s.events[i + 1]]
                  ELSE s.events
        tot1 == IF victimIx > 0 THEN [s.total EXCEPT ![PCls(victim.p)] = @ - 1] ELSE s.total
        \* DEV_OverflowKeepsWrittenCount: the code does not decrement `written` when the displaced
        \* record was in state Written
        wr1  == IF victimIx > 0 /\ victim.st = "W" /\ "OverflowKeepsWrittenCount" \notin DEV
                  THEN [s.written EXCEPT ![PCls(victim.p)] = @ - 1] ELSE s.written
        tt1  == IF victimIx > 0 THEN [s.totalT EXCEPT ![ti] = @ - 1] ELSE s.totalT
        rec  == [id |-> id, p |-> p, val |-> val, tm |-> tm, st |-> "U", var |-> 0]
    IN IF EvMax[ti] = 0 THEN [st |-> s, info |-> "noevent", id |-> -1, disc |-> -1]
       ELSE [st |-> [s EXCEPT !.events = Append(evs1, rec),
                              !.total = [tot1 EXCEPT ![c] = @ + 1],
                              !.written = wr1,
                              !.totalT = [tt1 EXCEPT ![ti] = @ + 1],
                              !.nextId = @ + 1,
                              !.ovf = IF victimIx > 0 THEN TRUE ELSE @,
                              !.devs = IF victimIx > 0 /\ victim.st = "W"
                                            /\ "OverflowKeepsWrittenCount" \in DEV
                                         THEN @ \cup {"OverflowKeepsWrittenCount"} ELSE @],
             info |-> IF victimIx > 0 THEN "overflow" ELSE "created",
             id |-> id, disc |-> victim.id]

\* EventBuffer::select (limit -1 = none): marks the oldest Unselected matching events
\* (the selecting header also fixes the variation the event will be written in: var)
DbSelect(evs, match(_), limit, var) ==
    LET idx == SelectSeq([i \in 1..Len(evs) |-> i], LAMBDA i : evs[i].st = "U" /\ match(evs[i]))
        n   == IF limit < 0 THEN Len(idx) ELSE Min2(limit, Len(idx))
        chosen == {idx[k] : k \in 1..n}
    IN [i \in 1..Len(evs) |-> IF i \in chosen THEN [evs[i] EXCEPT !.st = "S", !.var = var] ELSE evs[i]]

\* EventBuffer::reset / Database::reset
DbReset(s) ==
    [s EXCEPT !.events = [i \in 1..Len(s.events) |-> [s.events[i] EXCEPT !.st = "U"]],
              !.written = [c \in 1..3 |-> 0],
              !.selq = <<>>]

\* unwritten_classes: total - written per class (usize subtraction: underflow panics)
Underflow(s) == \E c \in 1..3 : s.written[c] > s.total[c]
Unwritten(s, c) == s.total[c] - s.written[c] > 0

\* bytes an event adds to a fragment given the previous object written (header switching)
EvCost(prev, rec) == IF prev.p = 0 \/ Pts[prev.p].eg # Pts[rec.p].eg \/ EvVar(prev) # EvVar(rec)
                       THEN 5 + EvSize(rec) ELSE EvSize(rec)

\* EventBuffer::write_events: write Selected events in order while they fit
RECURSIVE WriteEv(_, _, _, _, _)
WriteEv(evs, i, budget, prev, acc) ==
    \* acc = [evs, objs, used, complete, count]
    IF i > Len(evs) THEN [acc EXCEPT !.evs = evs]
    ELSE IF evs[i].st # "S" THEN WriteEv(evs, i + 1, budget, prev, acc)
    ELSE LET cost == EvCost(prev, evs[i])
         IN IF acc.used + cost > budget
              THEN [acc EXCEPT !.evs = evs, !.complete = FALSE]
              ELSE WriteEv([evs EXCEPT ![i].st = "W"], i + 1, budget, evs[i],
                           [acc EXCEPT !.objs = Append(@, EvObj(evs[i])),
                                       !.used = @ + cost, !.count = @ + 1,
                                       !.wcls = [@ EXCEPT ![PCls(evs[i].p)] = @ + 1]])

DbWriteEvents(s, budget) ==
    LET r == WriteEv(s.events, 1, budget, [p |-> 0, var |-> 0],
                     [evs |-> s.events, objs |-> <<>>, used |-> 0, complete |-> TRUE, count |-> 0,
                      wcls |-> [c \in 1..3 |-> 0]])
    IN [st |-> [s EXCEPT !.events = r.evs,
                         !.written = [c \in 1..3 |-> @[c] + r.wcls[c]]],
        objs |-> r.objs, used |-> r.used, complete |-> r.complete, count |-> r.count]

\* static data: bytes a static object adds (range header when type changes or index not consecutive)
StCost(prev, p) == IF prev = 0 \/ Pts[prev].sg # Pts[p].sg \/ Pts[prev].ix + 1 # Pts[p].ix
                     THEN 5 + Pts[p].ssz ELSE Pts[p].ssz

\* DEV OversizeObjectNeverFits: an object larger than a whole fragment is never skipped: the writer reports "resume
\* at the same point" for ever and the series consists of empty non-final fragments from then on.  With the deviation
\* off such an object is left out and the series goes on.
RECURSIVE WriteSt(_, _, _, _, _)
WriteSt(s, q, used, prev, objs) ==
    IF q = <<>> THEN [q |-> q, objs |-> objs, complete |-> TRUE, over |-> FALSE]
    ELSE LET p == Head(q)
             cost == StCost(prev, p)
             never == 5 + Pts[p].ssz > SolBudget
         IN IF never /\ "OversizeObjectNeverFits" \notin DEV THEN WriteSt(s, Tail(q), used, prev, objs)
            ELSE IF used + cost > SolBudget
              THEN [q |-> q, objs |-> objs, complete |-> FALSE, over |-> never]
              \* (DEV_StaticUsesCurrent is a hypothetical deviation used only to show that Mon_C11 is
              \*  sensitive: report the current instead of the frozen value)
              ELSE WriteSt(s, Tail(q), used + cost, p,
                           Append(objs, StObj(p, IF "StaticUsesCurrent" \in DEV THEN s.cur[p] ELSE s.frozen[p])))

\* Database::write_response_headers: events first; static only if every selected event fitted
DbWriteResponse(s) ==
    LET e == DbWriteEvents(s, SolBudget)
        st == IF e.complete THEN WriteSt(e.st, e.st.selq, e.used, 0, <<>>)
              ELSE [q |-> e.st.selq, objs |-> <<>>, complete |-> FALSE, over |-> FALSE]
    IN [st |-> [e.st EXCEPT !.selq = st.q, !.devs = IF st.over THEN @ \cup {"OversizeObjectNeverFits"} ELSE @],
        objs |-> e.objs \o st.objs,
        hasEvents |-> e.count > 0,
        complete |-> e.complete /\ st.complete]

\* clear_written
DbClearWritten(s) ==
    LET gone == SelectSeq(s.events, LAMBDA r : r.st = "W")
        keep == SelectSeq(s.events, LAMBDA r : r.st # "W")
        cnt(c) == Len(SelectSeq(gone, LAMBDA r : PCls(r.p) = c))
        cntT(i) == Len(SelectSeq(gone, LAMBDA r : PTy(r.p) = i))
        tot == [c \in 1..3 |-> s.total[c] - cnt(c)]
        tt  == [i \in 1..8 |-> s.totalT[i] - cntT(i)]
        anyFull == \E i \in 1..8 : EvMax[i] > 0 /\ tt[i] >= EvMax[i]
        cbs == <<MkCb(s.now, "app", "begin_confirm", <<>>)>>
               \o [i \in 1..Len(gone) |-> MkCb(s.now, "app", "cleared", <<gone[i].id>>)]
               \o <<MkCb(s.now, "app", "end_confirm", <<tot[1], tot[2], tot[3]>> \o tt)>>
    IN [s EXCEPT !.events = keep, !.total = tot, !.totalT = tt,
                 !.written = [c \in 1..3 |-> 0],
                 !.ovf = IF anyFull THEN @ ELSE FALSE,
                 !.ocb = @ \o cbs]

\* selection for a READ: header tokens [n, lim, v]: n \in c1 c2 c3 (class events, lim = count limit
\* or -1) | c0 (class 0 static) | bi (binary input events in variation v)
SelectHeader(s, h) ==
    CASE h.n \in {"c1", "c2", "c3"} ->
              LET c == CASE h.n = "c1" -> 1 [] h.n = "c2" -> 2 [] OTHER -> 3
              IN [s EXCEPT !.events = DbSelect(@, LAMBDA r : PCls(r.p) = c, h.lim, 0)]
         [] h.n = "bi" ->    \* READ g2 in the explicit variation h.v (h.v = 0: g2v0, the default)
              [s EXCEPT !.events = DbSelect(@, LAMBDA r : Pts[r.p].ty = "bi", h.lim, h.v)]
         [] h.n = "c0" ->
              LET ps == SelectSeq([i \in 1..NP |-> i], LAMBDA p : Pts[p].ty \in ClassZero)
              IN [s EXCEPT !.selq = @ \o ps,
                           !.frozen = [p \in 1..NP |-> IF Pts[p].ty \in ClassZero THEN s.cur[p] ELSE @[p]]]
         [] OTHER -> s

DbSelectHeaders(s, hs) == FoldLeft(LAMBDA acc, h : SelectHeader(acc, h), s, hs)

-----------------------------------------------------------------------------
(* responses *)

\* get_response_iin (with the broadcast side effect)
ResponseIin(s) ==
    [NoIin EXCEPT !.rst = s.restart,
                  !.c1 = Unwritten(s, 1), !.c2 = Unwritten(s, 2), !.c3 = Unwritten(s, 3),
                  !.ovf = s.ovf,
                  !.bc = s.lastBc # "none",
                  \* OutstationApplication::get_application_iin, asked for every response
                  !.time = s.app.time, !.local = s.app.local, !.trouble = s.app.trouble, !.cfg = s.app.cfg]
AfterIin(s) == IF s.lastBc \in {"opt", "nr"} THEN [s EXCEPT !.lastBc = "none"] ELSE s

OrIin(a, b) == [k \in DOMAIN a |-> a[k] \/ b[k]]

\* the normalised tx record of a response
TxRec(s, r, bid) ==
    [t |-> s.now, fc |-> IF r.uns THEN 130 ELSE 129, seq |-> r.seq, fir |-> r.fir, fin |-> r.fin,
     con |-> r.con, uns |-> r.uns, bid |-> bid, len |-> 4, wf |-> TRUE, dst |-> 1, src |-> 1024,
     iin |-> r.iin, hdrs |-> <<>>, objs |-> r.body]

\* the arithmetic of unwritten_classes panics on underflow (dev profile): the task dies
Panic(s) == [s EXCEPT !.pc = "Dead", !.ocb = Append(@, MkCb(s.now, "panic", "underflow", <<>>))]

Emit(s, r) ==
    LET i == Intern(s, [uns |-> r.uns, seq |-> r.seq, fir |-> r.fir, fin |-> r.fin, con |-> r.con,
                        iin |-> r.iin, body |-> r.body])
    IN [i.st EXCEPT !.otx = Append(@, TxRec(s, r, i.id))]

\* A Response is a header plus a length; what is transmitted is the header followed by that many
\* bytes of the transmit buffer *as it is now*.  Abstractly: a response whose formatted body was
\* empty sends no objects; otherwise it sends whatever the buffer holds at transmission time.
Wire(r, buf) == IF r.body = <<>> THEN r ELSE [r EXCEPT !.body = buf]

\* write_solicited: OR in the dynamic IIN, force CON for a mandatory broadcast, transmit.
\* `fresh` = the handler has just formatted r0.body into the solicited buffer.
WriteSolicited(s, r0, fresh) ==
    IF Underflow(s) THEN [st |-> Panic(s), resp |-> r0]
    ELSE LET r1 == [r0 EXCEPT !.iin = OrIin(@, ResponseIin(s)),
                              !.con = @ \/ s.lastBc = "man",
                              !.bcg = IF s.lastBc # "none" THEN s.bcGen ELSE @]
             s1 == AfterIin(s)
             s2 == IF fresh /\ r1.body # <<>> THEN [s1 EXCEPT !.solBuf = r1.body] ELSE s1
             s3 == [s2 EXCEPT !.solRep = IF s.lastBc = "man" THEN [gen |-> s.bcGen, seq |-> r1.seq]
                                         ELSE [gen |-> 0, seq |-> -1]]
         IN [st |-> Emit(s3, Wire(r1, s3.solBuf)), resp |-> r1]

\* repeat_solicited: stored header + whatever the solicited buffer holds now
RepeatSolicited(s, r) == Emit(s, Wire(r, s.solBuf))

WriteUnsolicited(s, r0) ==
    IF Underflow(s) THEN [st |-> Panic(s), resp |-> r0]
    ELSE LET r1 == [r0 EXCEPT !.iin = OrIin(@, ResponseIin(s)),
                              !.bcg = IF s.lastBc # "none" THEN s.bcGen ELSE @]
             s1 == AfterIin(s)
         IN [st |-> Emit(s1, r1), resp |-> r1]

EmptyResp(seq, iin) == [has |-> TRUE, uns |-> FALSE, seq |-> seq, fir |-> TRUE, fin |-> TRUE,
                        con |-> FALSE, iin |-> iin, body |-> <<>>, bcg |-> 0]

\* format_read_response
FormatRead(s, fir, seq) ==
    LET w == DbWriteResponse(s)
        needConfirm == w.hasEvents \/ ~w.complete
        r == [has |-> TRUE, uns |-> FALSE, seq |-> seq, fir |-> fir, fin |-> w.complete,
              con |-> needConfirm, iin |-> NoIin, body |-> w.objs, bcg |-> 0]
    IN [st |-> w.st, resp |-> r,
        series |-> IF needConfirm THEN [has |-> TRUE, ecsn |-> seq, fin |-> w.complete]
                   ELSE [has |-> FALSE, ecsn |-> seq, fin |-> TRUE]]

-----------------------------------------------------------------------------
(* requests (abstract fragments): [f, seq, hash, hs, cl]                      *)
(*   f: read | delay | enable | disable | confirm | uconfirm                  *)

\* the awaited solicited fragment is the one written last: it reported the pending broadcast iff the
\* latch was set when it was written (for a mandatory broadcast the latch survives the report)
LastSolBc(s) == LET xs == SelectSeq(s.otx, LAMBDA x : ~x.uns)
                IN IF xs # <<>> /\ xs[Len(xs)].iin.bc THEN s.bcGen ELSE 0
\* DEV_ConfirmClearsUnreportedBroadcast: the code forgets a pending broadcast indication on every
\* accepted confirm, also when the confirmed fragment had been sent before the broadcast arrived
\* and therefore never reported it
ConfirmClearsBc(s, gen) ==
    LET reported == gen = s.bcGen /\ gen # 0 IN
    IF reported \/ "ConfirmClearsUnreportedBroadcast" \in DEV
      THEN [s EXCEPT !.lastBc = "none",
                     !.devs = IF ~reported /\ s.lastBc # "none" THEN @ \cup {"ConfirmClearsUnreportedBroadcast"} ELSE @]
      ELSE s

EnterSolWait(s, series, cont) ==
    [s EXCEPT !.pc = "SolWait", !.series = [ecsn |-> series.ecsn, fin |-> series.fin],
              !.awaitBc = LastSolBc(s),
              !.cont = cont, !.deadline = s.now + ConfirmTO,
              !.ocb = Append(@, MkCb(s.now, "info", "enter_sol_wait", <<series.ecsn>>))]

\* ---- controls: two object sets.  "a" = one CROB at index 1 (handler answers SUCCESS),
\*      "b" = one CROB at index 2 (handler answers NOT_SUPPORTED to select)
\*      "a2" = the same CROB at index 1 encoded with a two-byte index prefix (different bytes)
CtlIx(ob) == IF ob \in {"a", "a2"} THEN 1 ELSE 2
SelStatus(ob) == IF ob \in {"a", "a2"} THEN 0 ELSE 4
CtlObj(ob, st) == [g |-> 12, v |-> 1, ix |-> CtlIx(ob), ty |-> "", ev |-> FALSE, val |-> "",
                   fl |-> -1, tm |-> "", tq |-> "", st |-> st]
\* callback arguments: index, control code, count, on-time, off-time (, operate type 1 sbo 2 do 3 dona)
CtlCb(s, n, ob, op) == MkCb(s.now, "ctl", n, <<CtlIx(ob), 3, 1, 100, 200>> \o (IF op = 0 THEN <<>> ELSE <<op>>))
CtlTx(s, n, ob, op) == <<MkCb(s.now, "ctl", "begin", <<>>), CtlCb(s, n, ob, op), MkCb(s.now, "ctl", "end", <<>>)>>
CtlResp(q, ob, st) == [EmptyResp(q.seq, [NoIin EXCEPT !.param = (st = 4)]) EXCEPT !.body = <<CtlObj(ob, st)>>]
NoReply == [NoResp EXCEPT !.has = FALSE]

\* SelectState::match_operate
MatchOperate(s, q) ==
    IF ~s.select.has THEN 2
    ELSE IF S16(s.select.seq + 1) # q.seq THEN 2
    ELSE IF s.select.fid + 1 # q.id THEN 2
    ELSE IF s.select.hash # q.ob THEN 2
    ELSE IF s.now - s.select.t > SelectTO THEN 1
    ELSE 0

\* ---- freeze requests.  Object sets: "all" = g20v0 all objects, "rng" = g20v0 range 0..1, "gb" / "bg" = g20v0 and
\*      g30v0 (not freezable) in either order, "bad" = g30v0 only; for FREEZE_AT_TIME "timed" = g50v2 then g20v0
FrzFns == {"frz", "frznr", "frzclr", "frzclrnr", "frzat", "frzatnr"}
FrzNoAck(f) == f \in {"frznr", "frzclrnr", "frzatnr"}
FrzName(f) == CASE f \in {"frz", "frznr"} -> "freeze" [] f \in {"frzclr", "frzclrnr"} -> "freeze_clear"
                [] OTHER -> "freeze_at_time"
FrzCb(s, f, ob) == IF ob = "rng" THEN [MkCb(s.now, "app", "freeze", <<0, 1>>) EXCEPT !.s = FrzName(f)]
                   ELSE [MkCb(s.now, "app", "freeze", <<>>) EXCEPT !.s = FrzName(f) \o ":all"]

\* handle_non_read for the functions modelled here
HandleNonRead(s, q) ==
    CASE q.f = "delay" ->
            [st |-> s, resp |-> [EmptyResp(q.seq, NoIin) EXCEPT
                                    !.body = <<[g |-> 52, v |-> 2, ix |-> -1, ty |-> "", ev |-> FALSE,
                                                val |-> "0", fl |-> -1, tm |-> "", tq |-> "", st |-> -1]>>]]
      [] q.f \in {"enable", "disable"} ->
            IF ~UnsolOn
              THEN [st |-> s, resp |-> EmptyResp(q.seq, [NoIin EXCEPT !.nofn = TRUE])]
              ELSE [st |-> [s EXCEPT !.enabled = IF q.f = "enable" THEN @ \cup q.cl ELSE @ \ q.cl],
                    resp |-> EmptyResp(q.seq, NoIin)]
      [] q.f = "write_rst" ->
            [st |-> [s EXCEPT !.restart = FALSE,
                              !.ocb = Append(@, MkCb(s.now, "info", "clear_restart_iin", <<>>))],
             resp |-> EmptyResp(q.seq, NoIin)]
      [] q.f = "record" ->
            \* RECORD_CURRENT_TIME: remember the instant (kept across sessions), empty reply
            [st |-> [s EXCEPT !.lastRec = s.now], resp |-> EmptyResp(q.seq, NoIin)]
      [] q.f = "wtabs" ->
            \* WRITE g50v1 (time token 5000): handed to the application, which accepts it
            [st |-> [s EXCEPT !.ocb = Append(@, MkCb(s.now, "app", "write_time", <<5000>>))],
             resp |-> EmptyResp(q.seq, NoIin)]
      [] q.f = "wtlast" ->
            \* WRITE g50v3 (5000): the time plus what elapsed since RECORD_CURRENT_TIME; parameter error without one
            IF s.lastRec = NoTime THEN [st |-> s, resp |-> EmptyResp(q.seq, [NoIin EXCEPT !.param = TRUE])]
            ELSE [st |-> [s EXCEPT !.lastRec = NoTime,
                                   !.ocb = Append(@, MkCb(s.now, "app", "write_time", <<5000 + (s.now - s.lastRec)>>))],
                  resp |-> EmptyResp(q.seq, NoIin)]
      [] q.f \in {"cold", "warm"} ->
            \* COLD / WARM_RESTART: the application is asked; it does not support restarts: IIN2.0
            [st |-> [s EXCEPT !.ocb = Append(@, MkCb(s.now, "app", q.f \o "_restart", <<>>))],
             resp |-> EmptyResp(q.seq, [NoIin EXCEPT !.nofn = TRUE])]
      [] q.f \in FrzFns ->
            \* IMMED_FREEZE / FREEZE_CLEAR / FREEZE_AT_TIME and their no-acknowledge forms: every g20v0 header is
            \* handed to the application (which accepts it); any other header is IIN2.0; FREEZE_AT_TIME without a
            \* preceding time-and-interval object is a parameter error; the errors of all headers accumulate
            LET isAt  == q.f \in {"frzat", "frzatnr"}
                calls == (isAt /\ q.ob = "timed") \/ (~isAt /\ q.ob \in {"all", "rng", "gb", "bg"})
                iin   == [NoIin EXCEPT !.nofn = q.ob \in {"gb", "bg", "bad"}, !.param = isAt /\ q.ob # "timed"]
            IN [st |-> IF calls THEN [s EXCEPT !.ocb = Append(@, FrzCb(s, q.f, q.ob))] ELSE s,
                resp |-> IF FrzNoAck(q.f) THEN NoReply ELSE EmptyResp(q.seq, iin)]
      [] q.f = "write2" ->
            \* WRITE with two g80v1 headers: index 4 (not writable: parameter error) and index 7 = 0 (clears the restart
            \* indication), in the order "bg" (rejected first) or "gb".  DEV WriteKeepsLastStatus: handle_write assigned
            \* the status of each header over the previous one, so only the last header's error was reported
            LET lost == "WriteKeepsLastStatus" \in DEV /\ q.ob = "bg"
            IN [st |-> [s EXCEPT !.restart = FALSE,
                                 !.ocb = Append(@, MkCb(s.now, "info", "clear_restart_iin", <<>>)),
                                 !.devs = IF lost THEN @ \cup {"WriteKeepsLastStatus"} ELSE @],
                resp |-> EmptyResp(q.seq, [NoIin EXCEPT !.param = ~lost])]
      [] q.f = "select" ->
            LET st == SelStatus(q.ob)
            IN [st |-> [s EXCEPT !.ocb = @ \o CtlTx(s, "select", q.ob, 0),
                                 !.select = IF st = 0
                                              THEN [has |-> TRUE, seq |-> q.seq, fid |-> q.id, t |-> s.now,
                                                    hash |-> q.ob]
                                              ELSE @],
                resp |-> CtlResp(q, q.ob, st)]
      [] q.f = "operate" ->
            LET st == MatchOperate(s, q)
            IN IF st = 0
                 THEN [st |-> [s EXCEPT !.ocb = @ \o CtlTx(s, "operate", q.ob, 1)], resp |-> CtlResp(q, q.ob, 0)]
                 ELSE [st |-> s, resp |-> CtlResp(q, q.ob, st)]
      [] q.f = "dop" ->
            [st |-> [s EXCEPT !.ocb = @ \o CtlTx(s, "operate", q.ob, 2)], resp |-> CtlResp(q, q.ob, 0)]
      [] q.f = "dopnr" ->
            [st |-> [s EXCEPT !.ocb = @ \o CtlTx(s, "operate", q.ob, 3)], resp |-> NoReply]
      [] OTHER -> [st |-> s, resp |-> EmptyResp(q.seq, [NoIin EXCEPT !.nofn = TRUE])]

\* write the reply of a handler, if it has one
Reply(h) == IF h.resp.has THEN WriteSolicited(h.st, h.resp, TRUE) ELSE [st |-> h.st, resp |-> h.resp]

\* process_broadcast: latch the confirm mode, run the few functions allowed by broadcast, never reply
BcMode(dst) == CASE dst = "BC_OPT" -> "opt" [] dst = "BC_MAN" -> "man" [] OTHER -> "nr"
ProcessBroadcast(s, q) ==
    LET s1 == [s EXCEPT !.lastBc = BcMode(q.dst), !.bcGen = @ + 1, !.solRep = [gen |-> 0, seq |-> -1]]
        done(st, act) == [st EXCEPT !.ocb = Append(@, [MkCb(s.now, "info", "broadcast", <<q.fc>>) EXCEPT !.s = act])]
    IN CASE q.bad = "badobj" -> done(s1, "bad_headers")
         [] q.f \in {"write_rst", "dopnr", "enable", "disable", "frznr", "frzclrnr", "frzatnr", "record",
                     "wtabs", "wtlast", "write2"} ->
               done(HandleNonRead(s1, q).st, "processed")
         [] OTHER -> done(s1, "unsupported_function")

\* TransportRequest::Error (header-level rejection: unknown function code, ...): answered with
\* IIN2.0 when the sequence number is known.  DEV_ErrorReplyIgnoresAddressing: the code applies
\* neither the master-address filter nor the broadcast rule to these fragments.
IsHdrError(q) == q.bad = "unkfn"
Foreign(q) == q.src # "M"
IsBc(q) == q.dst # "U"
ErrorVisible(q) == "ErrorReplyIgnoresAddressing" \in DEV \/ (~Foreign(q) /\ ~IsBc(q))
WriteErrorResponse(s, q) ==
    LET w == WriteSolicited(s, EmptyResp(q.seq, [NoIin EXCEPT !.nofn = TRUE]), TRUE)
    IN [w.st EXCEPT !.devs = IF Foreign(q) \/ IsBc(q) THEN @ \cup {"ErrorReplyIgnoresAddressing"} ELSE @]
\* pop_request: a parsed request from another master is dropped before the session sees it
Dropped(q) == (Foreign(q) /\ ~IsHdrError(q)) \/ (IsHdrError(q) /\ ~ErrorVisible(q))

IsRepeat(s, q) == s.last.has /\ s.last.seq = q.seq /\ s.last.hash = q.hash

\* handle_one_request_from_idle (+ process_request_from_idle)
FromIdle(s) ==
    IF s.inbox = <<>> THEN [s EXCEPT !.pc = "After1"]
    ELSE
    LET q  == Head(s.inbox)
        sx == [s EXCEPT !.inbox = Tail(@)]
        s0 == [sx EXCEPT !.ocb = Append(@, MkCb(s.now, "info", "request_from_idle", <<q.seq, q.fc>>))]
    IN
    IF Dropped(q) THEN [sx EXCEPT !.pc = "After1"]
    ELSE IF IsHdrError(q) THEN
        LET s1 == WriteErrorResponse(sx, q) IN IF s1.pc = "Dead" THEN s1 ELSE [s1 EXCEPT !.pc = "After1"]
    ELSE
    CASE q.f \in {"confirm", "uconfirm"} -> [s0 EXCEPT !.pc = "After1"]
      [] IsBc(q) -> [ProcessBroadcast(s0, q) EXCEPT !.pc = "After1"]
      [] q.bad = "badobj" ->
            LET w == WriteSolicited(s0, EmptyResp(q.seq, [NoIin EXCEPT !.unk = TRUE]), TRUE)
                s1 == [w.st EXCEPT !.last = [has |-> TRUE, seq |-> q.seq, hash |-> q.hash, resp |-> w.resp]]
            IN IF w.st.pc = "Dead" THEN w.st
               ELSE IF w.resp.con      \* confirmation forced by a confirm-mandatory broadcast
                 THEN EnterSolWait(s1, [ecsn |-> q.seq, fin |-> TRUE], "After1")
                 ELSE [s1 EXCEPT !.pc = "After1"]
      [] q.f = "read" ->
            \* NewRead and RepeatRead are both answered afresh from idle
            LET sel == DbSelectHeaders(s0, q.hs)
                fr  == FormatRead(sel, TRUE, q.seq)
                w   == WriteSolicited(fr.st, fr.resp, TRUE)
                ser == IF w.resp.con /\ ~fr.series.has
                         THEN [has |-> TRUE, ecsn |-> q.seq, fin |-> TRUE] ELSE fr.series
                s1  == [w.st EXCEPT !.last = [has |-> TRUE, seq |-> q.seq, hash |-> q.hash,
                                              resp |-> w.resp]]
            IN IF w.st.pc = "Dead" THEN w.st
               ELSE IF ser.has THEN EnterSolWait(s1, ser, "After1")
               ELSE [s1 EXCEPT !.pc = "After1"]
      [] OTHER ->
            IF IsRepeat(s0, q) THEN
                \* RepeatNonRead: echo the stored response without executing.
                \* A pending SELECT is re-based so that its own retransmission does not break the pair;
                \* DEV_AnyRepeatRebasesSelect: the code re-bases on the repeat of *any* non-READ request
                LET rebase == s0.select.has /\ (q.f = "select" \/ "AnyRepeatRebasesSelect" \in DEV)
                    s1 == IF rebase
                            THEN [s0 EXCEPT !.select.fid = q.id,
                                            !.devs = IF q.f # "select" THEN @ \cup {"AnyRepeatRebasesSelect"} ELSE @]
                            ELSE s0
                IN
                \* DEV_IdleRepeatRefreshesIin: from idle the code sends the echo through write_solicited,
                \* which ORs the current IIN into the stored header (and stores the result)
                IF ~s1.last.resp.has THEN [s1 EXCEPT !.pc = "After1"]
                ELSE IF "IdleRepeatRefreshesIin" \notin DEV
                  THEN [RepeatSolicited(s1, s1.last.resp) EXCEPT !.pc = "After1"]
                ELSE LET w == WriteSolicited(s1, s1.last.resp, FALSE)
                         fired == w.resp.iin # s1.last.resp.iin
                     IN IF w.st.pc = "Dead" THEN w.st
                        ELSE [w.st EXCEPT !.pc = "After1", !.last.resp = w.resp,
                                          !.devs = IF fired THEN @ \cup {"IdleRepeatRefreshesIin"} ELSE @]
            ELSE
                LET h  == HandleNonRead(s0, q)
                    w  == Reply(h)
                    s1 == [w.st EXCEPT !.last = [has |-> TRUE, seq |-> q.seq, hash |-> q.hash,
                                                 resp |-> w.resp]]
                IN IF w.st.pc = "Dead" THEN w.st
                   ELSE IF w.resp.has /\ w.resp.con
                     THEN EnterSolWait(s1, [ecsn |-> q.seq, fin |-> TRUE], "After1")
                     ELSE [s1 EXCEPT !.pc = "After1"]

-----------------------------------------------------------------------------
(* unsolicited *)

EnterUnsolWait(s, resp, isNull) ==
    [s EXCEPT !.pc = "UnsolWait", !.uresp = resp, !.isNull = isNull,
              !.retries = IF isNull THEN 0 ELSE Retries,
              !.deadline = s.now + ConfirmTO,
              !.ocb = Append(@, MkCb(s.now, "info", "enter_unsol_wait", <<resp.seq>>))]

\* check_unsolicited
CheckUnsol(s) ==
    IF ~UnsolOn THEN [s EXCEPT !.pc = "After2", !.nextAct = "Event"]
    ELSE IF s.unsol = "Null" THEN
        LET seq == s.unsolSeq
            r0  == [has |-> TRUE, uns |-> TRUE, seq |-> seq, fir |-> TRUE, fin |-> TRUE,
                    con |-> TRUE, iin |-> NoIin, body |-> <<>>, bcg |-> 0]
            w   == WriteUnsolicited([s EXCEPT !.unsolSeq = S16(@ + 1)], r0)
        IN IF w.st.pc = "Dead" THEN w.st ELSE EnterUnsolWait(w.st, w.resp, TRUE)
    ELSE IF s.notBefore # NoTime /\ s.now < s.notBefore THEN
        [s EXCEPT !.pc = "After2", !.nextAct = "Until", !.sleepTo = s.notBefore]
    ELSE IF s.enabled = {} THEN [s EXCEPT !.pc = "After2", !.nextAct = "Event"]
    ELSE
        \* write_unsolicited: reset, select the enabled classes, write events only
        LET s1 == DbReset(s)
            s2 == [s1 EXCEPT !.events = DbSelect(@, LAMBDA r : PCls(r.p) \in s.enabled, -1, 0)]
            none == ~\E i \in 1..Len(s2.events) : s2.events[i].st = "S"
            w  == DbWriteEvents(s2, UnsolBudget)
        IN IF none \/ w.count = 0
             THEN [(IF none THEN s2 ELSE w.st) EXCEPT !.pc = "After2", !.nextAct = "Event"]
             ELSE LET seq == s.unsolSeq
                      r0 == [has |-> TRUE, uns |-> TRUE, seq |-> seq, fir |-> TRUE, fin |-> TRUE,
                             con |-> TRUE, iin |-> NoIin, body |-> w.objs, bcg |-> 0]
                      wu == WriteUnsolicited([w.st EXCEPT !.unsolSeq = S16(@ + 1),
                                                          !.unsolBuf = w.objs], r0)
                  IN IF wu.st.pc = "Dead" THEN wu.st ELSE EnterUnsolWait(wu.st, wu.resp, FALSE)

\* the series is over: back in check_unsolicited with its result
UnsolDone(s, result) ==
    IF s.isNull THEN
        [s EXCEPT !.pc = "After2", !.nextAct = "NoSleep",
                  !.unsol = IF result = "Confirmed" THEN "Ready" ELSE "Null",
                  !.notBefore = IF result = "Confirmed" THEN NoTime ELSE @]
    ELSE IF result = "Confirmed" THEN
        [DbClearWritten(s) EXCEPT !.pc = "After2", !.nextAct = "NoSleep", !.notBefore = NoTime]
    ELSE
        \* Timeout / ReturnToIdle.  DEV_UnsolAbortKeepsWritten: the code does not return the
        \* written events to the pool here
        LET s1 == IF "UnsolAbortKeepsWritten" \in DEV
                    THEN [s EXCEPT !.devs = IF \E i \in 1..Len(s.events) : s.events[i].st = "W"
                                               THEN @ \cup {"UnsolAbortKeepsWritten"} ELSE @]
                    ELSE DbReset(s)
        IN [s1 EXCEPT !.pc = "After2", !.nextAct = "Until",
                      !.notBefore = s.now + RetryDelay, !.sleepTo = s.now + RetryDelay]

\* wait_for_unsolicited_confirm: a fragment arrived
UnsolWaitRx(s) ==
    LET q  == Head(s.inbox)
        s0 == [s EXCEPT !.inbox = Tail(@)]
    IN
    IF Dropped(q) THEN s0
    ELSE IF IsHdrError(q) THEN WriteErrorResponse([s0 EXCEPT !.deferred = NoDef], q)
    ELSE
    CASE q.f = "uconfirm" ->
            IF q.seq = s.uresp.seq
              THEN UnsolDone([ConfirmClearsBc(s0, s.uresp.bcg) EXCEPT
                                        !.ocb = Append(@, MkCb(s.now, "info", "unsol_confirmed", <<q.seq>>))],
                             "Confirmed")
              ELSE s0
      [] q.f = "confirm" ->
            \* no solicited response is awaited here, but a reply written during this wait may have reported a
            \* confirm-mandatory broadcast (with CON forced): the confirm that carries its sequence number
            \* acknowledges the broadcast; any other solicited confirm confirms nothing
            IF s0.lastBc = "man" /\ s0.solRep.seq = q.seq THEN ConfirmClearsBc(s0, s0.solRep.gen) ELSE s0
      [] IsBc(q) -> ProcessBroadcast([s0 EXCEPT !.deferred = NoDef], q)
      [] q.bad = "badobj" ->
            WriteSolicited([s0 EXCEPT !.deferred = NoDef],
                           EmptyResp(q.seq, [NoIin EXCEPT !.unk = TRUE]), TRUE).st
      [] q.f = "read" ->
            [s0 EXCEPT !.deferred = [has |-> TRUE, seq |-> q.seq, hash |-> q.hash, hs |-> q.hs]]
      [] OTHER ->
            IF IsRepeat(s0, q) THEN
                LET s1 == IF s0.last.resp.has THEN RepeatSolicited(s0, s0.last.resp) ELSE s0
                IN [s1 EXCEPT !.deferred = NoDef]
            ELSE
                LET h  == HandleNonRead([s0 EXCEPT !.deferred = NoDef], q)
                    w  == Reply(h)
                    s1 == [w.st EXCEPT !.last = [has |-> TRUE, seq |-> q.seq, hash |-> q.hash,
                                                 resp |-> w.resp]]
                IN IF w.st.pc = "Dead" THEN w.st
                   ELSE IF q.f = "disable" THEN UnsolDone(s1, "ReturnToIdle")
                   ELSE s1

\* wait_for_unsolicited_confirm: the confirm timer fired
UnsolWaitTimeout(s) ==
    LET can   == s.retries # 0
        retry == can /\ ~s.deferred.has
        s0 == [s EXCEPT !.retries = IF can /\ @ > 0 THEN @ - 1 ELSE @,
                        !.ocb = Append(@, MkCb(s.now, "info", "unsol_timeout",
                                               <<s.uresp.seq, IF retry THEN 1 ELSE 0>>))]
    IN IF ~retry THEN UnsolDone(s0, "Timeout")
       ELSE \* repeat_unsolicited: stored header + current unsolicited buffer
            [Emit(s0, Wire(s0.uresp, s0.unsolBuf)) EXCEPT !.deadline = s.now + ConfirmTO]

-----------------------------------------------------------------------------
(* solicited confirm wait *)

SolWaitRx(s) ==
    LET q  == Head(s.inbox)
    IN
    IF Dropped(q) THEN [s EXCEPT !.inbox = Tail(@)]
    ELSE IF IsHdrError(q) \/ IsBc(q) \/ q.bad = "badobj" THEN
            \* NewRequest: the fragment is retained and handled from idle
            [DbReset(s) EXCEPT !.pc = s.cont,
                               !.ocb = Append(@, MkCb(s.now, "info", "sol_wait_new_request", <<>>))]
    ELSE
    CASE q.f = "confirm" /\ q.seq = s.series.ecsn ->
            LET s0 == [ConfirmClearsBc(s, s.awaitBc) EXCEPT !.inbox = Tail(@),
                                !.ocb = Append(@, MkCb(s.now, "info", "sol_confirmed", <<q.seq>>))]
                s1 == DbClearWritten(s0)
            IN IF s.series.fin THEN [s1 EXCEPT !.pc = s.cont]
               ELSE LET seq == S16(s.series.ecsn + 1)
                        fr  == FormatRead(s1, FALSE, seq)
                        w   == WriteSolicited(fr.st, fr.resp, TRUE)
                        \* DEV_EchoUsesFirstHeader: last_valid_request.response is not updated
                        s2  == IF "EchoUsesFirstHeader" \in DEV THEN w.st
                               ELSE [w.st EXCEPT !.last.resp = w.resp]
                    IN IF w.st.pc = "Dead" THEN w.st
                       ELSE IF fr.series.has
                         THEN [s2 EXCEPT !.series = [ecsn |-> seq, fin |-> fr.series.fin],
                                         !.deadline = s.now + ConfirmTO, !.awaitBc = w.resp.bcg]
                         ELSE [s2 EXCEPT !.pc = s.cont]
      [] q.f = "confirm" ->
            [s EXCEPT !.inbox = Tail(@),
                      !.ocb = Append(@, MkCb(s.now, "info", "wrong_sol_confirm", <<s.series.ecsn, q.seq>>))]
      [] q.f = "uconfirm" ->
            [s EXCEPT !.inbox = Tail(@),
                      !.ocb = Append(@, MkCb(s.now, "info", "unexpected_confirm", <<1, q.seq>>))]
      [] q.f = "read" /\ IsRepeat(s, q) ->
            \* EchoLastResponse and restart the confirm timer
            LET s0 == [s EXCEPT !.inbox = Tail(@)]
                s1 == IF s0.last.resp.has THEN RepeatSolicited(s0, s0.last.resp) ELSE s0
                fired == s0.last.resp.has /\ s0.last.resp.body # s0.solBuf
            IN [s1 EXCEPT !.deadline = s.now + ConfirmTO,
                          !.devs = IF fired THEN @ \cup {"EchoUsesFirstHeader"} ELSE @]
      [] OTHER ->
            \* NewRequest: the fragment is retained and handled from idle
            [DbReset(s) EXCEPT !.pc = s.cont,
                               !.ocb = Append(@, MkCb(s.now, "info", "sol_wait_new_request", <<>>))]

SolWaitTimeout(s) ==
    [DbReset(s) EXCEPT !.pc = s.cont,
                       !.ocb = Append(@, MkCb(s.now, "info", "sol_timeout", <<s.series.ecsn>>))]

\* handle_deferred_read
DeferredRead(s) ==
    IF ~s.deferred.has THEN [s EXCEPT !.pc = "After3"]
    ELSE LET d   == s.deferred
             sel == DbSelectHeaders(DbReset([s EXCEPT !.deferred = NoDef]), d.hs)
             fr  == FormatRead(sel, TRUE, d.seq)
             w   == WriteSolicited(fr.st, fr.resp, TRUE)
             ser == IF w.resp.con /\ ~fr.series.has
                      THEN [has |-> TRUE, ecsn |-> d.seq, fin |-> TRUE] ELSE fr.series
             s1  == [w.st EXCEPT !.last = [has |-> TRUE, seq |-> d.seq, hash |-> d.hash,
                                           resp |-> w.resp]]
         IN IF w.st.pc = "Dead" THEN w.st
            ELSE IF ser.has THEN EnterSolWait(s1, ser, "After3")
            ELSE [s1 EXCEPT !.pc = "After3"]

-----------------------------------------------------------------------------
(* Run: compose micro-steps until the task blocks *)

Blocked(s) ==
    \/ s.pc \in {"Down", "Dead"}
    \/ s.pc = "Block" /\ s.inbox = <<>> /\ ~s.changed
                      /\ ~(s.nextAct = "Until" /\ s.now >= s.sleepTo)
    \/ s.pc \in {"SolWait", "UnsolWait"} /\ s.inbox = <<>> /\ s.now < s.deadline

Micro(s) ==
    CASE s.pc = "Top"    -> FromIdle(s)
      [] s.pc = "After1" -> CheckUnsol(s)
      [] s.pc = "After2" -> DeferredRead(s)
      [] s.pc = "After3" ->
            IF s.nextAct = "NoSleep" THEN [s EXCEPT !.pc = "Top"] ELSE [s EXCEPT !.pc = "Block"]
      [] s.pc = "Block"  -> [s EXCEPT !.pc = "Top", !.changed = FALSE]
      [] s.pc = "SolWait" -> IF s.inbox # <<>> THEN SolWaitRx(s) ELSE SolWaitTimeout(s)
      [] s.pc = "UnsolWait" -> IF s.inbox # <<>> THEN UnsolWaitRx(s) ELSE UnsolWaitTimeout(s)
      [] OTHER -> s

RECURSIVE Run(_)
Run(s) == IF Blocked(s) THEN s ELSE Run(Micro(s))

\* earliest pending timer strictly after `now` and not after `limit`, or NoTime
NextTimer(s, limit) ==
    LET cands == (IF s.pc \in {"SolWait", "UnsolWait"} THEN {s.deadline} ELSE {})
                 \cup (IF s.pc = "Block" /\ s.nextAct = "Until" THEN {s.sleepTo} ELSE {})
        due == {d \in cands : d > s.now /\ d <= limit}
    IN IF due = {} THEN NoTime ELSE CHOOSE d \in due : \A x \in due : d <= x

\* let virtual time pass up to `target`, firing timers in order
RECURSIVE Advance(_, _)
Advance(s, target) ==
    LET d == NextTimer(s, target)
    IN IF d = NoTime THEN [s EXCEPT !.now = target]
       ELSE Advance(Run([s EXCEPT !.now = d]), target)

-----------------------------------------------------------------------------
(* stimuli.  A (resolved) input is a record in the scenario alphabet:          *)
(*   [k |-> "conn"] [k |-> "cut"] [k |-> "adv", dt] [k |-> "upd", p]          *)
(*   [k |-> "app", bit, on]   the application raises / lowers NEED_TIME,      *)
(*        LOCAL_CONTROL, DEVICE_TROUBLE or CONFIG_CORRUPT (time | local |     *)
(*        trouble | cfg)                                                      *)
(*   [k |-> "read", seq, hs, rep]   hs: header tokens [n |-> c0|c1|c2|c3, lim]    *)
(*   [k |-> "req", f, seq, cl, rep (, ob, bad, src, dst)]                      *)
(*        f: delay | enable | disable | write_rst | write2 | select | operate | dop |  *)
(*           dopnr | unkfn;  ob: control object set a | b;  bad: "" | badobj  *)
(*           | unkfn;  src: M | X;  dst: U | BC_OPT | BC_MAN | BC_NR          *)
(*   [k |-> "conf", uns, seq]                                                 *)
(* rep = byte-identical repetition of the previous request fragment          *)

FcOf(f) == CASE f = "read" -> 1 [] f = "delay" -> 23 [] f = "enable" -> 20 [] f = "disable" -> 21
             [] f = "write_rst" -> 2 [] f = "write2" -> 2 [] f = "wtabs" -> 2 [] f = "wtlast" -> 2 [] f = "record" -> 24
             [] f = "cold" -> 13 [] f = "warm" -> 14 [] f = "select" -> 3 [] f = "operate" -> 4 [] f = "dop" -> 5
             [] f = "dopnr" -> 6 [] f = "unkfn" -> 112
             [] f = "frz" -> 7 [] f = "frznr" -> 8 [] f = "frzclr" -> 9 [] f = "frzclrnr" -> 10
             [] f = "frzat" -> 11 [] f = "frzatnr" -> 12 [] OTHER -> 0

Fld(in, name, dflt) == IF name \in DOMAIN in THEN in[name] ELSE dflt

\* SessionState::reset + transport reset on disconnect.
\* DEV_DisconnectKeepsWritten: the code does not return the events of a fragment that was awaiting
\* confirmation to the pool when the session ends
SessionReset(s) ==
    LET s1 == IF "DisconnectKeepsWritten" \in DEV
                THEN [s EXCEPT !.devs = IF \E i \in 1..Len(s.events) : s.events[i].st = "W"
                                           THEN @ \cup {"DisconnectKeepsWritten"} ELSE @]
                ELSE DbReset(s)
    IN [s1 EXCEPT !.pc = "Down", !.inbox = <<>>, !.last = NoLast, !.select = NoSel,
                  !.deferred = NoDef, !.mlast = [k |-> "none"]]

UpdVal(p, n) == IF Pts[p].ty = "os" THEN "os" \o ToString(Pts[p].ssz) \o ":" \o ToString(n)
                ELSE ToString(n % 2)
UpdTm(n) == ToString(1000 + n)

Inject(s, in) ==
    CASE in.k = "conn" -> IF s.pc = "Down" THEN [s EXCEPT !.pc = "Top", !.changed = FALSE] ELSE s
      [] in.k = "cut"  -> SessionReset(s)
      [] in.k = "adv"  -> s
      [] in.k = "app"  -> [s EXCEPT !.app[in.bit] = in.on]
      [] in.k = "upd"  ->
            LET n   == s.nupd + 1
                val == UpdVal(in.p, n)
                r   == DbInsert([s EXCEPT !.nupd = n, !.cur[in.p] = val], in.p, val, UpdTm(n))
            IN [r.st EXCEPT !.changed = TRUE]
      [] in.k \in {"read", "req"} ->
            \* the fragment: function, sequence, headers / classes / control object set, malformation
            \* class; addressing (src, dst) is a property of the link frames that carry it
            LET f    == IF in.k = "read" THEN "read" ELSE in.f
                rep  == in.rep /\ s.mlast.k # "none"
                body == IF rep THEN s.mlast
                        ELSE [k |-> f, seq |-> in.seq,
                              hs |-> IF in.k = "read" THEN in.hs ELSE <<>>,
                              cl |-> IF in.k = "req" THEN in.cl ELSE {},
                              ob |-> Fld(in, "ob", ""), bad |-> Fld(in, "bad", "")]
                i    == Intern(s, body)
                q    == [f |-> body.k, fc |-> FcOf(body.k), seq |-> body.seq, hash |-> i.id,
                         hs |-> body.hs, cl |-> body.cl, ob |-> body.ob, bad |-> body.bad,
                         src |-> Fld(in, "src", "M"), dst |-> Fld(in, "dst", "U"), id |-> s.fid]
            IN IF s.pc \in {"Down", "Dead"} THEN s
               ELSE [i.st EXCEPT !.inbox = Append(@, q), !.fid = @ + 1, !.mseq = body.seq,
                                 !.mlast = body]
      [] in.k = "conf" ->
            LET q == [f |-> IF in.uns THEN "uconfirm" ELSE "confirm", fc |-> 0, seq |-> in.seq,
                      hash |-> 0, hs |-> <<>>, cl |-> {}, ob |-> "", bad |-> "", src |-> Fld(in, "src", "M"),
                      dst |-> "U", id |-> s.fid]
            IN IF s.pc \in {"Down", "Dead"} THEN s
               ELSE [s EXCEPT !.inbox = Append(@, q), !.fid = @ + 1]
      [] OTHER -> s

\* the sequence numbers a well-behaved / misbehaving master would use next
NextReqSeq(s)      == S16(s.mseq + 1)
RightConfirmSeq(s, uns) == IF uns THEN S16(s.unsolSeq + 15) ELSE s.series.ecsn

\* apply one stimulus: inject, run to quiescence, let the settle millisecond (or dt) pass
Apply(s, in) ==
    LET s0 == [s EXCEPT !.otx = <<>>, !.ocb = <<>>]
        s1 == Run(Inject(s0, in))
        dt == IF in.k = "adv" THEN in.dt ELSE 1
    IN Advance(s1, s1.now + dt)

=============================================================================
