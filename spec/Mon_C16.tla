------------------------------ MODULE Mon_C16 ------------------------------
(***************************************************************************)
(* C16 - Commands succeed only if truly accepted; every request gets       *)
(* exactly one outcome.                                                     *)
(*                                                                         *)
(* The monitor follows the requests submitted by the user (req lines),     *)
(* their completions (done records), the request outstanding on the wire   *)
(* (MMonBase!TrackOut) and the class of every reply (the scenario tags a   *)
(* reply "echo" only when it is a byte-faithful echo of the request with   *)
(* status SUCCESS).                                                         *)
(*   false-success     a command (or restart / read / empty-response       *)
(*                     request) reported success on a line that is not the *)
(*                     faithful final reply to its last step               *)
(*   operate-unechoed  OPERATE written without a faithful SELECT echo      *)
(*   operate-shape     OPERATE not with the next sequence number, the same *)
(*                     objects and the same destination as the SELECT      *)
(*   no-operate        faithful SELECT echo not followed by OPERATE        *)
(*   wrong-error       IIN2 rejection / timeout / disable reported as      *)
(*                     something else                                      *)
(*   two-outcomes / phantom-outcome / no-outcome / late                    *)
(*                     every accepted request completes exactly once: at   *)
(*                     once for requests that cannot be queued, on the     *)
(*                     line of a disconnect or disable for all pending     *)
(*                     ones, and within a number of response timeouts      *)
(*                     bounded by the protocol steps of the requests ahead *)
(***************************************************************************)
EXTENDS MMonBase

TaskKinds == {"read", "cmd", "restart", "link_status", "empty", "time"}

MonInit == [cfg |-> [assocs |-> <<>>], sc |-> "", viol |-> <<>>, out |-> NoOut,
            pend |-> <<>>,       \* <<[id, kind, mode, a, t, dl]>> accepted and not completed
            fin |-> {},          \* ids already completed
            up |-> FALSE, en |-> TRUE, pipe |-> FALSE,
            lout |-> [has |-> FALSE, t |-> 0]]   \* a link status request is outstanding
V(m, reason, l, ctx) == [m EXCEPT !.viol = IF Len(@) >= 300 THEN @ ELSE Append(@, Viol("C16", reason, l, m.sc, ctx))]

Quiet(cfg) == \A i \in 1..Len(cfg.assocs) : ~cfg.assocs[i].dis /\ ~cfg.assocs[i].integ /\ ~cfg.assocs[i].en
                                             /\ cfg.assocs[i].ka < 0 /\ cfg.assocs[i].tsync = ""
Rt(cfg, a) == IF IsAssoc(cfg, a) THEN ACfg(cfg, a).rt ELSE 1000
\* protocol steps of a request
Steps(r) == CASE r.kind = "cmd" /\ r.mode = "sbo" -> 2 [] r.kind = "time" -> 2 [] OTHER -> 1

PendIds(m) == {m.pend[i].id : i \in 1..Len(m.pend)}
PendOf(m, id) == LET xs == SelectSeq(m.pend, LAMBDA r : r.id = id) IN xs[1]

\* ---- success only on the faithful final reply
OkAllowed(m, e, r) ==
    /\ e.k = "rx"
    /\ CASE r.kind = "cmd" -> Answers(m.out, e.rx) /\ e.rx.body = "echo" /\ m.out.a = r.a
                              /\ m.out.fc = (IF r.mode = "sbo" THEN 4 ELSE 5)
         [] r.kind = "restart" -> Answers(m.out, e.rx) /\ e.rx.body = "g52" /\ m.out.fc \in {13, 14}
         [] r.kind = "read" -> Answers(m.out, e.rx) /\ e.rx.fin /\ m.out.fc = 1
         [] r.kind = "empty" -> Answers(m.out, e.rx) /\ e.rx.body = "empty"
         [] r.kind = "link_status" -> e.rx.fc = -1
         [] OTHER -> TRUE

\* one completion record
DoneStep(m, e, d, l) ==
    IF d.id \in m.fin THEN V(m, "two-outcomes", l, "a request completed twice")
    ELSE IF d.id \notin PendIds(m) THEN V(m, "phantom-outcome", l, "completion of a request that was never submitted")
    ELSE
    LET r == PendOf(m, d.id)
        m0 == [m EXCEPT !.pend = SelectSeq(@, LAMBDA x : x.id # d.id), !.fin = @ \cup {d.id}]
        m1 == IF d.res = "ok" /\ r.kind \in TaskKinds /\ ~OkAllowed(m, e, r)
                THEN V(m0, "false-success", l, "success reported without the faithful final reply to the request's last step")
                ELSE m0
        \* the corresponding error
        m2 == IF r.kind \in {"cmd", "restart", "read", "empty"} /\ d.res # "ok" /\
                   \* (the answer of an association removed meanwhile completes the request with NoSuchAssociation)
                   (\/ e.k = "rx" /\ Iin2Err(e.rx.iin) /\ d.res \notin {"RejectedByIin2", "NoSuchAssociation"}
                         /\ Answers(m.out, [e.rx EXCEPT !.iin.param = FALSE, !.iin.nofn = FALSE, !.iin.unk = FALSE])
                    \/ e.k = "adv" /\ d.res # "ResponseTimeout"
                    \/ e.k = "disable" /\ d.res # "Disabled")
                THEN V(m1, "wrong-error", l, "IIN2 rejection, timeout or disable reported as a different error")
                ELSE m1
    IN m2

RECURSIVE Dones(_, _, _, _)
Dones(m, e, ds, l) == IF ds = <<>> THEN m ELSE Dones(DoneStep(m, e, Head(ds), l), e, Tail(ds), l)

MonStep(m, e, l) ==
    IF e.k = "reset" THEN [MonInit EXCEPT !.cfg = e.cfg, !.sc = e.id, !.viol = m.viol, !.en = e.cfg.enabled]
    ELSE IF ~HasOutputs(e) THEN m
    ELSE
    LET \* requests still pending past their deadline when this line begins
        mLate == IF \E i \in 1..Len(m.pend) : m.pend[i].dl >= 0 /\ m.pend[i].dl < e.t
                   THEN V([m EXCEPT !.pend = [i \in 1..Len(@) |-> [@[i] EXCEPT !.dl = -1]]], "late", l,
                          "a request has no outcome after the response timeouts its protocol steps allow")
                   ELSE m
        \* an accepted non-final fragment of a read series is one more protocol step: one more response timeout
        mExt == IF e.k = "rx" /\ ~e.rx.noconn /\ e.rx.fc # -1 /\ Answers(m.out, e.rx) /\ m.out.read /\ ~e.rx.fin
                  THEN [mLate EXCEPT !.pend = [i \in 1..Len(@) |-> IF @[i].dl >= 0 THEN [@[i] EXCEPT !.dl = @ + Rt(m.cfg, m.out.a) + 5] ELSE @[i]]]
                  ELSE mLate
        \* a new request
        mReq == IF e.k = "req" THEN
                    LET r == e.req
                        ahead == SelectSeq(mExt.pend, LAMBDA x : x.kind \in TaskKinds)
                        budget == (Steps([kind |-> r.kind, mode |-> r.mode]) + FoldLeft(LAMBDA acc, x : acc + Steps(x), 0, ahead))
                                   * (Rt(m.cfg, r.a) + 5) + 5
                        dl == IF Quiet(m.cfg) /\ Len(m.cfg.assocs) = 1 /\ r.kind \in TaskKinds THEN e.t + budget ELSE -1
                    IN [mExt EXCEPT !.pend = Append(@, [id |-> r.id, kind |-> r.kind, mode |-> r.mode, a |-> r.a, t |-> e.t, dl |-> dl])]
                ELSE mExt
        \* OPERATE only after a faithful SELECT echo
        ops == SelectSeq(e.tx, LAMBDA x : x.fc = 4)
        echoed == e.k = "rx" /\ Answers(m.out, e.rx) /\ m.out.fc = 3 /\ e.rx.body = "echo"
        mOp1 == IF ops # <<>> /\ ~echoed
                  THEN V(mReq, "operate-unechoed", l, "OPERATE written without a faithful SELECT echo") ELSE mReq
        mOp2 == IF ops # <<>> /\ echoed /\ (ops[1].seq # Seq16(m.out.seq + 1) \/ ops[1].obid # m.out.obid \/ ops[1].dst # m.out.a)
                  THEN V(mOp1, "operate-shape", l, "OPERATE must carry the next sequence number and the objects of the SELECT") ELSE mOp1
        mOp3 == IF echoed /\ ops = <<>>
                  THEN V(mOp2, "no-operate", l, "faithful SELECT echo not followed by OPERATE") ELSE mOp2
        mD == Dones(mOp3, e, e.done, l)
        \* requests that cannot be queued complete at once; a disconnect or disable completes everything
        immediate == e.k = "req" /\ (e.req.kind \notin TaskKinds \/ ~m.up)
        mI == IF immediate /\ e.req.id \in PendIds(mD)
                THEN V([mD EXCEPT !.pend = SelectSeq(@, LAMBDA x : x.id # e.req.id)], "no-outcome", l,
                       "a request that cannot be queued must complete at once")
                ELSE mD
        mC == IF e.k \in {"cut", "disable"} /\ m.up /\ mI.pend # <<>>
                THEN V([mI EXCEPT !.pend = <<>>], "no-outcome", l, "requests pending at a disconnect or disable must fail then")
                ELSE mI
        \* the harness hands a new connection to an enabled endpoint at once, to a disabled one when it is enabled
        up1 == CASE e.k = "conn" -> m.up \/ m.en
                 [] e.k = "enable" -> m.up \/ m.pipe
                 [] e.k \in {"cut", "disable"} -> FALSE
                 [] OTHER -> m.up
        pipe1 == CASE e.k = "conn" -> ~m.up /\ ~m.en
                   [] e.k \in {"enable", "cut"} -> FALSE
                   [] OTHER -> m.pipe
        en1 == CASE e.k = "enable" -> TRUE [] e.k = "disable" -> FALSE [] OTHER -> m.en
        \* still pending at the end of the line although its deadline lies within it
        mL == IF \E i \in 1..Len(mC.pend) : mC.pend[i].dl >= 0 /\ mC.pend[i].dl < LineEnd(e)
                THEN V([mC EXCEPT !.pend = [i \in 1..Len(@) |-> IF @[i].dl < LineEnd(e) THEN [@[i] EXCEPT !.dl = -1] ELSE @[i]]], "late", l,
                       "a request has no outcome after the response timeouts its protocol steps allow")
                ELSE mC
    IN [mL EXCEPT !.out = TrackOut(m.out, e), !.up = up1, !.pipe = pipe1, !.en = en1]

Claimed == {"C16"}
=============================================================================
