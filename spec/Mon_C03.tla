------------------------------ MODULE Mon_C03 ------------------------------
(***************************************************************************)
(* C03 - No event is lost, invented, or released before a confirmed        *)
(* response carried it.  The monitor is the ledger of EvLedger: every      *)
(* recorded event stays in `live` until a cleared(id) callback that is     *)
(* justified by the CONFIRM of a fragment that carried it; every           *)
(* transmitted event object must match a live event (index, value, flags,  *)
(* time); fragments report oldest first; a class/type poll must offer      *)
(* every eligible event (no skipping); the buffer state reported after a   *)
(* confirm must agree with the ledger.                                     *)
(***************************************************************************)
EXTENDS EvLedger

MonInit == LInit([confirm_to |-> 5000, app |-> [time |-> FALSE, local |-> FALSE, trouble |-> FALSE, cfg |-> FALSE]], "", <<>>)

MonStep(m, e, l) ==
    IF e.k = "reset" THEN LInit(e.cfg, e.id, m.viol)
    ELSE IF ~HasOutputs(e) THEN m
    ELSE LET L1 == ApplyStimulus(m, e, l)
             \* releases reported on lines that are not fragments (there should be none)
             L2 == IF e.k # "rx" THEN CheckCounts(ApplyRelease(L1, e, l), e, l) ELSE L1
         IN FoldLeft(LAMBDA acc, x : ApplyTx(acc, x, e, l), L2, e.tx)

Claimed == {"C03"}
=============================================================================
