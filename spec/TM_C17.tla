------------------------------- MODULE TM_C17 -------------------------------
(* trace validation: run Mon_C17 over a recorded (normalised) M-trace *)
EXTENDS Mon_C17, Json, IOUtils
Rec == ndJsonDeserialize(IOEnv.TRACE)
VARIABLES l, m
TInit == l = 1 /\ m = MonInit
TNext == l <= Len(Rec) /\ m' = MonStep(m, Rec[l], l) /\ l' = l + 1
TSpec == TInit /\ [][TNext]_<<l, m>>
\* evaluated in every state; writes the verdict once the whole trace is consumed
Done == l <= Len(Rec) \/ JsonSerialize(IOEnv.OUT, [lines |-> Len(Rec), viol |-> m.viol])
=============================================================================
