------------------------------ MODULE MasterEv ------------------------------
(***************************************************************************)
(* The event (M-trace line) one applied stimulus of Master.tla produces,   *)
(* in the alphabet of lib/norm.py norm_mline, and the mapping between the  *)
(* recorded form of an input and the abstract one.                         *)
(***************************************************************************)
EXTENDS Master

IinRec(set) == [bc |-> FALSE, c1 |-> "c1" \in set, c2 |-> "c2" \in set, c3 |-> "c3" \in set,
                time |-> "time" \in set, local |-> FALSE, trouble |-> FALSE, rst |-> "rst" \in set,
                nofn |-> FALSE, unk |-> FALSE, param |-> "err" \in set, ovf |-> "ovf" \in set,
                busy |-> FALSE, cfg |-> FALSE, r6 |-> FALSE, r7 |-> FALSE]
IinSet(r) == (IF r.c1 THEN {"c1"} ELSE {}) \cup (IF r.c2 THEN {"c2"} ELSE {}) \cup (IF r.c3 THEN {"c3"} ELSE {})
             \cup (IF r.time THEN {"time"} ELSE {}) \cup (IF r.rst THEN {"rst"} ELSE {})
             \cup (IF r.ovf THEN {"ovf"} ELSE {}) \cup (IF r.nofn \/ r.unk \/ r.param THEN {"err"} ELSE {})

ObId(task) == IF "ob" \in DOMAIN task THEN (IF task.ob = "a" THEN 1 ELSE 2) ELSE 0

ModelCfg == [maddr |-> 1, enabled |-> TRUE,
             assocs |-> [a \in 1..NA |-> Assocs[a]]]

TxRec(x) == [t |-> x.t, fc |-> x.fc, seq |-> x.seq, fir |-> TRUE, fin |-> TRUE, con |-> FALSE, uns |-> x.uns,
             dst |-> x.dst, bid |-> 0, obid |-> ObId(x.what), nobj |-> 0, wf |-> TRUE, hdrs |-> <<>>,
             pid |-> IF x.what.t = "poll" THEN x.what.pid ELSE -1]

KindOf(task) == CASE task.t = "uread" -> "read" [] task.t = "cmd" -> "cmd" [] task.t = "restart" -> "restart"
                  [] task.t = "link" -> "link_status" [] task.t = "empty" -> "empty" [] task.t = "time" -> "time"
                  [] OTHER -> "?"

BuildEv(s0, in, s1) ==
    LET base == [k |-> in.k, t |-> s0.now,
                 tx |-> LET xs == SelectSeq(s1.otx, LAMBDA x : x.fc # -1) IN [i \in 1..Len(xs) |-> TxRec(xs[i])],
                 ltx |-> LET xs == SelectSeq(s1.otx, LAMBDA x : x.fc = -1)
                         IN [i \in 1..Len(xs) |-> [t |-> xs[i].t, fn |-> "REQ_LINK_STATUS", dst |-> xs[i].dst]],
                 cb |-> s1.ocb, done |-> s1.odone, panic |-> FALSE, ended |-> FALSE, sess |-> <<>>]
    IN CASE in.k = "adv" -> base @@ [dt |-> in.dt]
         [] in.k = "req" ->
              LET m == in.m
                  isTask == m.k = "task"
              IN base @@ [req |-> [id |-> IF isTask THEN UserId(m.task) ELSE m.id,
                                   a |-> IF m.a = 0 THEN 0 ELSE Addr(m.a),
                                   kind |-> IF isTask THEN KindOf(m.task) ELSE IF m.k = "remove" THEN "assoc_remove" ELSE m.k,
                                   mode |-> IF isTask /\ m.task.t = "cmd" THEN m.task.mode ELSE "",
                                   nobj |-> IF isTask /\ m.task.t = "cmd" THEN 1 ELSE 0,
                                   ob |-> IF isTask /\ m.task.t = "cmd" THEN m.task.ob ELSE "",
                                   pid |-> IF "pid" \in DOMAIN m THEN m.pid ELSE 0,
                                   period |-> IF "period" \in DOMAIN m THEN m.period ELSE 0,
                                   proc |-> IF isTask /\ m.task.t = "time" THEN m.task.proc ELSE ""]]
         [] in.k = "rx" ->
              LET f == in.f
              IN base @@ [rx |-> [fc |-> f.fc, seq |-> f.seq, fir |-> f.fir, fin |-> f.fin, con |-> f.con, uns |-> f.uns,
                                  src |-> IF f.src = 0 THEN 999 ELSE Addr(f.src), iin |-> IinRec(f.iin), body |-> f.body,
                                  hash |-> f.hash, bid |-> 0, wf |-> f.body \notin {"bad", "hdrbad"},
                                  noconn |-> s0.pc \in {"Down", "Dead"}, items |-> <<>>]]
         [] OTHER -> base

ResetEv == [k |-> "reset", t |-> 0, id |-> "mc", cfg |-> ModelCfg]

\* ---- recorded input -> abstract input ("?" = not modelled)
AIdx(addr) == IF \E a \in 1..NA : Assocs[a].addr = addr THEN CHOOSE a \in 1..NA : Assocs[a].addr = addr ELSE 0

InOf(e) ==
    CASE e.k \in {"conn", "cut", "enable", "disable"} -> [k |-> e.k]
      [] e.k = "adv" -> [k |-> "adv", dt |-> e.dt]
      [] e.k = "req" ->
            LET r == e.req
                a == AIdx(r.a)
                task == CASE r.kind = "read" -> [t |-> "uread", id |-> r.id]
                          [] r.kind = "cmd" /\ r.nobj = 1 /\ r.ob \in {"a", "b"} ->
                                [t |-> "cmd", id |-> r.id, mode |-> r.mode,
                                 step |-> IF r.mode = "sbo" THEN "select" ELSE "do", ob |-> r.ob]
                          [] r.kind = "restart" -> [t |-> "restart", id |-> r.id]
                          [] r.kind = "link_status" -> [t |-> "link", id |-> r.id]
                          [] r.kind = "empty" -> [t |-> "empty", id |-> r.id]
                          [] r.kind = "time" /\ r.proc \in {"lan", "nonlan"} ->
                                [t |-> "time", id |-> r.id, proc |-> r.proc, step |-> IF r.proc = "lan" THEN "record" ELSE "measure"]
                          [] OTHER -> [t |-> "?"]
            IN IF r.kind \in {"read", "cmd", "restart", "link_status", "empty", "time"} THEN
                    IF task.t = "?" THEN [k |-> "?"] ELSE [k |-> "req", m |-> [k |-> "task", a |-> a, task |-> task]]
               ELSE IF r.kind = "poll_add" /\ a # 0 THEN [k |-> "req", m |-> [k |-> "poll_add", a |-> a, pid |-> r.pid, period |-> r.period, id |-> r.id]]
               ELSE IF r.kind = "poll_demand" /\ a # 0 THEN [k |-> "req", m |-> [k |-> "poll_demand", a |-> a, pid |-> r.pid, id |-> r.id]]
               ELSE IF r.kind = "assoc_remove" /\ a # 0 THEN [k |-> "req", m |-> [k |-> "remove", a |-> a, id |-> r.id]]
               ELSE [k |-> "?"]
      [] e.k = "rx" ->
            LET x == e.rx
            IN IF x.body = "?" THEN [k |-> "?"]
               ELSE [k |-> "rx", f |-> [fc |-> x.fc, seq |-> x.seq, fir |-> x.fir, fin |-> x.fin, con |-> x.con, uns |-> x.uns,
                                        src |-> AIdx(x.src), iin |-> IinSet(x.iin), body |-> x.body, hash |-> x.hash]]
      [] OTHER -> [k |-> "?"]
=============================================================================
