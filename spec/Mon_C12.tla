------------------------------ MODULE Mon_C12 ------------------------------
(***************************************************************************)
(* C12 - Outstation replies are well-formed, correlated, bounded, and      *)
(* report rejections.  Every transmitted fragment is paired with what      *)
(* triggered it:                                                           *)
(*   seq-mismatch      a solicited response whose sequence number is not   *)
(*                     that of the request it answers (request on this     *)
(*                     line, next fragment of the series, deferred READ)   *)
(*   uns-bit / unsol-shape / unsol-seq                                     *)
(*                     function 129 <=> UNS clear; 130 => UNS FIR FIN CON  *)
(*                     under its own consecutive numbering                 *)
(*   answered-noreply  a well-formed request whose function forbids a      *)
(*                     reply was answered                                  *)
(*   oversize / malformed-tx                                               *)
(*   silent-reject / clean-reject                                          *)
(*                     an unsupported or malformed request (or one with a  *)
(*                     rejected object header) got silence / a reply       *)
(*                     without an IIN2 error bit                           *)
(***************************************************************************)
EXTENDS MonBase

MonInit == [cfg |-> [any_master |-> FALSE, self_addr |-> FALSE, sol_buf |-> 2048, unsol_buf |-> 2048],
            sc |-> "", viol |-> <<>>,
            uns |-> [seq |-> -1, bid |-> -1],
            sol |-> [seq |-> -1, fin |-> TRUE],     \* last solicited fragment
            reads |-> {}]                           \* sequence numbers of READs not answered yet

V(m, reason, l, ctx) == [m EXCEPT !.viol = IF Len(@) >= 300 THEN @ ELSE Append(@, Viol("C12", reason, l, m.sc, ctx))]

NoReplyFn == {6, 8, 10, 12}
RejectCls == {"unkfn", "badobj", "reject"}

TxStep(m, x, e, l) ==
    LET isReqLine == IsReq(e) /\ SrcOk(e, m.cfg) /\ Unicast(e, m.cfg) /\ ~e.noconn
        m1 == IF ~x.wf THEN V(m, "malformed-tx", l, "transmitted fragment does not parse cleanly") ELSE m
        m2 == IF x.len > (IF x.uns THEN m.cfg.unsol_buf ELSE m.cfg.sol_buf)
                THEN V(m1, "oversize", l, "fragment larger than the configured transmit size") ELSE m1
        m3 == IF (x.fc = 129 /\ x.uns) \/ (x.fc = 130 /\ ~x.uns)
                THEN V(m2, "uns-bit", l, "UNS bit does not match the function code") ELSE m2
    IN IF x.uns THEN
            LET m4 == IF ~(x.fir /\ x.fin /\ x.con)
                        THEN V(m3, "unsol-shape", l, "unsolicited response without FIR, FIN and CON") ELSE m3
                m5 == IF m.uns.seq # -1 /\ x.seq # m.uns.seq /\ x.seq # Seq16(m.uns.seq + 1)
                        THEN V(m4, "unsol-seq", l, "unsolicited sequence numbers not consecutive") ELSE m4
            IN [m5 EXCEPT !.uns = [seq |-> x.seq, bid |-> x.bid]]
       ELSE
            \* (whether a fragment may be answered at all given its addressing is C07's concern; here
            \*  only the correlation of a reply with its request is judged)
            LET answersLine == IsReq(e) /\ ~e.noconn /\ x.seq = e.seq /\ x.fir
                continues   == ~x.fir /\ ~m.sol.fin /\ x.seq = Seq16(m.sol.seq + 1)
                deferred    == x.fir /\ x.seq \in m.reads
                echoCont    == ~x.fir /\ isReqLine /\ x.seq = m.sol.seq   \* echo of a later fragment
                m4 == IF ~(answersLine \/ continues \/ deferred \/ echoCont)
                        THEN V(m3, "seq-mismatch", l,
                               "solicited response does not carry the sequence number of the request it answers")
                        ELSE m3
                m5 == IF answersLine /\ e.fc \in NoReplyFn /\ e.wf /\ e.cls = "ok" /\ ~deferred
                        THEN V(m4, "answered-noreply", l, "request whose function forbids a reply was answered")
                        ELSE m4
            IN [m5 EXCEPT !.sol = [seq |-> x.seq, fin |-> x.fin],
                          !.reads = IF x.fir THEN @ \ {x.seq} ELSE @]

MonStep(m, e, l) ==
    IF e.k = "reset" THEN [MonInit EXCEPT !.cfg = e.cfg, !.sc = e.id, !.viol = m.viol]
    ELSE IF ~HasOutputs(e) THEN m
    ELSE
    LET isReqLine == IsReq(e) /\ SrcOk(e, m.cfg) /\ Unicast(e, m.cfg) /\ ~e.noconn
        \* a new request supersedes unanswered READs; a READ is remembered until it is answered
        m0 == IF e.k \in {"cut", "conn", "raw"} THEN [m EXCEPT !.reads = {}, !.sol = [seq |-> -1, fin |-> TRUE]]
              ELSE IF isReqLine THEN [m EXCEPT !.reads = IF e.fc = 1 /\ e.wf THEN {e.seq} ELSE {}]
              ELSE m
        m1 == FoldLeft(LAMBDA acc, x : TxStep(acc, x, e, l), m0, e.tx)
        replies == SelectSeq(e.tx, LAMBDA x : ~x.uns /\ x.fir /\ x.seq = e.seq)
        mustReject == isReqLine /\ e.cls \in RejectCls /\ e.fc \notin NoReplyFn /\ e.fir /\ e.fin
                        /\ ~e.panic
        m2 == IF mustReject /\ replies = <<>>
                THEN V(m1, "silent-reject", l, "rejected request answered with silence")
              ELSE IF mustReject /\ ~Iin2Err(replies[1])
                THEN V(m1, "clean-reject", l, "rejected request answered without an IIN2 error bit")
              ELSE m1
        \* the confirm function is never answered (a following series fragment is not an answer)
        m3 == IF IsConfirm(e) /\ \E i \in 1..Len(e.tx) :
                    ~e.tx[i].uns /\ e.tx[i].fir /\ e.tx[i].seq = e.seq /\ e.tx[i].seq \notin m.reads
                    /\ e.tx[i].objs = <<>> /\ ~e.uns
                THEN V(m2, "answered-noreply", l, "CONFIRM was answered") ELSE m2
    IN m3

Claimed == {"C12"}
=============================================================================
