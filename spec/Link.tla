-------------------------------- MODULE Link --------------------------------
(***************************************************************************)
(* Implementation-shaped specification of the link-layer frame reader      *)
(* (link/parser.rs Parser, link/reader.rs Reader) and of the addressing    *)
(* rules of link/layer.rs (process_header), at the level of abstract bytes.*)
(*                                                                         *)
(* An abstract byte is a record [c, f, o, bad]:                            *)
(*    c    class: 1 = 0x05 (start1), 2 = 0x64 (start2), 0 = anything else  *)
(*    f    0 = line noise, k > 0 = byte belongs to frame k of the scenario *)
(*    o    offset inside that frame (1-based)                              *)
(*    bad  some bit of this byte was flipped in transit                    *)
(* A frame k has a kind: header-only (10 bytes, LEN = 5, so its third byte *)
(* is of class 1) or with a body (10 + bl bytes).  CRCs are abstracted:    *)
(* a header is valid iff its 8 bytes after the start bytes are exactly the *)
(* intact bytes 3..10 of one frame, a body is valid iff it is exactly the  *)
(* intact body of that frame (no accidental CRC collisions - the harness   *)
(* re-draws concrete bytes when its own CRC finds one).                    *)
(***************************************************************************)
EXTENDS Naturals, Integers, Sequences, FiniteSets, SequencesExt, TLC

CONSTANTS
    Discard,     \* LinkErrorMode::Discard (TRUE) or Close (FALSE)
    Datagram,    \* LinkReadMode::Datagram
    DEVL         \* deviations of the reader switched on

\* body length (with CRCs) of frame kind: "H" header only, "B" one short block
BodyLen(kind) == IF kind = "H" THEN 0 ELSE 3
FrameLen(kind) == 10 + BodyLen(kind)

\* the abstract bytes of frame k of the given kind (all intact)
FrameBytes(k, kind) ==
    [o \in 1..FrameLen(kind) |->
        [c |-> CASE o = 1 -> 1 [] o = 2 -> 2 [] o = 3 /\ kind = "H" -> 1 [] OTHER -> 0,
         f |-> k, o |-> o, bad |-> FALSE]]
Noise(c) == [c |-> c, f |-> 0, o |-> 0, bad |-> FALSE]

\* ---- validity of header / body at a position of a byte sequence
IsHeaderOf(bs, i, k) ==       \* bytes i..i+7 are the intact bytes 3..10 of frame k
    /\ i + 7 <= Len(bs)
    /\ \A d \in 0..7 : bs[i + d].f = k /\ bs[i + d].o = 3 + d /\ ~bs[i + d].bad
IsBodyOf(bs, i, k, bl) ==
    /\ i + bl - 1 <= Len(bs)
    /\ \A d \in 0..(bl - 1) : bs[i + d].f = k /\ bs[i + d].o = 11 + d /\ ~bs[i + d].bad

\* a complete intact frame k (of body length bl) starts at position i
IsFrameAt(bs, i, k, bl) ==
    /\ i + 9 + bl <= Len(bs)
    /\ bs[i].f = k /\ bs[i].o = 1 /\ ~bs[i].bad
    /\ bs[i + 1].f = k /\ bs[i + 1].o = 2 /\ ~bs[i + 1].bad
    /\ IsHeaderOf(bs, i + 2, k)
    /\ (bl = 0 \/ IsBodyOf(bs, i + 10, k, bl))

-----------------------------------------------------------------------------
(* The reference: what a resynchronising framer should deliver from a byte   *)
(* stream, independent of how it is split into reads - leftmost-first scan.  *)
(* Kinds[k] gives the kind of frame k.                                       *)

RECURSIVE IdealFrom(_, _, _)
IdealFrom(bs, i, Kinds) ==
    IF i > Len(bs) THEN <<>>
    ELSE LET k == bs[i].f
         IN IF k > 0 /\ IsFrameAt(bs, i, k, BodyLen(Kinds[k]))
              THEN <<k>> \o IdealFrom(bs, i + FrameLen(Kinds[k]), Kinds)
              ELSE IdealFrom(bs, i + 1, Kinds)
Ideal(bs, Kinds) == IdealFrom(bs, 1, Kinds)

\* Close mode: frames up to the first byte that does not continue a valid frame
RECURSIVE CloseFrom(_, _, _)
CloseFrom(bs, i, Kinds) ==
    IF i > Len(bs) THEN <<>>
    ELSE LET k == bs[i].f
         IN IF k > 0 /\ IsFrameAt(bs, i, k, BodyLen(Kinds[k]))
              THEN <<k>> \o CloseFrom(bs, i + FrameLen(Kinds[k]), Kinds)
              ELSE <<>>
IdealClose(bs, Kinds) == CloseFrom(bs, 1, Kinds)

-----------------------------------------------------------------------------
(* The reader as built.  r = [pst, k, bl, buf, closed, out]                  *)
(*   pst: "S1" | "S2" | "H" | "B"   (FindSync1 FindSync2 ReadHeader ReadBody)*)

RInit == [pst |-> "S1", k |-> 0, bl |-> 0, buf |-> <<>>, closed |-> FALSE, out |-> <<>>]

\* parse_impl from position p of buf with parser state (pst,k,bl):
\*   result [res: "none" | "frame" | "err", p, pst, k, bl]
RECURSIVE ParseImpl(_, _, _, _, _, _)
ParseImpl(buf, p, pst, k, bl, Kinds) ==
    CASE pst = "S1" ->
            IF p > Len(buf) THEN [res |-> "none", p |-> p, pst |-> pst, k |-> k, bl |-> bl]
            ELSE IF buf[p].c = 1 /\ ~buf[p].bad THEN ParseImpl(buf, p + 1, "S2", 0, 0, Kinds)
            ELSE [res |-> "err", p |-> p + 1, pst |-> pst, k |-> k, bl |-> bl]
      [] pst = "S2" ->
            IF p > Len(buf) THEN [res |-> "none", p |-> p, pst |-> pst, k |-> k, bl |-> bl]
            ELSE IF buf[p].c = 2 /\ ~buf[p].bad THEN ParseImpl(buf, p + 1, "H", 0, 0, Kinds)
            ELSE [res |-> "err", p |-> p + 1, pst |-> pst, k |-> k, bl |-> bl]
      [] pst = "H" ->
            IF p + 7 > Len(buf) THEN [res |-> "none", p |-> p, pst |-> pst, k |-> k, bl |-> bl]
            ELSE LET kk == buf[p].f
                 IN IF kk > 0 /\ IsHeaderOf(buf, p, kk)
                      THEN ParseImpl(buf, p + 8, "B", kk, BodyLen(Kinds[kk]), Kinds)
                      ELSE [res |-> "err", p |-> p + 8, pst |-> pst, k |-> k, bl |-> bl]
      [] OTHER ->  \* "B"
            IF p + bl - 1 > Len(buf) THEN [res |-> "none", p |-> p, pst |-> pst, k |-> k, bl |-> bl]
            ELSE IF bl = 0 \/ IsBodyOf(buf, p, k, bl)
              THEN [res |-> "frame", p |-> p + bl, pst |-> "S1", k |-> k, bl |-> 0]
              ELSE [res |-> "err", p |-> p + bl, pst |-> pst, k |-> k, bl |-> bl]

\* Parser::parse: Close mode returns the first error; Discard mode rolls back to where this scan
\* attempt started *in this call*, skips one byte, resets the state and tries again
RECURSIVE Parse(_, _, _, _, _, _)
Parse(buf, p, pst, k, bl, Kinds) ==
    LET r == ParseImpl(buf, p, pst, k, bl, Kinds)
    IN IF r.res # "err" THEN r
       ELSE IF ~Discard THEN r
       ELSE IF p > Len(buf) THEN [res |-> "none", p |-> p, pst |-> "S1", k |-> 0, bl |-> 0]
       ELSE Parse(buf, p + 1, "S1", 0, 0, Kinds)

\* Reader::read_frame driven to quiescence after `bytes` arrived in one read
RECURSIVE Drain(_, _)
Drain(r, Kinds) ==
    IF r.closed \/ r.buf = <<>> THEN r
    ELSE LET x == Parse(r.buf, 1, r.pst, r.k, r.bl, Kinds)
             rest == SubSeq(r.buf, x.p, Len(r.buf))
         IN CASE x.res = "frame" ->
                    Drain([r EXCEPT !.buf = rest, !.pst = "S1", !.k = 0, !.bl = 0, !.out = Append(@, x.k)], Kinds)
              [] x.res = "err" -> [r EXCEPT !.closed = TRUE, !.buf = <<>>]
              [] OTHER ->
                    \* no complete frame: wait for more bytes (a datagram that held no complete frame
                    \* is thrown away together with the parser state)
                    IF Datagram THEN [r EXCEPT !.buf = <<>>, !.pst = "S1", !.k = 0, !.bl = 0]
                    ELSE [r EXCEPT !.buf = rest, !.pst = x.pst, !.k = x.k, !.bl = x.bl]

Feed(r, bytes, Kinds) == IF r.closed THEN r ELSE Drain([r EXCEPT !.buf = @ \o bytes], Kinds)

-----------------------------------------------------------------------------
(* The reader as intended (DEVL does not contain "DiscardRollbackPerCall"):   *)
(* nothing is consumed before a frame is validated, so the result is Ideal.  *)

IntendedFeed(r, bytes, Kinds) ==
    \* r.buf holds every byte not yet decided; deliver what the leftmost-first scan can decide now
    LET all == r.buf \o bytes
        RECURSIVE Scan(_, _)
        Scan(i, out) ==
            IF i > Len(all) THEN [i |-> i, out |-> out]
            ELSE LET k == all[i].f
                 IN IF k > 0 /\ IsFrameAt(all, i, k, BodyLen(Kinds[k]))
                      THEN Scan(i + FrameLen(Kinds[k]), Append(out, k))
                    \* could the bytes from i still become a frame?  (intact prefix of a frame)
                    ELSE IF k > 0 /\ all[i].o = 1 /\ \A j \in i..Len(all) : all[j].f = k /\ all[j].o = j - i + 1 /\ ~all[j].bad
                      THEN [i |-> i, out |-> out]
                    ELSE Scan(i + 1, out)
        s == Scan(1, r.out)
    IN [r EXCEPT !.buf = SubSeq(all, s.i, Len(all)), !.out = s.out]

Step(r, bytes, Kinds) ==
    IF "DiscardRollbackPerCall" \in DEVL \/ ~Discard \/ Datagram THEN Feed(r, bytes, Kinds)
    ELSE IntendedFeed(r, bytes, Kinds)

=============================================================================
