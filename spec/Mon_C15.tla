------------------------------ MODULE Mon_C15 ------------------------------
(***************************************************************************)
(* C15 - A master accepts only the answer to its question and confirms     *)
(* what it accepts.  For every fragment injected towards the master the    *)
(* monitor decides from the wire alone whether it answers the outstanding  *)
(* request (addressed outstation, matching sequence, solicited, FIR/FIN/   *)
(* CON shape of a read series or FIR+FIN for other requests, parsable, no  *)
(* IIN2 rejection) and compares with what the master did on that line:     *)
(*   accepted-wrong      handler delivery / task success / completion OK   *)
(*                       caused by a fragment that is not the answer, or a *)
(*                       confirm of a fragment whose header already shows  *)
(*                       that it is not                                    *)
(*   no-confirm / double-confirm                                           *)
(*                       an accepted fragment with CON is confirmed        *)
(*                       exactly once (same sequence number and UNS bit)   *)
(*   not-delivered / delivered-twice / order                               *)
(*                       contents of an accepted data fragment reach the   *)
(*                       handler exactly once, in wire order               *)
(*   dup-unsol-delivered a repeated unsolicited fragment is confirmed but  *)
(*                       not delivered again                               *)
(*   acted-unknown       a fragment from an unknown outstation is ignored  *)
(***************************************************************************)
EXTENDS MMonBase

MonInit == [cfg |-> [assocs |-> <<>>], sc |-> "", viol |-> <<>>, out |-> NoOut,
            lastU |-> <<>>]       \* <<[a, seq, hash, iin, con]>> last accepted unsolicited fragment per outstation
V(m, reason, l, ctx) == [m EXCEPT !.viol = IF Len(@) >= 300 THEN @ ELSE Append(@, Viol("C15", reason, l, m.sc, ctx))]

ItemKey(c) == <<c.i[2], c.i[3], c.i[4]>>          \* group, variation, index as delivered
WireKey(o) == <<o.g, o.v, o.ix>>

MonStep(m, e, l) ==
    IF e.k = "reset" THEN [MonInit EXCEPT !.cfg = e.cfg, !.sc = e.id, !.viol = m.viol]
    ELSE IF ~HasOutputs(e) THEN m
    ELSE IF e.k \in {"cut", "conn"} THEN [m EXCEPT !.out = TrackOut(m.out, e), !.lastU = <<>>]
    ELSE IF e.k # "rx" \/ e.rx.noconn \/ e.rx.fc = -1 THEN [m EXCEPT !.out = TrackOut(m.out, e)]
    ELSE
    LET x == e.rx
        known == IsAssoc(m.cfg, x.src)
        \* the answer as far as the fragment header tells / with objects that parse.  The replies to WRITE, ENABLE and
        \* DISABLE_UNSOLICITED carry no objects: their contents are not examined
        hdrAns == x.body # "hdrbad" /\ Answers(m.out, [x EXCEPT !.body = "empty"])
        ans == Answers(m.out, x)
        accOk == ans \/ (hdrAns /\ m.out.fc \in {2, 20, 21})
        solConf == Confirms(e, FALSE, x.seq, x.src)
        unsConf == Confirms(e, TRUE, x.seq, x.src)
        accSignals == TaskBegins(e) # <<>> \/ Succ(e) # <<>> \/ (\E i \in 1..Len(e.done) : e.done[i].res = "ok")
    IN
    IF x.fc = 130 /\ x.uns /\ x.body # "hdrbad" THEN
        \* unsolicited
        LET delivered == UnsolBegins(e) # <<>>
            noted == CbsOf(e, "ai", "unsol") # <<>>
            prev == SelectSeq(m.lastU, LAMBDA u : u.a = x.src)
            dup == prev # <<>> /\ prev[1].seq = x.seq /\ prev[1].hash = x.hash /\ prev[1].iin = x.iin /\ prev[1].con = x.con
            m1 == IF ~known /\ (delivered \/ noted \/ unsConf # <<>>)
                    THEN V(m, "acted-unknown", l, "unsolicited fragment from an unknown outstation was acted on") ELSE m
            m2 == IF known /\ dup /\ delivered
                    THEN V(m1, "dup-unsol-delivered", l, "repeated unsolicited fragment delivered again") ELSE m1
            m3 == IF known /\ noted /\ x.con /\ Len(unsConf) # 1
                    THEN V(m2, IF unsConf = <<>> THEN "no-confirm" ELSE "double-confirm", l,
                           "accepted unsolicited fragment with CON must be confirmed exactly once") ELSE m2
            m4 == IF known /\ ~noted /\ unsConf # <<>>
                    THEN V(m3, "accepted-wrong", l, "unsolicited fragment confirmed although it was not accepted") ELSE m3
            m5 == IF known /\ delivered /\ ~dup /\ x.body = "data" /\
                       [i \in 1..Len(Items(e)) |-> ItemKey(Items(e)[i])] # [i \in 1..Len(x.items) |-> WireKey(x.items[i])]
                    THEN V(m4, "order", l, "unsolicited contents not delivered exactly once in wire order") ELSE m4
        IN [m5 EXCEPT !.out = TrackOut(m.out, e),
                      !.lastU = IF known /\ noted
                                  THEN Append(SelectSeq(@, LAMBDA u : u.a # x.src),
                                              [a |-> x.src, seq |-> x.seq, hash |-> x.hash, iin |-> x.iin, con |-> x.con])
                                  ELSE @]
    ELSE
        \* solicited (or something that is neither): only the answer may have an effect
        LET m1 == IF (~accOk /\ accSignals) \/ (~hdrAns /\ solConf # <<>>)
                    THEN V(m, "accepted-wrong", l,
                           "a fragment that is not the answer to the outstanding request completed it, reached the handler or was confirmed")
                    ELSE m
            m2 == IF ans /\ x.con /\ Len(solConf) # 1
                    THEN V(m1, IF solConf = <<>> THEN "no-confirm" ELSE "double-confirm", l,
                           "accepted fragment with CON must be confirmed exactly once") ELSE m1
            m3 == IF ans /\ m.out.read /\ x.body = "data" /\ Len(TaskBegins(e)) # 1
                    THEN V(m2, IF TaskBegins(e) = <<>> THEN "not-delivered" ELSE "delivered-twice", l,
                           "accepted read fragment must reach the handler exactly once") ELSE m2
            m4 == IF ans /\ m.out.read /\ x.body = "data" /\ Len(TaskBegins(e)) = 1 /\
                       [i \in 1..Len(Items(e)) |-> ItemKey(Items(e)[i])] # [i \in 1..Len(x.items) |-> WireKey(x.items[i])]
                    THEN V(m3, "order", l, "contents not delivered exactly once in wire order") ELSE m3
        IN [m4 EXCEPT !.out = TrackOut(m.out, e)]

Claimed == {"C15"}
=============================================================================
