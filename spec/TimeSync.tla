------------------------------ MODULE TimeSync ------------------------------
(***************************************************************************)
(* Time synchronisation between the master (master/tasks/time.rs) and the  *)
(* outstation (outstation/session.rs handle_delay_measure,                 *)
(* handle_record_current_time, handle_write_abs_time,                      *)
(* handle_write_at_last_recorded_time) over a channel with one-way delays. *)
(*                                                                         *)
(* One record `s`, one action per protocol step of either side; the clock  *)
(* `now` is virtual time in ms, the master's wall clock is base + now.     *)
(* 48-bit timestamps do not fit TLC's integers: all times are offsets from *)
(* the master's clock at time 0 and `room` is the distance of that clock   *)
(* from the largest timestamp (2^48 - 1), so overflow is `offset > room`.  *)
(*                                                                         *)
(* Parameters of a run (record c):                                         *)
(*   proc   "lan" | "nonlan"                                               *)
(*   fwd, back   one-way delays master -> outstation, outstation -> master *)
(*   pAct   time the outstation really takes to answer DELAY_MEASURE       *)
(*   pRep   processing delay it reports (honest: pRep = pAct)              *)
(*   room   see above                                                      *)
(*   keep   the outstation still indicates NEED_TIME after the write       *)
(*   junk   0 none | 1, 2: the k-th reply carries unexpected objects |     *)
(*          3: the delay header of the first reply carries two objects     *)
(***************************************************************************)
EXTENDS Naturals, Integers, Sequences, TLC

U16Max == 65535

Init(c) == [c |-> c, pc |-> "start", now |-> 0,
            t0 |-> 0,          \* master: instant the first request was sent
            ts |-> 0,          \* master: timestamp offset written (g50v1) / recorded (g50v3)
            rec |-> 0,         \* outstation: instant RECORD_CURRENT_TIME arrived
            wrote |-> FALSE, tm |-> 0, tmAt |-> 0,   \* what write_absolute_time received, and when
            iin2 |-> FALSE,    \* the write was refused with a parameter error
            res |-> ""]        \* outcome reported to the user: "" | "ok" | error name

Finished(s) == s.res # ""
Fail(s, err) == [s EXCEPT !.res = err, !.pc = "done"]

\* one protocol step
Step(s) ==
    LET c == s.c IN
    CASE s.pc = "start" ->
            \* master: MeasureDelay(start) / RecordCurrentTime(now); the request leaves at once
            [s EXCEPT !.t0 = s.now, !.ts = s.now, !.pc = IF c.proc = "lan" THEN "o_record" ELSE "o_measure", !.now = s.now + c.fwd]
      [] s.pc = "o_measure" ->
            \* outstation: DELAY_MEASURE answered with g52v2 = reported delay after the real processing time
            [s EXCEPT !.pc = "m_delay", !.now = s.now + c.pAct + c.back]
      [] s.pc = "m_delay" ->
            IF c.junk \in {1, 3} THEN Fail(s, "UnexpectedResponseHeaders")
            ELSE LET interval == s.now - s.t0 IN
                 IF c.pRep > interval THEN Fail(s, "BadOutstationTimeDelay")
                 ELSE LET prop == (interval - c.pRep) \div 2
                          ts == s.now + prop
                      IN IF ts > c.room THEN Fail(s, "Overflow")
                         ELSE [s EXCEPT !.ts = ts, !.pc = "o_write_abs", !.now = s.now + c.fwd]
      [] s.pc = "o_write_abs" ->
            [s EXCEPT !.wrote = TRUE, !.tm = s.ts, !.tmAt = s.now, !.pc = "m_final", !.now = s.now + c.back]
      [] s.pc = "o_record" ->
            [s EXCEPT !.rec = s.now, !.pc = "m_recorded", !.now = s.now + c.back]
      [] s.pc = "m_recorded" ->
            IF c.junk = 1 THEN Fail(s, "UnexpectedResponseHeaders")
            ELSE [s EXCEPT !.pc = "o_write_last", !.now = s.now + c.fwd]
      [] s.pc = "o_write_last" ->
            LET tm == s.ts + (s.now - s.rec) IN
            IF tm > c.room THEN [s EXCEPT !.iin2 = TRUE, !.pc = "m_final", !.now = s.now + c.back]
            ELSE [s EXCEPT !.wrote = TRUE, !.tm = tm, !.tmAt = s.now, !.pc = "m_final", !.now = s.now + c.back]
      [] s.pc = "m_final" ->
            IF s.iin2 THEN Fail(s, "RejectedByIin2")
            ELSE IF c.junk = 2 THEN Fail(s, "UnexpectedResponseHeaders")
            ELSE IF c.keep THEN Fail(s, "StillNeedsTime")
            ELSE [s EXCEPT !.res = "ok", !.pc = "done"]
      [] OTHER -> s

-----------------------------------------------------------------------------
(* The outstation's side of the LAN procedure over a history of requests (not only one clean run): operations        *)
(*   "R"   RECORD_CURRENT_TIME (a new request)          "Rr"  byte-identical repetition of the previous request     *)
(*   "W"   WRITE g50v3 with the time v (a new request)  "A1", "A2"  time passes (20 ms, 60 s)                        *)
(* A repetition is answered from memory and not executed (C05), so the instant recorded is that of the most recent    *)
(* RECORD_CURRENT_TIME that was executed; the time handed to the application by a following WRITE is v plus what      *)
(* elapsed since that instant.  LanRun folds a history of [op, t] (t = the outstation's clock when the request        *)
(* arrives) into the sequence of times the application must be handed (-1: the property does not say).               *)
LanOps == {"R", "Rr", "W", "A1", "A2"}
LanV == 5000
RECURSIVE LanExpect(_, _, _)
LanExpect(ops, rec, i) ==
    IF i > Len(ops) THEN <<>>
    ELSE LET o == ops[i] IN
         CASE o.op = "R" -> <<-1>> \o LanExpect(ops, o.t, i + 1)
           [] o.op = "W" -> <<IF rec >= 0 THEN LanV + (o.t - rec) ELSE -1>> \o LanExpect(ops, -1, i + 1)
           [] OTHER -> <<-1>> \o LanExpect(ops, rec, i + 1)

RECURSIVE RunAll(_)
RunAll(s) == IF s.pc = "done" THEN s ELSE RunAll(Step(s))

-----------------------------------------------------------------------------
(* the property (C18) on a finished run *)
Abs(x) == IF x < 0 THEN -x ELSE x
Honest(c) == c.pRep = c.pAct
\* error of the time handed to the outstation application against the master's clock at that instant
Err(s) == Abs(s.tm - s.tmAt)
Bound(c) == IF c.proc = "lan" THEN c.fwd ELSE Abs(c.fwd - c.back)
Accurate(s) == (s.res = "ok" /\ Honest(s.c)) => (s.wrote /\ Err(s) <= Bound(s.c))
\* the cases the statement says must be reported as failed
MustFail(c, s) == c.keep \/ c.junk # 0 \/ s.iin2
FailsWhenItMust(s) == MustFail(s.c, s) => s.res # "ok"
\* a reported processing delay exceeding the round trip
DelayTooLarge(c) == c.proc = "nonlan" /\ c.junk \notin {1, 3} /\ c.pRep > c.fwd + c.pAct + c.back
FailsOnBadDelay(s) == DelayTooLarge(s.c) => s.res = "BadOutstationTimeDelay"
\* and nothing else fails
SucceedsOtherwise(s) ==
    (~MustFail(s.c, s) /\ ~DelayTooLarge(s.c) /\ ~(s.c.proc = "nonlan" /\ s.res = "Overflow")) => s.res = "ok"
=============================================================================
