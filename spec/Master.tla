------------------------------- MODULE Master -------------------------------
(***************************************************************************)
(* Implementation-shaped specification of the dnp3 master session          *)
(* (master/task.rs MasterSession, master/association.rs, master/tasks/*,   *)
(* master/poll.rs, app/retry.rs).                                          *)
(*                                                                         *)
(* One record `s`; a stimulus (a user message, a fragment from an          *)
(* outstation, the passing of time, connect / disconnect, enable /        *)
(* disable) is applied with Apply(s, in): inject, then compose micro-steps *)
(* (Run) until the task blocks in one of its select! points, then let the  *)
(* settle time pass.  Outputs (requests and confirms written, callbacks,   *)
(* completions of user requests) are collected into the event record of    *)
(* the line, in the alphabet of the M-trace (lib/norm.py norm_mline).      *)
(***************************************************************************)
EXTENDS Naturals, Integers, Sequences, FiniteSets, SequencesExt, TLC

CONSTANTS
    Assocs,      \* <<[addr, rt, dis, integ, en, tsync, rmin, rmax, ka, ovfInteg, evscan, maxq, clock]>> association configs
                 \* (clock: the application can tell the time)
    DEVM         \* deviations of the master switched on

NA == Len(Assocs)
S16(n) == n % 16
NoTime == -1
Min2(a, b) == IF a < b THEN a ELSE b

AutoNames == <<"clr", "dis", "integ", "time", "en", "evscan">>   \* priority order of TaskStates::next

MkCb(t, k, n, i, str) == [t |-> t, k |-> k, n |-> n, i |-> i, s |-> str, x |-> ""]
MkFail(t, a, name, err) == [t |-> t, k |-> "ai", n |-> "task_fail", i |-> <<a>>, s |-> name, x |-> err]

-----------------------------------------------------------------------------
(* state *)

AutoIdle == [st |-> "Idle", last |-> 0, next |-> NoTime]
AutoPending == [st |-> "Pending", last |-> 0, next |-> NoTime]

AssocInit(a) ==
    [exists |-> TRUE, seq |-> 0,
     auto |-> [clr |-> AutoIdle, dis |-> AutoPending, integ |-> AutoPending, time |-> AutoIdle,
               en |-> AutoPending, evscan |-> AutoIdle],
     integDone |-> FALSE, evAvail |-> FALSE,
     queue |-> <<>>, polls |-> <<>>,
     ks |-> IF Assocs[a].ka >= 0 THEN Assocs[a].ka ELSE NoTime,
     lastUnsol |-> [has |-> FALSE, seq |-> 0, hash |-> 0, iin |-> {}, con |-> FALSE]]

NoCur == [a |-> 0, task |-> [t |-> "none"], seq |-> 0, first |-> TRUE, deadline |-> NoTime, fc0 |-> 0, t0 |-> 0]

Init0 ==
    [pc |-> "Down",          \* Down | Sched | Await | Idle | Dead
     now |-> 0, enabled |-> TRUE,
     pipe |-> FALSE,         \* a connection is waiting to be picked up (the endpoint is disabled)
     A |-> [a \in 1..NA |-> AssocInit(a)],
     prio |-> [a \in 1..NA |-> a],
     cur |-> NoCur,
     idleUntil |-> NoTime,   \* idle_until deadline, NoTime = idle_forever
     inbox |-> <<>>, msgs |-> <<>>,
     otx |-> <<>>, ocb |-> <<>>, odone |-> <<>>,
     nreq |-> 0, devs |-> {},
     \* ghosts (no influence on behaviour): sessions started so far (capped), whether an earlier session completed integrity
     nsess |-> 0, everInteg |-> FALSE]

Addr(a) == Assocs[a].addr

-----------------------------------------------------------------------------
(* outputs *)

\* a request / confirm written by the master
Tx(s, a, fc, seq, uns, task) ==
    [s EXCEPT !.otx = Append(@, [t |-> s.now, fc |-> fc, seq |-> seq, fir |-> TRUE, fin |-> TRUE, con |-> FALSE,
                                 uns |-> uns, dst |-> Addr(a), what |-> task])]
Cb(s, c) == [s EXCEPT !.ocb = Append(@, c)]
Done(s, id, res) == IF id = 0 THEN s ELSE [s EXCEPT !.odone = Append(@, [t |-> s.now, id |-> id, res |-> res])]

\* task descriptors
\*   [t |-> "auto", n]  n: clr | dis | en                 [t |-> "integ"] [t |-> "evscan"]
\*   [t |-> "poll", pid] [t |-> "uread", id]
\*   [t |-> "cmd", id, mode, step, ob]   step: select | operate | do
\*   [t |-> "time", id, proc, step]      step: record | writelast | measure | writeabs
\*   [t |-> "restart", id] [t |-> "link", id] [t |-> "empty", id]
IsRead(task) == task.t \in {"integ", "evscan", "poll", "uread"}
TaskName(task) ==
    CASE task.t = "auto" /\ task.n = "clr" -> "ClearRestartBit"
      [] task.t = "auto" /\ task.n = "dis" -> "DisableUnsolicited"
      [] task.t = "auto" /\ task.n = "en"  -> "EnableUnsolicited"
      [] task.t = "integ" -> "StartupIntegrity" [] task.t = "evscan" -> "AutoEventScan"
      [] task.t = "poll" -> "PeriodicPoll" [] task.t = "uread" -> "UserRead"
      [] task.t = "cmd" -> "Command" [] task.t = "time" -> "TimeSync" [] task.t = "restart" -> "Restart"
      [] task.t = "empty" -> "GenericEmptyResponse" [] OTHER -> "?"
FcOf(task) ==
    CASE task.t = "auto" /\ task.n = "clr" -> 2 [] task.t = "auto" /\ task.n = "dis" -> 21
      [] task.t = "auto" /\ task.n = "en" -> 20
      [] IsRead(task) -> 1
      [] task.t = "cmd" -> (CASE task.step = "select" -> 3 [] task.step = "operate" -> 4 [] OTHER -> 5)
      [] task.t = "time" -> (CASE task.step = "record" -> 24 [] task.step = "measure" -> 23 [] OTHER -> 2)
      [] task.t = "restart" -> 13 [] task.t = "empty" -> 20 [] OTHER -> 0
UserId(task) == IF "id" \in DOMAIN task THEN task.id ELSE 0
\* completion of a queued / running user task with a task error: the promise of a time synchronisation request
\* carries a TimeSyncError wrapping the task error
DoneErr(s, task, err) == Done(s, UserId(task), IF task.t = "time" THEN "Task:" \o err ELSE err)

-----------------------------------------------------------------------------
(* exponential back-off of the automatic tasks *)

AutoFailure(s, a, name) ==
    LET x == s.A[a].auto[name]
        d == IF x.st = "Failed" /\ "H_NoBackoff" \notin DEVM THEN Min2(2 * x.last, Assocs[a].rmax) ELSE Assocs[a].rmin
    IN [s EXCEPT !.A[a].auto[name] = [st |-> "Failed", last |-> d, next |-> s.now + d]]
AutoDone(s, a, name) == [s EXCEPT !.A[a].auto[name] = AutoIdle]
AutoDemand(s, a, name) == IF s.A[a].auto[name].st = "Idle" THEN [s EXCEPT !.A[a].auto[name] = AutoPending] ELSE s

\* Association::process_iin
ProcessIin(s, a, iin) ==
    LET s1 == IF "rst" \in iin /\ s.A[a].auto.clr.st = "Idle"
                THEN [AutoDemand(AutoDemand(AutoDemand(s, a, "clr"), a, "integ"), a, "en") EXCEPT !.A[a].integDone = FALSE]
                ELSE s
        s2 == IF "time" \in iin THEN AutoDemand(s1, a, "time") ELSE s1
        s3 == IF "ovf" \in iin /\ Assocs[a].ovfInteg THEN AutoDemand(s2, a, "integ") ELSE s2
        ev == Assocs[a].evscan /\ ({"c1", "c2", "c3"} \cap iin # {})
        s4 == [s3 EXCEPT !.A[a].evAvail = ev]
    IN IF ev THEN AutoDemand(s4, a, "evscan") ELSE s4

-----------------------------------------------------------------------------
(* completion of tasks *)

\* Poll::reset_next: next = completion + period
PollDone(s, a, pid) ==
    LET ps == s.A[a].polls
    IN [s EXCEPT !.A[a].polls = [i \in 1..Len(ps) |-> IF ps[i].id = pid THEN [ps[i] EXCEPT !.next = (IF "H_PollPeriodFromStart" \in DEVM THEN @ ELSE s.now) + ps[i].period] ELSE ps[i]]]

\* task.on_task_error (what happens to the task's owner) + notify_task_fail
TaskError(s, a, task, err) ==
    LET s1 == CASE task.t = "auto" ->
                      IF err = "RejectedByIin2" THEN AutoDone(s, a, task.n)     \* treated as a response
                      ELSE AutoFailure(s, a, task.n)
                [] task.t = "integ" -> AutoFailure(s, a, "integ")
                [] task.t = "evscan" -> AutoFailure(s, a, "evscan")
                [] task.t = "poll" ->
                      PollDone(s, a, task.pid)
                [] task.t = "time" /\ task.id = 0 -> AutoFailure(s, a, "time")
                [] OTHER -> s
       \* the promise of a time synchronisation request carries a TimeSyncError wrapping the task error
    IN DoneErr(s1, task, err)

\* run_task epilogue: notify_task_fail and conversion of run-ending errors
Fail(s, a, task, err) ==
    LET s1 == TaskError(s, a, task, err)
    IN IF s.A[a].exists THEN Cb(s1, MkFail(s.now, Addr(a), TaskName(task), err)) ELSE s1

ReadComplete(s, a, task) ==
    CASE task.t = "integ" -> [AutoDone(s, a, "integ") EXCEPT !.A[a].integDone = TRUE, !.everInteg = TRUE]
      [] task.t = "evscan" -> AutoDone(s, a, "evscan")
      [] task.t = "poll" ->
            PollDone(s, a, task.pid)
      [] OTHER -> Done(s, UserId(task), "ok")

\* notify_task_success reports the function code the task started with and the last sequence number
Success(s, a, task, seq) ==
    Cb(s, MkCb(s.now, "ai", "task_success", <<Addr(a), s.cur.fc0, seq>>, TaskName(task)))

-----------------------------------------------------------------------------
(* scheduling: AssociationMap::next_task *)

\* next automatic task of an association: [k |-> "now", task] | [k |-> "at", t] | [k |-> "none"]
AutoNext(s, a) ==
    LET cfg == Assocs[a]
        A == s.A[a]
        relevant(n) == CASE n = "clr" -> TRUE [] n = "dis" -> cfg.dis [] n = "integ" -> cfg.integ
                         [] n = "time" -> cfg.tsync # "" [] n = "en" -> cfg.en
                         [] OTHER -> A.evAvail
        pend == SelectSeq(AutoNames, LAMBDA n : relevant(n) /\ A.auto[n].st # "Idle")
        mk(n) == CASE n \in {"clr", "dis", "en"} -> [t |-> "auto", n |-> n]
                   [] n = "integ" -> [t |-> "integ"] [] n = "evscan" -> [t |-> "evscan"]
                   [] OTHER -> [t |-> "time", id |-> 0, proc |-> cfg.tsync,
                                step |-> IF cfg.tsync = "lan" THEN "record" ELSE "measure"]
    IN IF pend = <<>> THEN [k |-> "none"]
       ELSE LET n == pend[1] x == A.auto[n]
            IN IF x.st = "Pending" \/ s.now >= x.next THEN [k |-> "now", task |-> mk(n)]
               ELSE [k |-> "at", t |-> x.next]

PollNext(s, a) ==
    LET ps == s.A[a].polls
        ready == SelectSeq(ps, LAMBDA p : p.next <= s.now)
    IN IF ready # <<>> THEN [k |-> "now", task |-> [t |-> "poll", pid |-> ready[1].id]]
       ELSE IF ps = <<>> THEN [k |-> "none"]
       ELSE [k |-> "at", t |-> CHOOSE t \in {ps[i].next : i \in 1..Len(ps)} : \A i \in 1..Len(ps) : t <= ps[i].next]

LinkNext(s, a) ==
    IF s.A[a].ks = NoTime THEN [k |-> "none"]
    ELSE IF s.now >= s.A[a].ks THEN [k |-> "now", task |-> [t |-> "link", id |-> 0]]
    ELSE [k |-> "at", t |-> s.A[a].ks]

\* Association::get_next_task
AssocNext(s, a) ==
    LET au == AutoNext(s, a)
    IN IF au.k = "now" \/ (au.k = "at" /\ "H_PollsDuringStartup" \notin DEVM) THEN au
       ELSE LET p == PollNext(s, a) ln == LinkNext(s, a)
            IN CASE p.k = "now" -> p
                 [] p.k = "at" -> (CASE ln.k = "none" -> p [] ln.k = "now" -> ln
                                     [] OTHER -> [k |-> "at", t |-> Min2(p.t, ln.t)])
                 [] OTHER -> ln

MoveLast(prio, a) == SelectSeq(prio, LAMBDA x : x # a) \o <<a>>

\* send_request: increment the association's sequence number and write the request
StartTask(s, a, task) ==
    LET seq == s.A[a].seq
        s0 == [s EXCEPT !.prio = IF "H_NoRotate" \in DEVM THEN @ ELSE MoveLast(@, a)]
        s1 == [s0 EXCEPT !.A[a].seq = S16(@ + 1)]
        s2 == Cb(s1, MkCb(s.now, "ai", "task_start", <<Addr(a), FcOf(task), seq>>, TaskName(task)))
    IN IF task.t = "time" /\ ~Assocs[a].clock
         \* TimeSyncTask::start: no system time (AssociationHandler::get_current_time returns None): the task is
         \* cancelled before anything is sent and the scheduler goes on with the next one
         THEN (IF task.id = 0 THEN AutoFailure(s, a, "time") ELSE Done(s, task.id, "SystemTimeNotAvailable"))
       ELSE IF task.t = "link"
         THEN [s0 EXCEPT !.pc = "Await", !.cur = [a |-> a, task |-> task, seq |-> 0, first |-> TRUE,
                                                  deadline |-> s.now + Assocs[a].rt, fc0 |-> 0, t0 |-> s.now],
                         !.otx = Append(@, [t |-> s.now, fc |-> -1, seq |-> 0, fir |-> TRUE, fin |-> TRUE,
                                            con |-> FALSE, uns |-> FALSE, dst |-> Addr(a), what |-> task])]
         ELSE [Tx(s2, a, FcOf(task), seq, FALSE, task) EXCEPT
                    !.pc = "Await",
                    !.cur = [a |-> a, task |-> task, seq |-> seq, first |-> TRUE, deadline |-> s.now + Assocs[a].rt,
                             fc0 |-> FcOf(task), t0 |-> s.now]]

\* MasterSession::run: pick the next task or decide how long to idle
Schedule(s) ==
    LET live == SelectSeq(s.prio, LAMBDA a : s.A[a].exists)
        \* user requests first, in priority (round-robin) order
        withQ == SelectSeq(live, LAMBDA a : s.A[a].queue # <<>>)
            pollFirst == "H_PollFirst" \in DEVM /\ \E i \in 1..Len(live) : PollNext(s, live[i]).k = "now"
    IN IF withQ # <<>> /\ ~pollFirst THEN
            LET a == withQ[1]
                lifo == "H_LifoQueue" \in DEVM
                task == IF lifo THEN Last(s.A[a].queue) ELSE Head(s.A[a].queue)
            IN StartTask([s EXCEPT !.A[a].queue = IF lifo THEN Front(@) ELSE Tail(@)], a, task)
       ELSE
            LET nx == [i \in 1..Len(live) |-> AssocNext(s, live[i])]
                nowIx == SelectSeq([i \in 1..Len(live) |-> i], LAMBDA i : nx[i].k = "now")
                ats == {nx[i].t : i \in {j \in 1..Len(live) : nx[j].k = "at"}}
            IN IF nowIx # <<>> THEN StartTask(s, live[nowIx[1]], nx[nowIx[1]].task)
               ELSE IF ats # {} THEN [s EXCEPT !.pc = "Idle", !.idleUntil = CHOOSE t \in ats : \A u \in ats : t <= u]
               ELSE [s EXCEPT !.pc = "Idle", !.idleUntil = NoTime]

-----------------------------------------------------------------------------
(* fragments from outstations.  f = [fc, seq, fir, fin, con, uns, src (assoc index, 0 unknown), iin (set),
   body: empty | data | echo | badecho | g52 | bad, hash] *)

AssocOf(f) == f.src
Confirm(s, a, seq, uns) == Tx(s, a, 0, seq, uns, [t |-> "confirm"])

\* handle_unsolicited + Association::handle_unsolicited_response
HandleUnsol(s, f) ==
    LET a == AssocOf(f)
    IN IF a = 0 \/ ~s.A[a].exists THEN s
       ELSE
       LET s1 == ProcessIin(s, a, f.iin)
           ok == ~Assocs[a].integ \/ s1.A[a].integDone \/ f.body = "empty" \/ "H_UnsolUngated" \in DEVM
           dup == s1.A[a].lastUnsol.has /\ s1.A[a].lastUnsol.seq = f.seq /\ s1.A[a].lastUnsol.hash = f.hash
                  /\ s1.A[a].lastUnsol.iin = f.iin /\ s1.A[a].lastUnsol.con = f.con
           s2 == IF ~ok THEN s1
                 ELSE LET s3 == [s1 EXCEPT !.A[a].lastUnsol = [has |-> TRUE, seq |-> f.seq, hash |-> f.hash,
                                                               iin |-> f.iin, con |-> f.con]]
                      IN IF dup THEN Cb(s3, MkCb(s.now, "ai", "unsol", <<Addr(a), 1, f.seq>>, ""))
                         ELSE LET s4 == IF f.body # "bad"
                                          THEN Cb(Cb(s3, MkCb(s.now, "rh", "begin", <<Addr(a), f.seq>>, "unsol")),
                                                  MkCb(s.now, "rh", "end", <<Addr(a), f.seq>>, "unsol"))
                                          ELSE s3
                              IN Cb(s4, MkCb(s.now, "ai", "unsol", <<Addr(a), 0, f.seq>>, ""))
       IN IF ok /\ f.con THEN Confirm(s2, a, f.seq, TRUE) ELSE s2

LinkActivity(s, a) == IF a = 0 \/ ~s.A[a].exists \/ Assocs[a].ka < 0 \/ "H_KeepAliveIgnoresActivity" \in DEVM THEN s ELSE [s EXCEPT !.A[a].ks = s.now + Assocs[a].ka]

\* non-READ task: handle a response that passed validation
HandleNonRead(s, a, task, f) ==
    CASE task.t = "auto" ->
            LET s1 == IF task.n = "clr"
                        THEN (IF "rst" \in f.iin THEN AutoFailure(s, a, "clr") ELSE AutoDone(s, a, "clr"))
                        ELSE AutoDone(s, a, task.n)
            IN [st |-> s1, next |-> [t |-> "none"], err |-> ""]
      [] task.t = "cmd" ->
            IF f.body = "bad" THEN [st |-> Done(s, task.id, "MalformedResponse"), next |-> [t |-> "none"], err |-> "MalformedResponse"]
            ELSE IF f.body # "echo" /\ ~("H_OperateAnyReply" \in DEVM /\ task.step = "select") /\ ~("H_SuccessAnyReply" \in DEVM /\ task.step # "select")
                 THEN [st |-> Done(s, task.id, "Response"), next |-> [t |-> "none"], err |-> "UnexpectedResponseHeaders"]
            ELSE IF task.step = "select" THEN [st |-> s, next |-> [task EXCEPT !.step = "operate"], err |-> ""]
            ELSE [st |-> Done(s, task.id, "ok"), next |-> [t |-> "none"], err |-> ""]
      [] task.t = "restart" ->
            IF f.body = "g52" THEN [st |-> Done(s, task.id, "ok"), next |-> [t |-> "none"], err |-> ""]
            ELSE [st |-> Done(s, task.id, "UnexpectedResponseHeaders"), next |-> [t |-> "none"], err |-> "UnexpectedResponseHeaders"]
      [] task.t = "time" ->
            \* master/tasks/time.rs: non-LAN = DELAY_MEASURE (reply g52v2) then WRITE g50v1; LAN = RECORD_CURRENT_TIME (empty
            \* reply) then WRITE g50v3; the write's reply must be empty and must not show NEED_TIME any more.  The reply
            \* class "g52" reports a processing delay of 10 ms: more than the round trip = BadOutstationTimeDelay.
            \* The promise of a user request gets the time-sync error, the task itself always UnexpectedResponseHeaders
            LET failed(res) == [st |-> IF task.id = 0 THEN AutoFailure(s, a, "time") ELSE Done(s, task.id, res),
                                next |-> [t |-> "none"], err |-> "UnexpectedResponseHeaders"]
                fine == [st |-> IF task.id = 0 THEN AutoDone(s, a, "time") ELSE Done(s, task.id, "ok"), next |-> [t |-> "none"], err |-> ""]
            IN CASE task.step = "measure" ->
                       IF f.body \notin {"g52", "g52z"} THEN failed("Task:UnexpectedResponseHeaders")
                       ELSE IF f.body = "g52" /\ s.now - s.cur.t0 < 10 THEN failed("BadOutstationTimeDelay")
                       ELSE [st |-> s, next |-> [task EXCEPT !.step = "writeabs"], err |-> ""]
                 [] task.step = "record" ->
                       IF f.body # "empty" THEN failed("Task:UnexpectedResponseHeaders")
                       ELSE [st |-> s, next |-> [task EXCEPT !.step = "writelast"], err |-> ""]
                 [] OTHER ->
                       IF f.body # "empty" THEN failed("Task:UnexpectedResponseHeaders")
                       ELSE IF "time" \in f.iin THEN failed("StillNeedsTime")
                       ELSE fine
      [] task.t = "empty" ->
            IF f.body = "empty" THEN [st |-> Done(s, task.id, "ok"), next |-> [t |-> "none"], err |-> ""]
            ELSE [st |-> Done(s, task.id, "UnexpectedResponseHeaders"), next |-> [t |-> "none"], err |-> "UnexpectedResponseHeaders"]
      [] OTHER -> [st |-> s, next |-> [t |-> "none"], err |-> ""]

\* the response-processing step of the task the master is blocked in
AwaitRx(s) ==
    LET f == Head(s.inbox)
        s0 == [s EXCEPT !.inbox = Tail(@)]
        a == s.cur.a
        task == s.cur.task
        \* notify_link_activity: the source for read tasks, the destination of the request for non-read tasks
        sL == LinkActivity(s0, IF IsRead(task) THEN AssocOf(f) ELSE a)
    IN
    IF f.fc = -1 THEN          \* a link-layer message (LINK_STATUS)
        IF task.t = "link" THEN [Done(LinkActivity(s0, AssocOf(f)), UserId(task), "ok") EXCEPT !.pc = "Sched", !.cur = NoCur]
        ELSE LinkActivity(s0, AssocOf(f))
    ELSE IF task.t = "link" THEN
        \* any application fragment during a link status check: handled as while idle, then the task fails
        LET s1 == IF f.fc = 130 THEN HandleUnsol(LinkActivity(s0, AssocOf(f)), f) ELSE LinkActivity(s0, AssocOf(f))
        IN [Done(s1, UserId(task), "UnexpectedResponseHeaders") EXCEPT !.pc = "Sched", !.cur = NoCur]
    ELSE IF f.body = "hdrbad" THEN
        \* TransportResponse::Error: the task fails
        [Fail(s0, a, task, "Transport") EXCEPT !.pc = "Sched", !.cur = NoCur]
    ELSE IF f.fc = 130 THEN HandleUnsol(sL, f)
    ELSE IF ~s.A[a].exists /\ f.seq = s.cur.seq /\ (IsRead(task) \/ AssocOf(f) = a) THEN
        \* the association was removed while its task was running: the lookup of the association fails when the answer
        \* is about to be processed (reads look it up before they check the source)
        [DoneErr(s0, task, "NoSuchAssociation") EXCEPT !.pc = "Sched", !.cur = NoCur]
    ELSE IF AssocOf(f) # a \/ (f.seq # s.cur.seq /\ "H_AnySeq" \notin DEVM) THEN sL
    ELSE IF IsRead(task) THEN
        \* process_read_response
        IF f.fir /\ ~s.cur.first THEN [Fail(sL, a, task, "UnexpectedFir") EXCEPT !.pc = "Sched", !.cur = NoCur]
        ELSE IF ~f.fir /\ s.cur.first THEN [Fail(sL, a, task, "NeverReceivedFir") EXCEPT !.pc = "Sched", !.cur = NoCur]
        ELSE IF ~f.fin /\ ~f.con THEN [Fail(sL, a, task, "NonFinWithoutCon") EXCEPT !.pc = "Sched", !.cur = NoCur]
        ELSE IF "err" \in f.iin THEN [Fail(sL, a, task, "RejectedByIin2") EXCEPT !.pc = "Sched", !.cur = NoCur]
        ELSE
        LET s1 == ProcessIin(sL, a, f.iin)
        IN IF f.body = "bad" THEN [Fail(s1, a, task, "MalformedResponse") EXCEPT !.pc = "Sched", !.cur = NoCur]
           ELSE
           LET rt == CASE task.t = "integ" -> "integrity" [] task.t = "uread" -> "single" [] OTHER -> "poll"
               s2 == Cb(Cb(s1, MkCb(s.now, "rh", "begin", <<Addr(a), f.seq>>, rt)),
                        MkCb(s.now, "rh", "end", <<Addr(a), f.seq>>, rt))
               s3 == IF f.con THEN Confirm(s2, a, f.seq, FALSE) ELSE s2
           IN IF f.fin THEN [Success(ReadComplete(s3, a, task), a, task, f.seq) EXCEPT !.pc = "Sched", !.cur = NoCur]
              ELSE [s3 EXCEPT !.cur.first = FALSE, !.cur.seq = s3.A[a].seq, !.A[a].seq = S16(@ + 1),
                              !.cur.deadline = s.now + Assocs[a].rt]
    ELSE
        \* validate_non_read_response
        IF ~(f.fir /\ f.fin) THEN [Fail(sL, a, task, "MultiFragmentResponse") EXCEPT !.pc = "Sched", !.cur = NoCur]
        ELSE IF "err" \in f.iin THEN [Fail(sL, a, task, "RejectedByIin2") EXCEPT !.pc = "Sched", !.cur = NoCur]
        ELSE
        \* DEV_NoConfirmForNonRead: the code never confirms a CON-flagged response to a non-READ request
        LET sc == IF f.con /\ "NoConfirmForNonRead" \notin DEVM THEN Confirm(sL, a, f.seq, FALSE)
                  ELSE [sL EXCEPT !.devs = IF f.con THEN @ \cup {"NoConfirmForNonRead"} ELSE @]
            s1 == ProcessIin(sc, a, f.iin)
            h == HandleNonRead(s1, a, task, f)
        IN IF h.err # "" THEN
                [Cb(h.st, MkFail(s.now, Addr(a), TaskName(task), h.err))
                    EXCEPT !.pc = "Sched", !.cur = NoCur]
           ELSE IF h.next.t # "none" THEN
                \* next step of a multi-step task: send the next request at once (no task_start callback)
                LET seq == h.st.A[a].seq
                IN [Tx([h.st EXCEPT !.A[a].seq = S16(@ + 1)], a, FcOf(h.next), seq, FALSE, h.next) EXCEPT
                        !.cur = [a |-> a, task |-> h.next, seq |-> seq, first |-> TRUE,
                                 deadline |-> s.now + Assocs[a].rt, fc0 |-> s.cur.fc0, t0 |-> s.now]]
           ELSE [Success(h.st, a, task, s.cur.seq) EXCEPT !.pc = "Sched", !.cur = NoCur]

AwaitTimeout(s) ==
    IF s.cur.task.t = "link"
      THEN [Done(s, UserId(s.cur.task), "ResponseTimeout") EXCEPT !.pc = "Sched", !.cur = NoCur]
      ELSE [Fail(s, s.cur.a, s.cur.task, "ResponseTimeout") EXCEPT !.pc = "Sched", !.cur = NoCur]

\* a fragment while idle
IdleRx(s) ==
    LET f == Head(s.inbox)
        s0 == LinkActivity([s EXCEPT !.inbox = Tail(@)], AssocOf(f))
    IN IF f.fc = 130 /\ f.body # "hdrbad" THEN [HandleUnsol(s0, f) EXCEPT !.pc = "Sched"]
       ELSE IF f.fc = -1 THEN s0
       ELSE [s0 EXCEPT !.pc = "Sched"]

-----------------------------------------------------------------------------
(* user messages: processed in the select! of whatever the task is blocked in *)

\* Association::process_message(QueueTask) / poll messages / master messages
ProcMsg(s, m) ==
    CASE m.k = "task" ->
            LET a == m.a IN
            IF a = 0 \/ ~s.A[a].exists THEN DoneErr(s, m.task, "NoSuchAssociation")
            ELSE IF s.pc = "Down" THEN DoneErr(s, m.task, "NoConnection")
            ELSE IF Len(s.A[a].queue) >= Assocs[a].maxq THEN DoneErr(s, m.task, "TooManyRequests")
            ELSE [s EXCEPT !.A[a].queue = Append(@, m.task)]
      [] m.k \in {"poll_add", "poll_demand", "remove"} /\ ~s.A[m.a].exists -> Done(s, m.id, "NoSuchAssociation")
      [] m.k = "poll_add" ->
            Done([s EXCEPT !.A[m.a].polls = Append(@, [id |-> m.pid, period |-> m.period, next |-> s.now + m.period])],
                 m.id, "ok")
      [] m.k = "poll_demand" ->
            LET ps == s.A[m.a].polls
            IN Done([s EXCEPT !.A[m.a].polls = [i \in 1..Len(ps) |-> IF ps[i].id = m.pid THEN [ps[i] EXCEPT !.next = s.now] ELSE ps[i]]],
                    m.id, "ok")
      [] m.k = "enable" -> IF s.pc = "Down" /\ s.pipe THEN [s EXCEPT !.enabled = TRUE, !.pipe = FALSE, !.pc = "Sched", !.nsess = IF @ < 2 THEN @ + 1 ELSE @]
                           ELSE [s EXCEPT !.enabled = TRUE]
      [] m.k = "disable" -> [s EXCEPT !.enabled = FALSE]
      [] m.k = "remove" ->
            \* AssociationMap::remove drops the association together with its queued tasks: their promises
            \* are dropped, which the callers see as a shutdown
            LET q == s.A[m.a].queue
                s1 == FoldLeft(LAMBDA acc, t : DoneErr(acc, t, "Shutdown"), s, q)
            IN Done([s1 EXCEPT !.A[m.a].exists = FALSE, !.A[m.a].queue = <<>>], m.id, "ok")
      [] OTHER -> s

\* AssociationMap::reset: the session ended (link error / disable): queued tasks fail, auto tasks re-arm
ResetAll(s, err) ==
    LET one(acc, a) ==
            LET q == acc.A[a].queue
                s1 == FoldLeft(LAMBDA x, t : DoneErr(x, t, err), acc, q)
            IN [s1 EXCEPT !.A[a].queue = <<>>,
                          !.A[a].auto = [clr |-> AutoIdle, dis |-> AutoPending, integ |-> AutoPending,
                                         time |-> AutoIdle, en |-> AutoPending, evscan |-> AutoIdle],
                          !.A[a].integDone = FALSE, !.A[a].lastUnsol.has = FALSE]
    IN FoldLeft(one, s, [a \in 1..NA |-> a])

\* the session ends while a task may be outstanding
EndSession(s, err) ==
    LET s1 == IF s.pc = "Await"
                THEN (IF s.cur.task.t = "link" THEN Done(s, UserId(s.cur.task), err)
                      ELSE Fail(s, s.cur.a, s.cur.task, err))
                ELSE s
    IN [ResetAll(s1, err) EXCEPT !.pc = "Down", !.cur = NoCur, !.inbox = <<>>]

-----------------------------------------------------------------------------
(* Run *)

Blocked(s) ==
    \/ s.pc \in {"Down", "Dead"} /\ s.msgs = <<>>
    \/ s.pc = "Await" /\ s.inbox = <<>> /\ s.msgs = <<>> /\ s.now < s.cur.deadline
    \/ s.pc = "Idle" /\ s.inbox = <<>> /\ s.msgs = <<>> /\ (s.idleUntil = NoTime \/ s.now < s.idleUntil)

Micro(s) ==
    IF s.msgs # <<>> THEN
        LET m == Head(s.msgs)
            s1 == ProcMsg([s EXCEPT !.msgs = Tail(@)], m)
        IN \* a disable while connected ends the session; while idle any message re-runs the scheduler
           IF m.k = "disable" /\ s.pc # "Down" THEN EndSession(s1, "Disabled")
           ELSE IF s1.pc = "Idle" THEN [s1 EXCEPT !.pc = "Sched"]
           \* DEV LinkStatusTimeoutRearms: run_link_status_task computed its deadline inside the wait loop, so every
           \* processed message restarted the response timeout of the link status check
           ELSE IF s1.pc = "Await" /\ s1.cur.task.t = "link" /\ "LinkStatusTimeoutRearms" \in DEVM
                THEN [s1 EXCEPT !.cur.deadline = s1.now + Assocs[s1.cur.a].rt, !.devs = @ \cup {"LinkStatusTimeoutRearms"}]
           ELSE s1
    ELSE CASE s.pc = "Sched" -> Schedule(s)
           [] s.pc = "Await" -> IF s.inbox # <<>> THEN AwaitRx(s) ELSE AwaitTimeout(s)
           [] s.pc = "Idle" -> IF s.inbox # <<>> THEN IdleRx(s) ELSE [s EXCEPT !.pc = "Sched"]
           [] OTHER -> s

RECURSIVE Run(_)
Run(s) == IF Blocked(s) THEN s ELSE Run(Micro(s))

NextTimer(s, limit) ==
    LET cands == (IF s.pc = "Await" THEN {s.cur.deadline} ELSE {})
                 \cup (IF s.pc = "Idle" /\ s.idleUntil # NoTime THEN {s.idleUntil} ELSE {})
        due == {d \in cands : d > s.now /\ d <= limit}
    IN IF due = {} THEN NoTime ELSE CHOOSE d \in due : \A x \in due : d <= x

RECURSIVE Advance(_, _)
Advance(s, target) ==
    LET d == NextTimer(s, target)
    IN IF d = NoTime THEN [s EXCEPT !.now = target] ELSE Advance(Run([s EXCEPT !.now = d]), target)

\* stimuli: [k: conn | cut | adv(dt) | enable | disable | req(m) | rx(f)]
Inject(s, in) ==
    CASE in.k = "conn" -> IF s.pc = "Down" /\ s.enabled THEN [s EXCEPT !.pc = "Sched", !.nsess = IF @ < 2 THEN @ + 1 ELSE @]
                          ELSE IF s.pc = "Down" THEN [s EXCEPT !.pipe = TRUE] ELSE s
      [] in.k = "cut"  -> IF s.pc \in {"Down", "Dead"} THEN [s EXCEPT !.pipe = FALSE] ELSE EndSession(s, "Link")
      [] in.k = "adv"  -> s
      [] in.k = "enable" -> [s EXCEPT !.msgs = Append(@, [k |-> "enable"])]
      [] in.k = "disable" -> [s EXCEPT !.msgs = Append(@, [k |-> "disable"])]
      [] in.k = "req" -> [s EXCEPT !.msgs = Append(@, in.m), !.nreq = @ + 1]
      [] in.k = "rx" -> IF s.pc \in {"Down", "Dead"} THEN s ELSE [s EXCEPT !.inbox = Append(@, in.f)]
      [] OTHER -> s

Apply(s, in) ==
    LET s0 == [s EXCEPT !.otx = <<>>, !.ocb = <<>>, !.odone = <<>>]
        s1 == Run(Inject(s0, in))
        dt == IF in.k = "adv" THEN in.dt ELSE 1
    IN Advance(s1, s1.now + dt)

=============================================================================
