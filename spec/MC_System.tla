----------------------------- MODULE MC_System -----------------------------
EXTENDS System, Json
\* behaviour generation: the environment's part of a behaviour and where the system moved in between
VARIABLE hist
MCInit == Init /\ hist = <<>>
Rec(a) == hist' = Append(hist, a)
MCNext ==
    \/ \E p \in Pts : Upd(p) /\ Rec([k |-> "upd", p |-> p])
    \/ Cut /\ Rec([k |-> "cut"])
    \/ Conn /\ Rec([k |-> "conn"])
    \/ Stop /\ Rec([k |-> "stop"])
    \/ (MasterPoll \/ MasterTimeout \/ MasterRecv \/ OstRecvPoll \/ OstRecvConfirm \/ OstUnsol \/ OstTimeout) /\ Rec([k |-> "sys"])
MCSpec == MCInit /\ [][MCNext]_<<vars, hist>>
Export == (~stopped \/ Len(hist) < 4) \/ PrintT(<<"SCENARIO", ToJson(hist)>>)
=============================================================================
