------------------------------ MODULE Mon_C17 ------------------------------
(***************************************************************************)
(* C17 - Master start-up and restart handling runs in order and gates      *)
(* unsolicited data.                                                        *)
(*                                                                         *)
(* Per association the monitor keeps the set `need` of start-up            *)
(* obligations not yet discharged on this connection, in the order         *)
(*      clr (clear restart) < dis (disable unsolicited) < integ < en       *)
(* On a new connection need = the configured ones of {dis, integ, en}.  A  *)
(* processed response (the answer to the outstanding request, or an        *)
(* unsolicited fragment of a known outstation) that shows the restart      *)
(* indication adds clr and the configured ones of {integ, en}.  An         *)
(* obligation is discharged by the success of its task (for clr: by an     *)
(* answer that no longer shows the indication; an IIN2 rejection of a      *)
(* non-read automatic task also discharges it - the function is not        *)
(* supported).  Where automatic time synchronisation is configured, a      *)
(* processed response that shows NEED_TIME adds the obligation "time"      *)
(* between integ and en.                                                   *)
(*   order                 an automatic task started while an obligation   *)
(*                         ahead of it is open                             *)
(*   poll-before-startup   a periodic poll / event scan started while any  *)
(*                         obligation is open                              *)
(*   unsol-before-integrity  unsolicited data delivered or confirmed       *)
(*                         before the integrity poll completed             *)
(*   null-unconfirmed      an empty unsolicited response with CON not      *)
(*                         confirmed                                       *)
(*   backoff-early / backoff-shape                                         *)
(*                         the k-th consecutive failure of an automatic    *)
(*                         task is followed by a retry no earlier than     *)
(*                         min(max, min * 2^(k-1)) after the failure       *)
(***************************************************************************)
EXTENDS MMonBase

AutoOf(name) == CASE name = "ClearRestartBit" -> "clr" [] name = "DisableUnsolicited" -> "dis"
                  [] name = "StartupIntegrity" -> "integ" [] name = "EnableUnsolicited" -> "en"
                  [] name = "AutoEventScan" -> "evscan" [] name = "PeriodicPoll" -> "poll"
                  [] name = "TimeSync" -> "time" [] OTHER -> ""
Rank(n) == CASE n = "clr" -> 1 [] n = "dis" -> 2 [] n = "integ" -> 3 [] n = "time" -> 4 [] n = "en" -> 5 [] OTHER -> 9

AInit(c) == [a |-> c.addr, need |-> {}, integDone |-> FALSE, amb |-> FALSE,
             fk |-> [n \in {"clr", "dis", "integ", "time", "en", "evscan"} |-> 0],      \* consecutive failures
             ft |-> [n \in {"clr", "dis", "integ", "time", "en", "evscan"} |-> 0]]      \* time of the last one
MonInit == [cfg |-> [assocs |-> <<>>], sc |-> "", viol |-> <<>>, out |-> NoOut, A |-> <<>>,
            up |-> FALSE, en |-> TRUE, pipe |-> FALSE]
V(m, reason, l, ctx) == [m EXCEPT !.viol = IF Len(@) >= 300 THEN @ ELSE Append(@, Viol("C17", reason, l, m.sc, ctx))]

Ix(m, addr) == IF \E i \in 1..Len(m.A) : m.A[i].a = addr THEN CHOOSE i \in 1..Len(m.A) : m.A[i].a = addr ELSE 0
Configured(c) == (IF c.dis THEN {"dis"} ELSE {}) \cup (IF c.integ THEN {"integ"} ELSE {}) \cup (IF c.en THEN {"en"} ELSE {})
Pow2(k) == IF k <= 1 THEN 1 ELSE IF k = 2 THEN 2 ELSE IF k = 3 THEN 4 ELSE IF k = 4 THEN 8 ELSE IF k = 5 THEN 16 ELSE 1024
Delay(c, k) == IF c.rmin * Pow2(k) > c.rmax THEN c.rmax ELSE c.rmin * Pow2(k)

Connect(m) == [m EXCEPT !.A = [i \in 1..Len(@) |->
                  [AInit(m.cfg.assocs[i]) EXCEPT !.need = Configured(m.cfg.assocs[i])]]]

\* restart indication in a processed response
SawRestart(m, i) ==
    IF "clr" \in m.A[i].need THEN m
    ELSE [m EXCEPT !.A[i].need = @ \cup {"clr"} \cup (Configured(m.cfg.assocs[i]) \ {"dis"}), !.A[i].integDone = FALSE]

\* one callback, in order
CbStep(m, e, c, l) ==
    IF c.k # "ai" \/ c.n \notin {"task_start", "task_success", "task_fail"} THEN m
    ELSE
    LET i == Ix(m, c.i[1])
        n0 == AutoOf(c.s)
        \* a time synchronisation is an automatic task only where one is configured (otherwise it is a user request)
        n == IF n0 = "time" /\ (i = 0 \/ m.cfg.assocs[IF i = 0 THEN 1 ELSE i].tsync = "") THEN "" ELSE n0
    IN IF i = 0 \/ n = "" THEN m
    ELSE
    LET A == m.A[i]
        cfg == m.cfg.assocs[i]
    IN
    IF c.n = "task_start" THEN
        IF A.amb THEN m
        ELSE IF n \in {"poll", "evscan"} THEN
            IF A.need # {} THEN V(m, "poll-before-startup", l, "a poll started while start-up / restart obligations are open: " \o c.s) ELSE m
        ELSE
            LET m1 == IF \E x \in A.need : Rank(x) < Rank(n)
                        THEN V(m, "order", l, "automatic task started out of order: " \o c.s) ELSE m
                m2 == IF A.fk[n] > 0 /\ c.t < A.ft[n] + Delay(cfg, A.fk[n])
                        THEN V(m1, "backoff-early", l, "failed automatic task retried before its back-off delay: " \o c.s) ELSE m1
            IN m2
    ELSE IF c.n = "task_success" THEN
        IF n \in {"poll"} THEN m
        ELSE LET stillRst == n = "clr" /\ e.k = "rx" /\ e.rx.iin.rst
             IN IF stillRst THEN [m EXCEPT !.A[i].fk[n] = @ + 1, !.A[i].ft[n] = c.t]
                ELSE [m EXCEPT !.A[i].need = @ \ {n}, !.A[i].fk[n] = 0,
                               !.A[i].integDone = IF n = "integ" THEN TRUE ELSE @]
    ELSE \* task_fail
        IF n = "poll" THEN m
        ELSE IF c.x = "RejectedByIin2" /\ n \in {"clr", "dis", "en"}
            THEN [m EXCEPT !.A[i].need = @ \ {n}, !.A[i].fk[n] = 0]
        ELSE [m EXCEPT !.A[i].fk[n] = @ + 1, !.A[i].ft[n] = c.t]

RECURSIVE Cbs(_, _, _, _)
Cbs(m, e, cs, l) == IF cs = <<>> THEN m ELSE Cbs(CbStep(m, e, Head(cs), l), e, Tail(cs), l)

MonStep(m, e, l) ==
    IF e.k = "reset" THEN [MonInit EXCEPT !.cfg = e.cfg, !.sc = e.id, !.viol = m.viol, !.en = e.cfg.enabled,
                                          !.A = [i \in 1..Len(e.cfg.assocs) |-> AInit(e.cfg.assocs[i])]]
    ELSE IF ~HasOutputs(e) THEN m
    ELSE
    LET up1 == CASE e.k = "conn" -> m.up \/ m.en [] e.k = "enable" -> m.up \/ m.pipe
                 [] e.k \in {"cut", "disable"} -> FALSE [] OTHER -> m.up
        pipe1 == CASE e.k = "conn" -> ~m.up /\ ~m.en [] e.k \in {"enable", "cut"} -> FALSE [] OTHER -> m.pipe
        en1 == CASE e.k = "enable" -> TRUE [] e.k = "disable" -> FALSE [] OTHER -> m.en
        \* a new session starts: obligations as configured, failure counts forgotten
        mS == IF up1 /\ ~m.up THEN Connect(m) ELSE m
        \* the fragment of this line
        isRx == e.k = "rx" /\ ~e.rx.noconn /\ e.rx.fc # -1
        i == IF isRx THEN Ix(mS, e.rx.src) ELSE 0
        unsol == isRx /\ e.rx.fc = 130 /\ e.rx.uns /\ e.rx.body # "hdrbad" /\ i # 0
        answer == isRx /\ e.rx.fc = 129 /\ i # 0 /\ Answers(mS.out, [e.rx EXCEPT !.body = IF @ = "bad" THEN "data" ELSE @])
        mA == IF answer /\ e.rx.body = "bad" /\ e.rx.iin.rst THEN [mS EXCEPT !.A[i].amb = TRUE] ELSE mS
        mR0 == IF (unsol \/ (answer /\ e.rx.body # "bad")) /\ e.rx.iin.rst THEN SawRestart(mA, i) ELSE mA
        \* the outstation asks for the time: synchronise before enabling unsolicited reporting and before polling
        mR == IF (unsol \/ (answer /\ e.rx.body # "bad")) /\ e.rx.iin.time /\ mR0.cfg.assocs[i].tsync # ""
                THEN [mR0 EXCEPT !.A[i].need = @ \cup {"time"}] ELSE mR0
        \* gating of unsolicited data
        gated == unsol /\ mR.cfg.assocs[i].integ /\ ~mR.A[i].integDone /\ e.rx.body # "empty" /\ ~mR.A[i].amb
        uc == IF isRx THEN Confirms(e, TRUE, e.rx.seq, e.rx.src) ELSE <<>>
        mG == IF gated /\ (UnsolBegins(e) # <<>> \/ uc # <<>>)
                THEN V(mR, "unsol-before-integrity", l, "unsolicited data delivered or confirmed before the integrity poll completed")
                ELSE mR
        mN == IF unsol /\ e.rx.body = "empty" /\ e.rx.con /\ Len(uc) # 1
                THEN V(mG, "null-unconfirmed", l, "an empty unsolicited response with CON must be confirmed") ELSE mG
        mC == Cbs(mN, e, e.cb, l)
    IN [mC EXCEPT !.out = TrackOut(m.out, e), !.up = up1, !.pipe = pipe1, !.en = en1]

Claimed == {"C17"}
=============================================================================
