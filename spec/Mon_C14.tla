------------------------------ MODULE Mon_C14 ------------------------------
(***************************************************************************)
(* C14 - Unsolicited reporting obeys the start-up, enable, retry and       *)
(* deferral rules.  Observed: function 0x82 fragments with virtual time,   *)
(* the requests received, confirm stimuli.                                 *)
(*   null-phase       until a null unsolicited response is confirmed only  *)
(*                    empty unsolicited responses, each with a fresh seq   *)
(*   not-enabled      event data only for classes the master enabled       *)
(*   two-outstanding  a new unsolicited response while the previous one is *)
(*                    still awaiting its confirmation                      *)
(*   too-many-retries more re-sends than configured                        *)
(*   retry-too-soon   a new series sooner than retry_delay after a failed  *)
(*                    one                                                   *)
(*   after-disable    event data for a class after DISABLE_UNSOLICITED     *)
(*   read-dropped     a READ received during the wait is neither answered  *)
(*                    when the series ends nor superseded                  *)
(*   superseded-answered  a deferred READ that a later request superseded   *)
(*                    is answered all the same when the series ends        *)
(*   not-immediate    another request received during the wait is not      *)
(*                    answered on the spot                                 *)
(*   unsol-disabled   any unsolicited response although the feature is off *)
(***************************************************************************)
EXTENDS EvLedger

MonInit == [L |-> LInit([confirm_to |-> 5000,
                         app |-> [time |-> FALSE, local |-> FALSE, trouble |-> FALSE, cfg |-> FALSE]],
                        "", <<>>),
            nullDone |-> FALSE, enabled |-> {}, lastSeq |-> -1,
            failAt |-> -1,                 \* time the last data series was given up (-1 none)
            disabledAt |-> [c \in 1..3 |-> -1],
            rdOb |-> [has |-> FALSE, seq |-> -1, due |-> 0],
            sup  |-> [has |-> FALSE, seq |-> -1],     \* a deferred READ that a later request superseded
            pendEnDis |-> FALSE]

ClsOfHdrs(hdrs) == {hdrs[i].v - 1 : i \in {j \in 1..Len(hdrs) : hdrs[j].g = 60 /\ hdrs[j].v \in 2..4 /\ hdrs[j].q = 6}}

V(m, reason, l, ctx) == [m EXCEPT !.L = AddViol(@, "C14", reason, l, ctx)]

\* classes of the event objects a fragment carries (via the ledger's matching)
CarriedClasses(L, x) ==
    LET ids == MatchFragment(L, x).ids
    IN {L.live[i].cls : i \in {j \in 1..Len(L.live) : L.live[j].id \in SeqToSet(ids)}}

UnsolTx(m, x, e, l) ==
    LET L == m.L
        isRetry == L.uns.has /\ L.uns.active /\ x.seq = L.uns.seq /\ x.bid = L.uns.bid
        prevAwaited == L.uns.has /\ Awaiting(L.uns, L, x.t)
        hasData == EvObjs(x) # <<>> \/ x.objs # <<>>
        m0 == IF ~L.cfg.unsol THEN V(m, "unsol-disabled", l, "unsolicited response with the feature disabled") ELSE m
        m1 == IF ~m.nullDone /\ hasData
                THEN V(m0, "null-phase", l, "event data before a null unsolicited response was confirmed") ELSE m0
        m2 == IF ~m.nullDone /\ m.lastSeq # -1 /\ x.seq # Seq16(m.lastSeq + 1)
                THEN V(m1, "null-phase", l, "null unsolicited response without a fresh sequence number") ELSE m1
        m3 == IF m.nullDone /\ ~isRetry /\ m.lastSeq # -1 /\ x.seq # Seq16(m.lastSeq + 1)
                THEN V(m2, "unsol-seq", l, "unsolicited sequence numbers not consecutive") ELSE m2
        m4 == IF ~isRetry /\ prevAwaited
                THEN V(m3, "two-outstanding", l, "new unsolicited response while one awaits confirmation") ELSE m3
        m5 == IF isRetry /\ L.cfg.retries >= 0 /\ L.uns.sends > L.cfg.retries /\ m.nullDone
                THEN V(m4, "too-many-retries", l, "more unsolicited retries than configured") ELSE m4
        \* a data series that is replaced without having been confirmed has failed (at its last
        \* confirm timeout)
        failed == ~isRetry /\ L.uns.has /\ L.uns.active /\ L.uns.ids # <<>>
        failT  == IF failed THEN L.uns.t + L.cfg.confirm_to ELSE m.failAt
        m6 == IF ~isRetry /\ hasData /\ failT # -1 /\ x.t < failT + L.cfg.retry_delay
                THEN V(m5, "retry-too-soon", l, "new unsolicited series before the retry delay elapsed") ELSE m5
        cc == CarriedClasses(L, x)
        m7 == IF ~isRetry /\ ~(cc \subseteq m.enabled)
                THEN V(m6, "not-enabled", l, "unsolicited event data for a class that is not enabled") ELSE m6
        m8 == IF \E c \in cc : c \notin m.enabled /\ m.disabledAt[c] # -1 /\ isRetry
                THEN V(m7, "after-disable", l, "unsolicited data re-sent after DISABLE_UNSOLICITED") ELSE m7
    IN [m8 EXCEPT !.lastSeq = x.seq,
                  !.failAt = IF failed THEN L.uns.t + L.cfg.confirm_to ELSE @]

IsEnDis(m, e) == e.k = "rx" /\ e.fc \in {20, 21} /\ e.wf /\ SrcOk(e, m.L.cfg) /\ ~e.noconn
                   /\ (Unicast(e, m.L.cfg) \/ Broadcast(e)) /\ ~m.L.repeat
ApplyEnDis(m, e) ==
    [m EXCEPT !.enabled = IF e.fc = 20 THEN @ \cup ClsOfHdrs(e.hdrs) ELSE @ \ ClsOfHdrs(e.hdrs),
              !.disabledAt = [c \in 1..3 |-> IF e.fc = 21 /\ c \in ClsOfHdrs(e.hdrs) THEN e.t
                                            ELSE IF e.fc = 20 /\ c \in ClsOfHdrs(e.hdrs) THEN -1
                                            ELSE @[c]],
              !.rdOb = IF @.has /\ e.fc = 21 THEN [@ EXCEPT !.due = e.t] ELSE @,
              !.pendEnDis = FALSE]

TxStep(m0, x, e, l) ==
    LET m  == IF m0.pendEnDis /\ ~x.uns /\ x.seq = e.seq THEN ApplyEnDis(m0, e) ELSE m0
        m1 == IF x.uns THEN UnsolTx(m, x, e, l) ELSE m
        \* the reply that discharges a deferred READ
        m2 == IF ~x.uns /\ m1.rdOb.has /\ x.fir /\ x.seq = m1.rdOb.seq
                THEN [m1 EXCEPT !.rdOb.has = FALSE] ELSE m1
        \* a first fragment numbered like a superseded READ although this line's stimulus is not a request
        \* with that number: the outstation answers a request that the master has abandoned
        m3 == IF ~x.uns /\ m2.sup.has /\ x.fir /\ x.fc = 129 /\ x.seq = m2.sup.seq /\ ~e.panic
                THEN [V(m2, "superseded-answered", l, "a deferred READ superseded by a later request was answered after the series")
                        EXCEPT !.sup.has = FALSE]
                ELSE m2
    IN [m3 EXCEPT !.L = ApplyTx(m3.L, x, e, l)]

MonStep(m, e, l) ==
    IF e.k = "reset" THEN [MonInit EXCEPT !.L = LInit(e.cfg, e.id, m.L.viol)]
    ELSE IF ~HasOutputs(e) THEN m
    ELSE
    LET L0 == m.L
        acted == e.k = "rx" /\ SrcOk(e, L0.cfg) /\ (Unicast(e, L0.cfg) \/ Broadcast(e)) /\ ~e.noconn
        \* was an unsolicited fragment awaited when this stimulus arrived?
        inWait == L0.uns.has /\ Awaiting(L0.uns, L0, e.t)
        \* a read obligation that has fallen due without a reply
        m0 == IF m.rdOb.has /\ e.t > m.rdOb.due + 1 /\ ~e.panic
                THEN [V(m, "read-dropped", l, "READ received during the unsolicited wait was never answered")
                        EXCEPT !.rdOb.has = FALSE]
                ELSE m
        \* confirm of the awaited unsolicited fragment
        conf == acted /\ IsConfirm(e) /\ e.uns /\ Unicast(e, L0.cfg) /\ inWait /\ e.seq = L0.uns.seq
        m1 == IF conf
                THEN [m0 EXCEPT !.nullDone = @ \/ (L0.uns.ids = <<>> /\ Cbs(e, "app", "cleared") = <<>>),
                                !.failAt = -1,
                                !.rdOb = IF @.has THEN [@ EXCEPT !.due = e.t] ELSE @]
                ELSE m0
        \* requests.  ENABLE / DISABLE take effect when they are processed, which the position of
        \* their reply among this line's transmissions shows (an unsolicited response may have been
        \* written before the request was looked at); without a reply they take effect at the end
        isReq == acted /\ IsReq(e) /\ e.wf
        m2 == m1
        \* any non-READ request supersedes a deferred READ; a READ in the wait creates the obligation
        m3 == IF acted /\ IsReq(e) /\ Unicast(e, L0.cfg)
                THEN IF e.fc = 1 /\ e.wf /\ inWait /\ ~conf
                       THEN [m2 EXCEPT !.rdOb = [has |-> TRUE, seq |-> e.seq,
                                                 due |-> L0.uns.t + L0.cfg.confirm_to]]
                            \* a request numbered like the superseded READ makes any later reply with that number its own
                       ELSE [m2 EXCEPT !.rdOb.has = FALSE,
                                       !.sup = IF m2.rdOb.has /\ e.wf /\ e.seq # m2.rdOb.seq /\ ~L0.repeat
                                                 THEN [has |-> TRUE, seq |-> m2.rdOb.seq]
                                                 ELSE IF @.has /\ e.seq = @.seq THEN [@ EXCEPT !.has = FALSE] ELSE @]
                ELSE IF e.k \in {"cut", "conn", "raw"} THEN [m2 EXCEPT !.rdOb.has = FALSE, !.sup.has = FALSE]
                ELSE m2
        \* other requests received during the wait are answered immediately
        needsReply == isReq /\ Unicast(e, L0.cfg) /\ inWait /\ e.fc # 1 /\ e.fc \notin {6, 8, 10, 12}
                        /\ e.fir /\ e.fin /\ ~e.uns
                        /\ ~e.panic          \* a task that died on this line is C01's concern
        m4 == IF needsReply /\ ~\E i \in 1..Len(e.tx) : ~e.tx[i].uns /\ e.tx[i].seq = e.seq
                THEN V(m3, "not-immediate", l, "request received during the unsolicited wait not answered at once")
                ELSE m3
        L1 == ApplyStimulus(m4.L, e, l)
        L2 == IF e.k # "rx" THEN ApplyRelease(L1, e, l) ELSE L1
        m5 == FoldLeft(LAMBDA acc, x : TxStep(acc, x, e, l),
                       [m4 EXCEPT !.L = L2, !.pendEnDis = IsEnDis([m4 EXCEPT !.L = L2], e)], e.tx)
    IN IF m5.pendEnDis THEN ApplyEnDis(m5, e) ELSE m5

Claimed == {"C14"}
=============================================================================
