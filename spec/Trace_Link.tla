----------------------------- MODULE Trace_Link -----------------------------
(***************************************************************************)
(* Conformance of recorded link-level executions to Link.tla (deliveries   *)
(* of the frame reader read by read) and LinkAddr.tla (process_header).    *)
(***************************************************************************)
EXTENDS Link, Json, IOUtils

LA == INSTANCE LinkAddr

Rec == ndJsonDeserialize(IOEnv.TRACE)
VARIABLES l, r, pos, stream, kinds, sec, cfg, sc, mode, res
tvars == <<l, r, pos, stream, kinds, sec, cfg, sc, mode, res>>

DEVL_none == {}
DEVL_d10 == {"DiscardRollbackPerCall"}

TInit == /\ l = 1 /\ r = RInit /\ pos = 0 /\ stream = <<>> /\ kinds = <<>> /\ sec = LA!SecInit
         /\ cfg = [discard |-> TRUE, datagram |-> FALSE, is_master |-> FALSE, self_addr |-> FALSE]
         /\ sc = "" /\ mode = "skip" /\ res = [ok |-> 0, div |-> <<>>, steps |-> 0, skipped |-> 0]

End(x) == IF mode = "run" THEN [x EXCEPT !.ok = @ + 1] ELSE x

TNext ==
    /\ l <= Len(Rec) /\ l' = l + 1
    /\ LET e == Rec[l] IN
       IF e.k = "reset" THEN
            \* the reader's modes are constants of this run: scenarios recorded in another mode are skipped
            LET mine == e.cfg.discard = Discard /\ e.cfg.datagram = Datagram
            IN /\ r' = RInit /\ pos' = 0 /\ stream' = e.stream /\ kinds' = e.kinds /\ sec' = LA!SecInit
               /\ cfg' = e.cfg /\ sc' = e.id /\ mode' = IF mine THEN "run" ELSE "skip"
               /\ res' = [End(res) EXCEPT !.skipped = IF mine THEN @ ELSE @ + 1]
       ELSE IF mode = "skip" THEN UNCHANGED <<r, pos, stream, kinds, sec, cfg, sc, mode, res>>
       ELSE IF e.k = "chunk" THEN
            LET bytes == SubSeq(stream, pos + 1, pos + e.n)
                r1 == Step(r, bytes, kinds)
                newOut == SubSeq(r1.out, Len(r.out) + 1, Len(r1.out))
                same == newOut = e.delivered /\ (r1.closed /\ ~r.closed) = e.closed
            IN /\ r' = r1 /\ pos' = pos + e.n
               /\ UNCHANGED <<stream, kinds, sec, cfg, sc>>
               /\ IF same THEN mode' = mode /\ res' = [res EXCEPT !.steps = @ + 1]
                  ELSE mode' = "skip" /\ res' = [res EXCEPT !.div = Append(@, [sc |-> sc, line |-> l, what |-> "deliveries"])]
       ELSE IF e.k = "lframe" THEN
            LET p == LA!ProcessHeader(sec, e.h, cfg.is_master, cfg.self_addr)
                same == p.deliver = e.deliver /\ p.bc = e.bc /\ p.reply = e.reply /\ e.ndeliver <= 1 /\ e.nreply <= 1
            IN /\ sec' = p.sec
               /\ UNCHANGED <<r, pos, stream, kinds, cfg, sc>>
               /\ IF same THEN mode' = mode /\ res' = [res EXCEPT !.steps = @ + 1]
                  ELSE mode' = "skip" /\ res' = [res EXCEPT !.div = Append(@, [sc |-> sc, line |-> l, what |-> "header"])]
       ELSE IF e.k = "lreset" THEN
            /\ sec' = LA!SecInit /\ r' = RInit
            /\ UNCHANGED <<pos, stream, kinds, cfg, sc, mode, res>>
       ELSE UNCHANGED <<r, pos, stream, kinds, sec, cfg, sc, mode, res>>

TSpec == TInit /\ [][TNext]_tvars
Done == l <= Len(Rec) \/ JsonSerialize(IOEnv.OUT, [lines |-> Len(Rec), res |-> End(res)])
=============================================================================
