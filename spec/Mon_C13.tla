------------------------------ MODULE Mon_C13 ------------------------------
(***************************************************************************)
(* C13 - Internal indication bits tell the truth.  For every transmitted   *)
(* response that is not a re-send (echo of a repeated request, unsolicited *)
(* retry) the IIN octets are compared with what the ledger says:           *)
(*   class N events   <=> a live event of class N that is not part of a    *)
(*                        fragment still awaiting confirmation (the        *)
(*                        fragment being sent included)                    *)
(*   overflow         <=> an event was discarded and no confirmation has   *)
(*                        since left every type below capacity             *)
(*   restart          <=> no executed WRITE of g80v1[7]=0 since start-up   *)
(*   broadcast        follows a received broadcast until reported (or,     *)
(*                        confirm-mandatory, until confirmed)              *)
(*   need-time, local-control, device-trouble, config-corrupt mirror the   *)
(*                        application's answer at that moment              *)
(***************************************************************************)
EXTENDS EvLedger

MonInit == LInit([confirm_to |-> 5000,
                  app |-> [time |-> FALSE, local |-> FALSE, trouble |-> FALSE, cfg |-> FALSE]], "", <<>>)

ClassBit(L, c, t) == \E i \in 1..Len(L.live) : L.live[i].cls = c /\ L.live[i].id \notin InFlight(L, t)

Wrong(L, x, bit, l) == AddViol(L, "C13", "iin-" \o bit, l, "IIN bit does not match the ledger")

\* On the line of the broadcast itself an unsolicited response may be written before the
\* outstation looks at the broadcast (a fragment that ends a solicited confirm wait is retained and
\* handled after check_unsolicited): the bit is accepted either way on that line.
CheckIin(L, x, e, l) ==
    LET t  == x.t
        L1 == IF x.iin.c1 # ClassBit(L, 1, t) THEN Wrong(L, x, "c1", l) ELSE L
        L2 == IF x.iin.c2 # ClassBit(L, 2, t) THEN Wrong(L1, x, "c2", l) ELSE L1
        L3 == IF x.iin.c3 # ClassBit(L, 3, t) THEN Wrong(L2, x, "c3", l) ELSE L2
        L4 == IF x.iin.ovf # L.ovf THEN Wrong(L3, x, "ovf", l) ELSE L3
        L5 == IF x.iin.rst # L.rst /\ ~(e.k = "rx" /\ Broadcast(e) /\ ClearsRestart(e))
                THEN Wrong(L4, x, "rst", l) ELSE L4
        L6 == IF x.iin.time # L.app.time THEN Wrong(L5, x, "time", l) ELSE L5
        L7 == IF x.iin.local # L.app.local THEN Wrong(L6, x, "local", l) ELSE L6
        L8 == IF x.iin.trouble # L.app.trouble THEN Wrong(L7, x, "trouble", l) ELSE L7
        L9 == IF x.iin.cfg # L.app.cfg THEN Wrong(L8, x, "cfg", l) ELSE L8
        sameLine == e.k = "rx" /\ Broadcast(e)
        bcBad == IF L.bc.maybe \/ sameLine THEN FALSE ELSE x.iin.bc # L.bc.set
        L10 == IF bcBad THEN Wrong(L9, x, "bc", l) ELSE L9
    IN \* reporting consumes an optional / not-required broadcast indication
       IF sameLine /\ ~x.iin.bc THEN L10
       ELSE IF L10.bc.set /\ ~L10.bc.man THEN [L10 EXCEPT !.bc.set = FALSE, !.bc.maybe = FALSE]
       ELSE IF L10.bc.set THEN [L10 EXCEPT !.bc.reported = TRUE]
       ELSE [L10 EXCEPT !.bc.maybe = FALSE]

\* The reply to DISABLE_UNSOLICITED is sent at the moment the unsolicited series is cancelled:
\* whether its events still count as "awaiting confirmation" in that one reply is not determined
\* by the property, so the class bits are accepted either way there.
ClassBitsOk(L, x) == /\ x.iin.c1 = ClassBit(L, 1, x.t) /\ x.iin.c2 = ClassBit(L, 2, x.t)
                     /\ x.iin.c3 = ClassBit(L, 3, x.t)

TxStep(acc, x, e, l) ==
    LET exempt == IsUnsolRetry(acc, x) \/ (~x.uns /\ acc.repeat)
        after  == ApplyTx(acc, x, e, l)
        alt    == [after EXCEPT !.uns.active = acc.uns.active]
    IN IF exempt \/ x.fc \notin {129, 130} THEN after
       ELSE IF EndsUnsolWait(acc, e, x) /\ ~ClassBitsOk(after, x) /\ ClassBitsOk(alt, x)
         THEN [CheckIin(alt, x, e, l) EXCEPT !.uns.active = FALSE]
       ELSE CheckIin(after, x, e, l)

MonStep(m, e, l) ==
    IF e.k = "reset" THEN LInit(e.cfg, e.id, m.viol)
    ELSE IF ~HasOutputs(e) THEN m
    ELSE LET L1 == ApplyStimulus(m, e, l)
             L2 == IF e.k # "rx" THEN ApplyOvfClear(ApplyRelease(L1, e, l), e) ELSE L1
         IN FoldLeft(LAMBDA acc, x : TxStep(acc, x, e, l), L2, e.tx)

Claimed == {"C13"}
=============================================================================
