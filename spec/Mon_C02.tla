------------------------------ MODULE Mon_C02 ------------------------------
(***************************************************************************)
(* C02 - end to end, the master's picture converges to the outstation's    *)
(* database.  Lines of the S-trace (real master || proxy || real           *)
(* outstation), in order:                                                  *)
(*   upd   point p received version v (a value no other update uses); disc *)
(*         = versions whose events the outstation reported as discarded    *)
(*   dlv   the master's ReadHandler received version v for point p, as an  *)
(*         event (ev) or as a static value                                 *)
(*   end   the environment has stopped and the system has been given time  *)
(*         (reconnect, integrity poll, unsolicited retries, a final poll)  *)
(*   fabricated     a value that no update ever gave that point (invented, *)
(*                  or another point's / type's value)                     *)
(*   resurrected    a static value older than one received before          *)
(*   not-converged  at the end some point's current value has not reached  *)
(*                  the handler since its last update                      *)
(*   event-lost     at the end an event the outstation did not report as   *)
(*                  discarded never reached the handler                    *)
(***************************************************************************)
EXTENDS Naturals, Sequences, FiniteSets, TLC

MonInit == [viol |-> <<>>, sc |-> "", owner |-> <<>>,    \* <<[v, p]>>
            cur |-> <<>>,                                 \* <<[p, v]>> current version per point
            disc |-> {}, gotE |-> {}, lastS |-> <<>>, fresh |-> {}, n |-> 0]
V(m, reason, l, ctx) == [m EXCEPT !.viol = IF Len(@) >= 300 THEN @ ELSE Append(@, [prop |-> "C02", reason |-> reason, line |-> l, sc |-> m.sc, ctx |-> ctx])]

OwnerOf(m, v) == LET xs == SelectSeq(m.owner, LAMBDA r : r.v = v) IN IF xs = <<>> THEN 0 ELSE xs[1].p
CurOf(m, p) == LET xs == SelectSeq(m.cur, LAMBDA r : r.p = p) IN IF xs = <<>> THEN 0 ELSE xs[1].v
LastSOf(m, p) == LET xs == SelectSeq(m.lastS, LAMBDA r : r.p = p) IN IF xs = <<>> THEN 0 ELSE xs[1].v
Put(seq, p, v) == Append(SelectSeq(seq, LAMBDA r : r.p # p), [p |-> p, v |-> v])

MonStep(m, e, l) ==
    CASE e.k = "reset" -> [MonInit EXCEPT !.viol = m.viol, !.sc = e.id, !.n = m.n + 1]
      [] e.k = "upd" ->
            [m EXCEPT !.owner = Append(@, [v |-> e.v, p |-> e.p]), !.cur = Put(@, e.p, e.v),
                      !.disc = @ \cup {e.disc[i] : i \in 1..Len(e.disc)}, !.fresh = @ \ {e.p}]
      [] e.k = "dlv" ->
            LET ok == (e.v = 0 /\ ~e.ev) \/ OwnerOf(m, e.v) = e.p
                m1 == IF ~ok THEN V(m, "fabricated", l, "point " \o ToString(e.p) \o " value " \o ToString(e.v)) ELSE m
                m2 == IF ok /\ ~e.ev /\ e.v < LastSOf(m, e.p)
                        THEN V(m1, "resurrected", l, "point " \o ToString(e.p) \o " value " \o ToString(e.v)) ELSE m1
            IN [m2 EXCEPT !.gotE = IF e.ev THEN @ \cup {e.v} ELSE @,
                          !.lastS = IF e.ev THEN @ ELSE Put(@, e.p, e.v),
                          !.fresh = IF e.v = CurOf(m, e.p) THEN @ \cup {e.p} ELSE @]
      [] e.k = "end" ->
            LET stale == {r.p : r \in {m.cur[i] : i \in 1..Len(m.cur)}} \ m.fresh
                lost == {r.v : r \in {m.owner[i] : i \in 1..Len(m.owner)}} \ (m.disc \cup m.gotE)
                m1 == IF stale # {} THEN V(m, "not-converged", l, ToString(stale)) ELSE m
            IN IF lost # {} THEN V(m1, "event-lost", l, ToString(lost)) ELSE m1
      [] OTHER -> m
=============================================================================
