---- MODULE DevSets ----
EXTENDS Integers
NegOne == -1
DEV_none == {}
DEV_set_DiscardRollbackPerCall_ErrorReplyIgnoresAddressing_OversizeObjectNeverFits == {"DiscardRollbackPerCall", "ErrorReplyIgnoresAddressing", "OversizeObjectNeverFits"}
DEV_set_DiscardRollbackPerCall == {"DiscardRollbackPerCall"}
DEV_set_ErrorReplyIgnoresAddressing == {"ErrorReplyIgnoresAddressing"}
DEV_set_OversizeObjectNeverFits == {"OversizeObjectNeverFits"}
====
