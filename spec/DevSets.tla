---- MODULE DevSets ----
EXTENDS Integers
NegOne == -1
DEV_none == {}
DEV_set_ErrorReplyIgnoresAddressing == {"ErrorReplyIgnoresAddressing"}
====
