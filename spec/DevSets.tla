---- MODULE DevSets ----
EXTENDS Integers
NegOne == -1
DEV_none == {}
DEV_set_ConfirmClearsUnreportedBroadcast_ErrorReplyIgnoresAddressing == {"ConfirmClearsUnreportedBroadcast", "ErrorReplyIgnoresAddressing"}
DEV_set_ConfirmClearsUnreportedBroadcast == {"ConfirmClearsUnreportedBroadcast"}
DEV_set_ErrorReplyIgnoresAddressing == {"ErrorReplyIgnoresAddressing"}
====
