---- MODULE DevSets ----
EXTENDS Integers
NegOne == -1
DEV_none == {}
DEV_set_DisconnectKeepsWritten_EchoUsesFirstHeader_IdleRepeatRefreshesIin_OverflowKeepsWrittenCount_UnsolAbortKeepsWritten == {"DisconnectKeepsWritten", "EchoUsesFirstHeader", "IdleRepeatRefreshesIin", "OverflowKeepsWrittenCount", "UnsolAbortKeepsWritten"}
DEV_set_DisconnectKeepsWritten == {"DisconnectKeepsWritten"}
DEV_set_EchoUsesFirstHeader == {"EchoUsesFirstHeader"}
DEV_set_IdleRepeatRefreshesIin == {"IdleRepeatRefreshesIin"}
DEV_set_OverflowKeepsWrittenCount == {"OverflowKeepsWrittenCount"}
DEV_set_UnsolAbortKeepsWritten == {"UnsolAbortKeepsWritten"}
====
