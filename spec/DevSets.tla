---- MODULE DevSets ----
EXTENDS Integers
NegOne == -1
DEV_none == {}
DEV_set_ConfirmClearsUnreportedBroadcast_DiscardRollbackPerCall_ErrorReplyIgnoresAddressing == {"ConfirmClearsUnreportedBroadcast", "DiscardRollbackPerCall", "ErrorReplyIgnoresAddressing"}
DEV_set_ConfirmClearsUnreportedBroadcast == {"ConfirmClearsUnreportedBroadcast"}
DEV_set_DiscardRollbackPerCall == {"DiscardRollbackPerCall"}
DEV_set_ErrorReplyIgnoresAddressing == {"ErrorReplyIgnoresAddressing"}
====
