------------------------------ MODULE Mon_C08 ------------------------------
(***************************************************************************)
(* C08 - The transport layer delivers exactly the fragments that were      *)
(* segmented.  Events of a T-trace:                                        *)
(*   seg    one segment handed to the real reader + the fragments it       *)
(*          delivered, each decoded into the identities of its segments    *)
(*   write  one fragment of length len written by the real writer: the     *)
(*          segments seen on the wire and whether the reference            *)
(*          reassembler got the same bytes back                            *)
(*   rt     a fragment through real writer -> re-chunked bytes -> real     *)
(*          reader                                                         *)
(* The monitor runs the property automaton RefStep of Transport.tla over   *)
(* the recorded segment stream and compares its deliveries with the real   *)
(* ones; writer output is checked against Segments(len, seq).              *)
(***************************************************************************)
EXTENDS Transport, Integers

MonInit == [viol |-> <<>>, sc |-> "", c |-> RefInit, wseq |-> 0, segs |-> <<>>]
V(m, reason, l, ctx) == [m EXCEPT !.viol = IF Len(@) >= 300 THEN @ ELSE Append(@, [prop |-> "C08", reason |-> reason, line |-> l, sc |-> m.sc, ctx |-> ctx])]

Proj(f) == [src |-> f.src, bc |-> f.bc, parts |-> f.parts, len |-> f.len]

\* why is a delivered fragment wrong?  (diagnosis only)
Why(m, f) ==
    LET segOf(id) == LET xs == SelectSeq(m.segs, LAMBDA g : g.id = id) IN IF xs = <<>> THEN [fir |-> FALSE, fin |-> FALSE, seq |-> 0, src |-> 0, n |-> 0] ELSE xs[1]
        ps == [i \in 1..Len(f.parts) |-> segOf(f.parts[i])]
    IN IF ps = <<>> THEN "empty"
       ELSE IF ~ps[1].fir THEN "no-fir"
       ELSE IF \E i \in 1..(Len(ps) - 1) : ps[i + 1].seq # S64(ps[i].seq + 1) THEN "skipped-seq"
       ELSE IF \E i \in 1..Len(ps) : ps[i].src # ps[1].src THEN "mixed-source"
       ELSE IF f.len > Cap THEN "oversize"
       ELSE "wrong-fragment"

MonStep(m, e, l) ==
    IF e.k = "reset" THEN [MonInit EXCEPT !.viol = m.viol, !.sc = e.id]
    ELSE IF e.k = "treset" THEN [m EXCEPT !.c = RefInit, !.wseq = 0]
    ELSE IF e.k = "seg" THEN
        LET g == [fir |-> e.fir, fin |-> e.fin, seq |-> e.seq, src |-> e.src, bc |-> e.bc, n |-> e.n, id |-> e.id]
            y == RefStep(m.c, g)
            real == [i \in 1..Len(e.delivered) |-> Proj(e.delivered[i])]
            m0 == [m EXCEPT !.segs = Append(@, g)]
            m1 == IF real = y.out THEN m0
                  ELSE IF real = <<>> THEN V(m0, "lost-fragment", l, "a well-formed fragment of the stream was not delivered")
                  ELSE V(m0, Why(m0, real[1]), l, "delivered fragment is not the maximal well-formed run ending here")
        IN [m1 EXCEPT !.c = y.c]
    ELSE IF e.k = "write" THEN
        LET want == Segments(e.len, m.wseq)
            got == [i \in 1..Len(e.segs) |-> [fir |-> e.segs[i].fir, fin |-> e.segs[i].fin, seq |-> e.segs[i].seq, n |-> e.segs[i].n]]
            m1 == IF got # want THEN V(m, "bad-segmentation", l, "writer output is not FIR..FIN chunks of 249 with consecutive sequence numbers") ELSE m
            m2 == IF ~e.same THEN V(m1, "write-differs", l, "reassembled writer output differs from the fragment written") ELSE m1
        IN [m2 EXCEPT !.wseq = S64(@ + Len(e.segs))]
    ELSE IF e.k = "rt" THEN
        LET m1 == IF e.fits /\ ~e.ok THEN V(m, "roundtrip", l, "fragment did not arrive identical through writer, re-chunked bytes and reader") ELSE m
            m2 == IF ~e.fits /\ e.delivered THEN V(m1, "oversize", l, "fragment larger than the receive buffer was delivered") ELSE m1
        IN [m2 EXCEPT !.wseq = S64(@ + NSeg(e.len))]
    ELSE m

Claimed == {"C08"}
=============================================================================
