------------------------------ MODULE Mon_C01 ------------------------------
(***************************************************************************)
(* C01 - bytes from the peer can never crash or wedge a master or an       *)
(* outstation.                                                             *)
(*                                                                         *)
(* Lines of the hostile trace (one per step of a scenario: prefix reaching *)
(* a session state, hostile stimulus, probe):                              *)
(*   panic     the endpoint's task (or a parser called on its behalf)      *)
(*             panicked                                                    *)
(*   hang      the endpoint did not come to rest (spinning under a paused  *)
(*             clock) - the harness watchdog fired                         *)
(*   task-ended  the endpoint's task returned although it was not shut     *)
(*             down                                                        *)
(*   stalled   a READ repeated every 400 ms for 3.6 s is not answered       *)
(*   no-serve  after the stimulus a link status request is not answered    *)
(*             (outstation), a well-formed READ with a fresh sequence      *)
(*             number is not answered (outstation), a user request is not  *)
(*             sent or not completed by its well-formed answer (master) -  *)
(*             on the same connection, or on the next one when the         *)
(*             endpoint closed the session                                 *)
(*   closed-in-discard  the session was ended by input although the link   *)
(*             error mode says to discard bad frames                       *)
(***************************************************************************)
EXTENDS Naturals, Sequences, FiniteSets, TLC

MonInit == [viol |-> <<>>, sc |-> "", seen |-> {}, n |-> 0]
V(m, reason, l, ctx) ==
    IF <<m.sc, reason>> \in m.seen THEN m
    ELSE [m EXCEPT !.viol = IF Len(@) >= 300 THEN @ ELSE Append(@, [prop |-> "C01", reason |-> reason, line |-> l, sc |-> m.sc, ctx |-> ctx]),
                   !.seen = @ \cup {<<m.sc, reason>>}]

MonStep(m, e, l) ==
    IF e.k = "reset" THEN [m EXCEPT !.sc = e.id, !.n = @ + 1]
    ELSE
    LET m1 == IF e.panic THEN V(m, "panic", l, e.pmsg) ELSE m
        m2 == IF e.k = "hang" THEN V(m1, "hang", l, "") ELSE m1
        m3 == IF e.ended THEN V(m2, "task-ended", l, "") ELSE m2
        m4 == IF e.probe = "link" /\ ~(\E i \in 1..Len(e.ltx) : e.ltx[i] = "LINK_STATUS")
                THEN V(m3, "no-serve", l, "link status request not answered") ELSE m3
        m5 == IF e.probe = "read" /\ ~(\E i \in 1..Len(e.tx) : e.tx[i].fc = 129 /\ e.tx[i].seq = e.rxseq)
                THEN V(m4, "no-serve", l, "well-formed READ not answered") ELSE m4
        m5b == IF e.probe = "busy" /\ ~(\E i \in 1..Len(e.tx) : e.tx[i].fc = 129 /\ e.tx[i].seq = e.rxseq)
                THEN V(m5, "stalled", l, "READ not answered while the peer keeps repeating it (3.6 s)") ELSE m5
        m6 == IF e.probe = "mprobe" /\ ~(\E i \in 1..Len(e.tx) : e.tx[i].fc = 1)
                THEN V(m5b, "no-serve", l, "user request not transmitted") ELSE m5b
        m7 == IF e.probe = "mprobe" /\ ~(\E i \in 1..Len(e.done) : e.done[i] = "ok")
                THEN V(m6, "no-serve", l, "user request not completed by its answer") ELSE m6
        \* (a panic also closes the connection: reported once, as the panic)
        m8 == IF e.closed /\ e.discard /\ e.hostile /\ ~e.panic /\ <<m.sc, "panic">> \notin m7.seen
                THEN V(m7, "closed-in-discard", l, "") ELSE m7
    IN m8
=============================================================================
