----------------------------- MODULE MC_Master -----------------------------
(***************************************************************************)
(* Model-checking configurations of Master.tla.  Input alphabets:          *)
(*   resp     one association without automatic tasks: user requests       *)
(*            (read, direct operate, select-before-operate, restart) and   *)
(*            every kind of response / unsolicited fragment at every step  *)
(*   startup  one association with every automatic task on: responses     *)
(*            good / rejected / malformed / absent, restart / need-time /  *)
(*            overflow indications, unsolicited data and nulls, reconnects *)
(*   sched    two associations, polls, user requests, keep-alive           *)
(***************************************************************************)
EXTENDS MasterEv, MDevSets, Json

CONSTANTS Alpha, MaxSteps, MaxReq, MonName

VARIABLES s, ev, m, hist, prev      \* prev: the state before the last step (for the transition cover)
vars == <<s, ev, m, hist, prev>>

Mon15 == INSTANCE Mon_C15
Mon16 == INSTANCE Mon_C16
Mon17 == INSTANCE Mon_C17
Mon19 == INSTANCE Mon_C19
MInit == CASE MonName = "C15" -> Mon15!MonInit [] MonName = "C16" -> Mon16!MonInit
           [] MonName = "C17" -> Mon17!MonInit [] MonName = "C19" -> Mon19!MonInit
           [] OTHER -> [viol |-> <<>>]
MStep(mm, e, l) ==
    CASE MonName = "C15" -> Mon15!MonStep(mm, e, l) [] MonName = "C16" -> Mon16!MonStep(mm, e, l)
      [] MonName = "C17" -> Mon17!MonStep(mm, e, l) [] MonName = "C19" -> Mon19!MonStep(mm, e, l)
      [] OTHER -> mm

\* ---- fragments offered
F(fc, seq, fir, fin, con, uns, src, iin, body, hash) ==
    [fc |-> fc, seq |-> seq, fir |-> fir, fin |-> fin, con |-> con, uns |-> uns, src |-> src, iin |-> iin,
     body |-> body, hash |-> hash]
Resp(seq, src, body, iin) == F(129, seq, TRUE, TRUE, FALSE, FALSE, src, iin, body, IF body = "data" THEN 7 ELSE 0)
Unsol(seq, src, body, iin) == F(130, seq, TRUE, TRUE, TRUE, TRUE, src, iin, body, IF body = "data" THEN 9 ELSE 0)

CurSeq(st) == IF st.pc = "Await" THEN st.cur.seq ELSE S16(st.A[1].seq + 15)
Bodies(st) == IF st.pc = "Await" /\ st.cur.task.t = "time" THEN {"g52", "g52z", "empty", "data"}
              ELSE IF st.pc = "Await" /\ st.cur.task.t = "cmd" THEN {"echo", "badecho", "empty", "bad"}
              ELSE IF st.pc = "Await" /\ st.cur.task.t = "restart" THEN {"g52", "empty"}
              ELSE {"empty", "data", "bad"}

NextId(st) == st.nreq + 1
UserTasks(st) == {[t |-> "uread", id |-> NextId(st)],
                  [t |-> "cmd", id |-> NextId(st), mode |-> "do", step |-> "do", ob |-> "a"],
                  [t |-> "cmd", id |-> NextId(st), mode |-> "sbo", step |-> "select", ob |-> "a"],
                  [t |-> "restart", id |-> NextId(st)],
                  [t |-> "link", id |-> NextId(st)],
                  [t |-> "time", id |-> NextId(st), proc |-> "nonlan", step |-> "measure"],
                  [t |-> "time", id |-> NextId(st), proc |-> "lan", step |-> "record"]}

Timers(st) == LET d == NextTimer(st, st.now + 100000)
              IN IF d = NoTime THEN {} ELSE {[k |-> "adv", dt |-> (d - st.now) + 5]}

InputsResp(st) ==
    (IF st.pc = "Down" /\ ~st.pipe THEN {[k |-> "conn"]} ELSE IF st.pc = "Down" THEN {} ELSE {[k |-> "cut"]})
    \cup (IF st.nreq < MaxReq THEN {[k |-> "req", m |-> [k |-> "task", a |-> 1, task |-> t]] : t \in UserTasks(st)} ELSE {})
    \cup (IF st.pc \in {"Down", "Dead"} THEN {} ELSE
            {[k |-> "rx", f |-> Resp(CurSeq(st), 1, b, i)] : b \in Bodies(st),
                   i \in {{}, {"err"}} \cup (IF st.pc = "Await" /\ st.cur.task.t = "time" THEN {{"time"}} ELSE {})}
            \cup {[k |-> "rx", f |-> Resp(S16(CurSeq(st) + 1), 1, "empty", {})],
                  [k |-> "rx", f |-> Resp(CurSeq(st), 0, "empty", {})],
                  [k |-> "rx", f |-> [Resp(CurSeq(st), 1, "data", {}) EXCEPT !.con = TRUE]],
                  [k |-> "rx", f |-> [Resp(CurSeq(st), 1, "data", {}) EXCEPT !.fin = FALSE, !.con = TRUE]],
                  [k |-> "rx", f |-> [Resp(CurSeq(st), 1, "data", {}) EXCEPT !.fin = FALSE]],
                  [k |-> "rx", f |-> [Resp(CurSeq(st), 1, "data", {}) EXCEPT !.fir = FALSE]],
                  [k |-> "rx", f |-> [Resp(CurSeq(st), 1, IF st.pc = "Await" /\ st.cur.task.t = "cmd" THEN "echo" ELSE "empty", {}) EXCEPT !.con = TRUE]],
                  [k |-> "rx", f |-> Resp(CurSeq(st), 1, "hdrbad", {})]}
            \cup {[k |-> "rx", f |-> Unsol(q, 1, b, {})] : q \in {0, 1}, b \in {"empty", "data"}}
            \cup {[k |-> "rx", f |-> Unsol(0, 0, "data", {})]}
            \cup {[k |-> "rx", f |-> F(-1, 0, TRUE, TRUE, FALSE, FALSE, 1, {}, "link", 0)]})
    \cup Timers(st) \cup {[k |-> "adv", dt |-> 3], [k |-> "adv", dt |-> 600]}
    \cup (IF st.pc # "Down" THEN {[k |-> "disable"]} ELSE {}) \cup (IF ~st.enabled THEN {[k |-> "enable"]} ELSE {})

InputsStartup(st) ==
    (IF st.pc = "Down" /\ ~st.pipe THEN {[k |-> "conn"]} ELSE IF st.pc = "Down" THEN {} ELSE {[k |-> "cut"]})
    \cup (IF st.nreq < MaxReq THEN {[k |-> "req", m |-> [k |-> "task", a |-> 1, task |-> [t |-> "uread", id |-> NextId(st)]]],
                                     [k |-> "req", m |-> [k |-> "poll_add", a |-> 1, pid |-> Len(st.A[1].polls), period |-> 1500, id |-> NextId(st)]]} ELSE {})
    \cup (IF st.pc \in {"Down", "Dead"} THEN {} ELSE
            {[k |-> "rx", f |-> Resp(CurSeq(st), 1, b, i)] :
                 b \in {"empty", "data"} \cup (IF st.pc = "Await" /\ st.cur.task.t = "time" THEN {"g52z", "g52"} ELSE {}),
                 i \in {{}, {"err"}, {"rst"}, {"time"}, {"ovf"}, {"c1"}}}
            \cup {[k |-> "rx", f |-> Resp(CurSeq(st), 1, "bad", {})],
                  [k |-> "rx", f |-> [Resp(CurSeq(st), 1, "data", {}) EXCEPT !.fin = FALSE, !.con = TRUE]]}
            \cup {[k |-> "rx", f |-> Unsol(q, 1, b, i)] : q \in {0, 1}, b \in {"empty", "data"}, i \in {{}, {"rst"}}})
    \cup Timers(st)

InputsSched(st) ==
    (IF st.pc = "Down" /\ ~st.pipe THEN {[k |-> "conn"]} ELSE IF st.pc = "Down" THEN {} ELSE {[k |-> "cut"]})
    \cup (IF st.nreq < MaxReq THEN
            {[k |-> "req", m |-> [k |-> "task", a |-> a, task |-> [t |-> "uread", id |-> NextId(st)]]] : a \in 1..NA}
            \cup {[k |-> "req", m |-> [k |-> "task", a |-> 1, task |-> [t |-> "link", id |-> NextId(st)]]]}
            \cup {[k |-> "req", m |-> [k |-> "poll_add", a |-> a, pid |-> Len(st.A[a].polls), period |-> p, id |-> NextId(st)]] :
                      a \in 1..NA, p \in {2000, 3000}}
            \cup (IF st.A[1].polls # <<>> THEN {[k |-> "req", m |-> [k |-> "poll_demand", a |-> 1, pid |-> 0, id |-> NextId(st)]]} ELSE {})
            \* the last association can be removed (with whatever is queued for it)
            \cup (IF NA > 1 /\ st.A[NA].exists THEN {[k |-> "req", m |-> [k |-> "remove", a |-> NA, id |-> NextId(st)]]} ELSE {})
          ELSE {})
    \cup (IF st.pc \in {"Down", "Dead"} THEN {} ELSE
            (IF st.pc = "Await" THEN {[k |-> "rx", f |-> Resp(st.cur.seq, st.cur.a, "data", {})],
                                      \* an answer the master rejects is link activity all the same
                                      [k |-> "rx", f |-> Resp(st.cur.seq, st.cur.a, "data", {"err"})],
                                      [k |-> "rx", f |-> F(-1, 0, TRUE, TRUE, FALSE, FALSE, st.cur.a, {}, "link", 0)]}
             ELSE {[k |-> "rx", f |-> F(-1, 0, TRUE, TRUE, FALSE, FALSE, 1, {}, "link", 0)]}))
    \cup Timers(st) \cup {[k |-> "adv", dt |-> 500]}

Inputs(st) == CASE Alpha = "resp" -> InputsResp(st) [] Alpha = "startup" -> InputsStartup(st) [] OTHER -> InputsSched(st)

Init == s = Init0 /\ ev = ResetEv /\ m = MStep(MInit, ResetEv, 0) /\ hist = <<>> /\ prev = Init0
Next == /\ Len(hist) < MaxSteps
        /\ \E in \in Inputs(s) :
              LET s1 == Apply(s, in)
                  e == BuildEv(s, in, s1)
              IN s' = s1 /\ ev' = e /\ m' = MStep(m, e, Len(hist) + 1) /\ hist' = Append(hist, in) /\ prev' = s
Spec == Init /\ [][Next]_vars

PViol(mm) == SelectSeq(mm.viol, LAMBDA v : v.prop = MonName)
NoViolation == PViol(m) = <<>>
\* at most one request outstanding, sequence numbers in range
TypeOK == s.pc \in {"Down", "Sched", "Await", "Idle", "Dead"} /\ \A a \in 1..NA : s.A[a].seq \in 0..15
View == <<s, m>>

Cap2(n) == IF n > 2 THEN 2 ELSE n
Cap4(n) == IF n > 4 THEN 4 ELSE n
AbsState(st) ==
    <<st.pc, st.enabled, st.cur.task, st.cur.first,
      [a \in 1..NA |-> <<st.A[a].exists, [n \in DOMAIN st.A[a].auto |-> <<st.A[a].auto[n].st, Cap4(st.A[a].auto[n].last \div 1000)>>],
                         st.A[a].integDone, st.A[a].evAvail,
                         Cap2(Len(st.A[a].queue)), Len(st.A[a].polls), st.A[a].lastUnsol.has>>],
      st.prio, st.idleUntil # NoTime, st.nsess, st.everInteg>>
InKind(h) == IF h = <<>> THEN <<"init">>
             ELSE LET i == h[Len(h)]
                  IN CASE i.k = "rx" -> <<"rx", i.f.fc, i.f.fir, i.f.fin, i.f.con, i.f.src, i.f.iin, i.f.body,
                                          i.f.seq = CurSeq(prev)>>
                       [] i.k = "req" -> <<"req", i.m.k, IF i.m.k = "task" THEN i.m.task.t ELSE "", i.m.a>>
                       [] i.k = "adv" -> <<"adv", i.dt > 50, i.dt > 700>>
                       [] OTHER -> <<i.k>>
\* abstract transition = (abstract source state, input kind, abstract target state)
CoverView == <<AbsState(prev), InKind(hist), AbsState(s)>>
ExportAll == hist = <<>> \/ PrintT(<<"SCENARIO", ToJson(hist)>>)
Export == Len(hist) < MaxSteps \/ PrintT(<<"SCENARIO", ToJson(hist)>>)

\* ---- constant values
A_quiet(addr) == [addr |-> addr, rt |-> 1000, dis |-> FALSE, integ |-> FALSE, en |-> FALSE, tsync |-> "",
                  rmin |-> 1000, rmax |-> 4000, ka |-> -1, ovfInteg |-> FALSE, evscan |-> FALSE, maxq |-> 2, clock |-> TRUE]
A_full(addr) == [addr |-> addr, rt |-> 1000, dis |-> TRUE, integ |-> TRUE, en |-> TRUE, tsync |-> "",
                 rmin |-> 1000, rmax |-> 4000, ka |-> -1, ovfInteg |-> TRUE, evscan |-> FALSE, maxq |-> 2, clock |-> TRUE]
A_ka(addr) == [A_quiet(addr) EXCEPT !.ka = 3000]
Cfg_quiet1 == <<A_quiet(1024)>>
Cfg_full1 == <<A_full(1024)>>
Cfg_quiet2 == <<A_quiet(1024), A_quiet(1025)>>
Cfg_ka2 == <<A_ka(1024), A_quiet(1025)>>
Cfg_quiet3 == <<A_quiet(1024), A_quiet(1025), A_quiet(1026)>>
Cfg_tsync1 == <<[A_full(1024) EXCEPT !.tsync = "nonlan"]>>
Cfg_tlan1 == <<[A_full(1024) EXCEPT !.tsync = "lan"]>>
Cfg_noclock1 == <<[A_quiet(1024) EXCEPT !.clock = FALSE]>>
Cfg_tnoclock1 == <<[A_full(1024) EXCEPT !.tsync = "nonlan", !.clock = FALSE]>>
DEVM_none == {}
DEVM_d9 == {"NoConfirmForNonRead"}
DEVM_d18 == {"LinkStatusTimeoutRearms"}
\* hypothetical deviations: the monitors must find each of them (sensitivity of the monitors)
DEVM_h1 == {"H_AnySeq"}
DEVM_h2 == {"H_OperateAnyReply"}
DEVM_h3 == {"H_SuccessAnyReply"}
DEVM_h4 == {"H_UnsolUngated"}
DEVM_h5 == {"H_NoBackoff"}
DEVM_h6 == {"H_PollsDuringStartup"}
DEVM_h7 == {"H_LifoQueue"}
DEVM_h8 == {"H_PollFirst"}
DEVM_h9 == {"H_PollPeriodFromStart"}
DEVM_h10 == {"H_NoRotate"}
DEVM_h11 == {"H_KeepAliveIgnoresActivity"}
=============================================================================
