------------------------------ MODULE MC_Link ------------------------------
(***************************************************************************)
(* Model checking of the frame reader (Link.tla): every stream built from  *)
(* at most MaxPieces pieces (two frames - one header-only, one with a body *)
(* - and noise bytes of the three classes), optionally with one corrupted  *)
(* byte, split into reads in every possible way.                           *)
(***************************************************************************)
EXTENDS Link, Json

CONSTANTS MaxPieces, Corrupt   \* Corrupt: allow one corrupted frame byte

Kinds == <<"H", "B">>
Pieces == {"F1", "F2", "N1", "N2", "N0"}
PieceBytes(p) == CASE p = "F1" -> FrameBytes(1, "H") [] p = "F2" -> FrameBytes(2, "B")
                   [] p = "N1" -> <<Noise(1)>> [] p = "N2" -> <<Noise(2)>> [] OTHER -> <<Noise(0)>>
RECURSIVE Concat(_)
Concat(ps) == IF ps = <<>> THEN <<>> ELSE PieceBytes(Head(ps)) \o Concat(Tail(ps))

PieceSeqs == UNION {[1..n -> Pieces] : n \in 1..MaxPieces}
\* each frame at most once, at least one frame
GoodSeq(ps) == /\ Cardinality({i \in DOMAIN ps : ps[i] = "F1"}) <= 1
               /\ Cardinality({i \in DOMAIN ps : ps[i] = "F2"}) <= 1
               /\ \E i \in DOMAIN ps : ps[i] \in {"F1", "F2"}

VARIABLES stream, pos, r, chunks
vars == <<stream, pos, r, chunks>>

CorruptAt(bs, i) == [bs EXCEPT ![i].bad = TRUE]

Init == /\ \E ps \in {q \in PieceSeqs : GoodSeq(q)} :
             LET bs == Concat(ps)
             IN stream \in {bs} \cup (IF Corrupt THEN {CorruptAt(bs, i) : i \in {j \in 1..Len(bs) : bs[j].f > 0}} ELSE {})
        /\ pos = 0 /\ r = RInit /\ chunks = <<>>

Next == /\ pos < Len(stream)
        /\ \E n \in 1..(Len(stream) - pos) :
              /\ r' = Step(r, SubSeq(stream, pos + 1, pos + n), Kinds)
              /\ pos' = pos + n
              /\ chunks' = Append(chunks, n)
        /\ UNCHANGED stream

Spec == Init /\ [][Next]_vars

Ref(bs) == IF Datagram THEN <<>> ELSE IF Discard THEN Ideal(bs, Kinds) ELSE IdealClose(bs, Kinds)

\* only intact frames, in stream order, each once
Sound == Datagram \/ IsPrefix(r.out, Ref(SubSeq(stream, 1, pos)))
\* every recoverable frame is delivered however the stream is split
Complete == (pos = Len(stream) /\ ~Datagram) => r.out = Ref(stream)
\* datagram mode: a frame is delivered only if it lay wholly inside one read
RECURSIVE DgRef(_, _)
DgRef(p, cs) == IF cs = <<>> THEN <<>>
                ELSE Ideal(SubSeq(stream, p + 1, p + Head(cs)), Kinds) \o DgRef(p + Head(cs), Tail(cs))
DatagramExact == Datagram => r.out = DgRef(0, chunks)

View == <<stream, pos, r>>
Export == pos < Len(stream) \/ PrintT(<<"SCENARIO", ToJson([stream |-> stream, chunks |-> chunks])>>)
DEVL_none == {}
DEVL_d10 == {"DiscardRollbackPerCall"}
=============================================================================
