-------------------------- MODULE Trace_Outstation --------------------------
(***************************************************************************)
(* Conformance of recorded executions to Outstation.tla (code -> spec).    *)
(* Every line of a normalised O-trace is mapped back to the resolved input *)
(* it records (InOf), the specification takes exactly that step (Apply),   *)
(* and the event it predicts is compared field by field with the recorded  *)
(* one (Conform): fragments written (flags, sequence, IIN, objects, time), *)
(* callbacks with their arguments and times, UpdateInfo results, panics.   *)
(* A mismatch is recorded as a divergence (first unmatched line of the     *)
(* scenario) and the rest of that scenario is skipped; a scenario that     *)
(* uses inputs the specification does not model is counted as unmodelled.  *)
(***************************************************************************)
EXTENDS OutstationEv, Json, DevSets, IOUtils

Rec == ndJsonDeserialize(IOEnv.TRACE)

VARIABLES l, s, sc, mode, lastReq, res
tvars == <<l, s, sc, mode, lastReq, res>>
\* mode: "run" | "skip"      res: [ok, div, unmodelled] (sequences of records)

PointOf(ty, ix) == IF \E p \in 1..NP : Pts[p].ty = ty /\ Pts[p].ix = ix
                     THEN CHOOSE p \in 1..NP : Pts[p].ty = ty /\ Pts[p].ix = ix ELSE 0

HdrTok(h) == CASE h.g = 60 /\ h.v = 1 /\ h.q = 6 -> [n |-> "c0", lim |-> -1, v |-> 0]
               [] h.g = 60 /\ h.v \in 2..4 /\ h.q = 6 -> [n |-> "c" \o ToString(h.v - 1), lim |-> -1, v |-> 0]
               [] h.g = 60 /\ h.v \in 2..4 /\ h.q = 7 -> [n |-> "c" \o ToString(h.v - 1), lim |-> h.a, v |-> 0]
               [] h.g = 2 /\ h.v \in {0, 1} /\ h.q = 6 /\ (\E p \in 1..NP : Pts[p].ty = "bi") ->
                    [n |-> "bi", lim |-> -1, v |-> h.v]
               [] OTHER -> [n |-> "?", lim |-> -1, v |-> 0]
ClsOf(hdrs) == {hdrs[i].v - 1 : i \in {j \in 1..Len(hdrs) : hdrs[j].g = 60 /\ hdrs[j].v \in 2..4 /\ hdrs[j].q = 6}}

\* the object set of a freeze request (see Outstation.tla)
FrzOb(hdrs) ==
    LET g20 == [g |-> 20, v |-> 0, q |-> 6, a |-> -1, b |-> -1]
        g30 == [g |-> 30, v |-> 0, q |-> 6, a |-> -1, b |-> -1]
    IN CASE hdrs = <<g20>> -> "all" [] hdrs = <<[g |-> 20, v |-> 0, q |-> 0, a |-> 0, b |-> 1]>> -> "rng"
         [] hdrs = <<g20, g30>> -> "gb" [] hdrs = <<g30, g20>> -> "bg" [] hdrs = <<g30>> -> "bad"
         [] hdrs = <<[g |-> 50, v |-> 2, q |-> 7, a |-> 1, b |-> -1], g20>> -> "timed"
         [] OTHER -> "?"

\* the resolved input a line records, or [k |-> "?"] when the specification has no such input
InOf(e) ==
    CASE e.k \in {"conn", "cut"} -> [k |-> e.k]
      [] e.k = "adv" -> [k |-> "adv", dt |-> e.dt]
      [] e.k = "upd" ->
            IF Len(e.items) = 1 /\ PointOf(e.items[1].ty, e.items[1].ix) # 0 /\ e.items[1].mode = "force"
              THEN [k |-> "upd", p |-> PointOf(e.items[1].ty, e.items[1].ix)]
              ELSE [k |-> "?"]
      [] e.k = "app" ->
            LET set == {b \in {"time", "local", "trouble", "cfg"} : e.app[b] # -1}
            IN IF Cardinality(set) # 1 THEN [k |-> "?"]
               ELSE LET b == CHOOSE x \in set : TRUE IN [k |-> "app", bit |-> b, on |-> e.app[b] = 1]
      [] e.k = "rx" ->
            IF e.dst \notin {"U", "BC_OPT", "BC_MAN", "BC_NR"} \/ ~e.fir \/ ~e.fin \/ e.con THEN [k |-> "?"]
            ELSE LET rep == e.bid = lastReq.bid /\ e.seq = lastReq.seq
                     adr == [src |-> e.src, dst |-> e.dst]
                     isCtl == e.fc \in {3, 4, 5, 6} /\ Len(e.hdrs) = 1 /\ e.hdrs[1].g = 12 /\ e.hdrs[1].q \in {23, 40}
                                /\ Len(e.robjs) = 1 /\ e.robjs[1].ix \in {1, 2}
                                /\ (e.hdrs[1].q = 23 \/ e.robjs[1].ix = 1)
                     req(f, cl, ob, bad) == [k |-> "req", f |-> f, seq |-> e.seq, cl |-> cl, rep |-> rep,
                                             ob |-> ob, bad |-> bad] @@ adr
                 IN CASE e.fc = 0 /\ e.dst = "U" -> [k |-> "conf", uns |-> e.uns, seq |-> e.seq, src |-> e.src]
                      [] e.fc = 0 -> [k |-> "?"]
                      [] e.uns -> [k |-> "?"]
                      [] e.cls = "unkfn" -> req("unkfn", {}, "", "unkfn")
                      [] e.cls = "badobj" /\ e.fc = 1 ->
                           [k |-> "read", seq |-> e.seq, hs |-> <<>>, rep |-> rep, ob |-> "", bad |-> "badobj"] @@ adr
                      [] ~e.wf -> [k |-> "?"]
                      [] e.fc = 1 ->
                           LET hs == [i \in 1..Len(e.hdrs) |-> HdrTok(e.hdrs[i])]
                           IN IF \E i \in 1..Len(hs) : hs[i].n = "?" THEN [k |-> "?"]
                              ELSE [k |-> "read", seq |-> e.seq, hs |-> hs, rep |-> rep, ob |-> "", bad |-> ""] @@ adr
                      [] e.fc = 23 /\ e.hdrs = <<>> -> req("delay", {}, "", "")
                      [] e.fc = 24 /\ e.hdrs = <<>> -> req("record", {}, "", "")
                      [] e.fc \in {13, 14} /\ e.hdrs = <<>> -> req(IF e.fc = 13 THEN "cold" ELSE "warm", {}, "", "")
                      [] e.fc = 2 /\ Len(e.robjs) = 1 /\ e.robjs[1].g = 50 /\ e.robjs[1].v \in {1, 3} /\ e.robjs[1].tm = "5000" ->
                           req(IF e.robjs[1].v = 1 THEN "wtabs" ELSE "wtlast", {}, "", "")
                      [] e.fc \in {20, 21} /\ ClsOf(e.hdrs) # {} /\ Cardinality(ClsOf(e.hdrs)) = Len(e.hdrs) ->
                           req(IF e.fc = 20 THEN "enable" ELSE "disable", ClsOf(e.hdrs), "", "")
                      [] isCtl ->
                           req(CASE e.fc = 3 -> "select" [] e.fc = 4 -> "operate" [] e.fc = 5 -> "dop"
                                 [] OTHER -> "dopnr", {},
                               IF e.hdrs[1].q = 40 THEN "a2" ELSE IF e.robjs[1].ix = 1 THEN "a" ELSE "b", "")
                      [] e.fc \in 7..12 /\ FrzOb(e.hdrs) # "?" /\ (FrzOb(e.hdrs) = "timed" => e.fc \in {11, 12})
                           /\ (e.fc \in {11, 12} => FrzOb(e.hdrs) \in {"timed", "all"}) ->
                           LET ob == FrzOb(e.hdrs)
                               f == CASE e.fc = 7 -> "frz" [] e.fc = 8 -> "frznr" [] e.fc = 9 -> "frzclr"
                                      [] e.fc = 10 -> "frzclrnr" [] e.fc = 11 -> "frzat" [] OTHER -> "frzatnr"
                           IN req(f, {}, ob, IF ob \in {"gb", "bg", "bad"} \/ (e.fc \in {11, 12} /\ ob = "all")
                                               THEN "reject" ELSE "")
                      [] e.fc = 2 /\ Len(e.robjs) = 1 /\ e.robjs[1].g = 80 /\ e.robjs[1].ix = 7
                           /\ e.robjs[1].val = "0" -> req("write_rst", {}, "", "")
                      [] e.fc = 2 /\ Len(e.robjs) = 2 /\ e.robjs[1].g = 80 /\ e.robjs[2].g = 80 /\ e.robjs[1].val = "0"
                           /\ e.robjs[2].val = "0" /\ {e.robjs[1].ix, e.robjs[2].ix} = {4, 7} ->
                           req("write2", {}, IF e.robjs[1].ix = 4 THEN "bg" ELSE "gb", "reject")
                      [] OTHER -> [k |-> "?"]
      [] OTHER -> [k |-> "?"]

\* projections compared
PObj(o) == [g |-> o.g, v |-> o.v, ix |-> o.ix, ev |-> o.ev, val |-> o.val, fl |-> o.fl, tm |-> o.tm]
PTx(x)  == [t |-> x.t, fc |-> x.fc, seq |-> x.seq, fir |-> x.fir, fin |-> x.fin, con |-> x.con,
            uns |-> x.uns, iin |-> x.iin, objs |-> [i \in 1..Len(x.objs) |-> PObj(x.objs[i])]]
PCb(c)  == [t |-> c.t, k |-> c.k, n |-> c.n, i |-> c.i, s |-> IF c.k = "app" /\ c.n = "freeze" THEN c.s ELSE ""]
PItem(it) == [info |-> it.info, id |-> it.id, disc |-> it.disc]

Differ(pe, e) ==
    IF Len(pe.tx) # Len(e.tx) THEN "tx-count"
    ELSE IF \E i \in 1..Len(e.tx) : PTx(pe.tx[i]) # PTx(e.tx[i]) THEN "tx"
    ELSE IF Len(pe.cb) # Len(e.cb) THEN "cb-count"
    ELSE IF \E i \in 1..Len(e.cb) : PCb(pe.cb[i]) # PCb(e.cb[i]) THEN "cb"
    ELSE IF pe.panic # e.panic THEN "panic"
    ELSE IF e.k = "upd" /\ PItem(pe.items[1]) # PItem(e.items[1]) THEN "update-info"
    ELSE "ok"

TInit == /\ l = 1 /\ s = Init0 /\ sc = "" /\ mode = "skip"
         /\ lastReq = [bid |-> -1, seq |-> -1]
         /\ res = [ok |-> 0, div |-> <<>>, unmodelled |-> <<>>, steps |-> 0, fired |-> <<>>]

EndScenario(r) == IF mode = "run" THEN [r EXCEPT !.ok = @ + 1] ELSE r

TNext ==
    /\ l <= Len(Rec)
    /\ l' = l + 1
    /\ LET e == Rec[l] IN
       IF e.k = "reset" THEN
            /\ s' = Init0 /\ sc' = e.id /\ mode' = "run"
            /\ lastReq' = [bid |-> -1, seq |-> -1]
            /\ res' = EndScenario(res)
       ELSE IF mode = "skip" \/ e.k \in {"dead", "hang", "bad_scenario"} THEN
            UNCHANGED <<s, sc, mode, lastReq, res>>
       ELSE LET in == InOf(e) IN
            IF in.k = "?" THEN
                /\ mode' = "skip"
                /\ res' = [res EXCEPT !.unmodelled = Append(@, [sc |-> sc, line |-> l])]
                /\ UNCHANGED <<s, sc, lastReq>>
            ELSE LET s1 == Apply(s, in)
                     pe == BuildEv(s, in, s1)
                     d  == Differ(pe, e)
                 IN /\ s' = s1 /\ sc' = sc
                    /\ lastReq' = IF e.k = "rx" /\ e.fc # 0 THEN [bid |-> e.bid, seq |-> e.seq]
                                  ELSE IF e.k \in {"cut"} THEN [bid |-> -1, seq |-> -1] ELSE lastReq
                    /\ IF d = "ok" THEN /\ mode' = mode
                                        /\ res' = [res EXCEPT !.steps = @ + 1,
                                                               !.fired = @ \o SetToSeq({[sc |-> sc, line |-> l, dev |-> x] :
                                                                                        x \in s1.devs \ s.devs})]
                       ELSE /\ mode' = "skip"
                            /\ res' = [res EXCEPT !.div = Append(@, [sc |-> sc, line |-> l, what |-> d,
                                                                    devs |-> s1.devs])]


\* ---- constant values (cfg files can only hold simple values)
OsPt(ix, cls, L) == [ty |-> "os", ix |-> ix, cls |-> cls, esz |-> L + 2, ssz |-> L, eg |-> 111,
                     ev |-> L, sg |-> 110, sv |-> L]
BiPt(ix, cls)    == [ty |-> "bi", ix |-> ix, cls |-> cls, esz |-> 9, ssz |-> 1, eg |-> 2,
                     ev |-> 2, sg |-> 1, sv |-> 2]
Pts_os2_cap1 == <<OsPt(0, 1, 130), OsPt(1, 2, 130)>>
Pts_os2_cap2 == <<OsPt(0, 1, 100), OsPt(1, 2, 100)>>
Pts_mixed    == <<BiPt(0, 2), OsPt(0, 1, 130)>>   \* class 0 reports in type order
Pts_os_big   == <<BiPt(0, 2), OsPt(0, 1, 250)>>   \* an octet string larger than a 249-byte fragment
Pts_mixed_pk == <<[BiPt(0, 2) EXCEPT !.sv = 1], OsPt(0, 1, 130)>>   \* the binary input is configured packed (g1v1)
EvMax_os2    == <<0, 0, 0, 0, 0, 0, 0, 2>>
EvMax_os1    == <<0, 0, 0, 0, 0, 0, 0, 1>>
EvMax_mixed  == <<2, 0, 0, 0, 0, 0, 0, 2>>
DEV_DisconnectKeepsWritten == {"DisconnectKeepsWritten"}
DEV_EchoUsesFirstHeader == {"EchoUsesFirstHeader"}
DEV_OverflowKeepsWrittenCount == {"OverflowKeepsWrittenCount"}
DEV_UnsolAbortKeepsWritten == {"UnsolAbortKeepsWritten"}
DEV_asbuilt  == {"UnsolAbortKeepsWritten", "OverflowKeepsWrittenCount", "EchoUsesFirstHeader",
                 "DisconnectKeepsWritten", "IdleRepeatRefreshesIin"}
CZ_os        == {"os", "bi"}
Cl123        == {1, 2, 3}


TSpec == TInit /\ [][TNext]_tvars

Done == l <= Len(Rec) \/ JsonSerialize(IOEnv.OUT, [lines |-> Len(Rec), res |-> EndScenario(res)])
=============================================================================
