---------------------------- MODULE OutstationEv ----------------------------
(***************************************************************************)
(* The event (trace line) that one applied stimulus of Outstation.tla      *)
(* produces, in the alphabet of lib/norm.py - shared by the model-checking *)
(* configurations (monitors in lock-step) and the trace specification      *)
(* (conformance of recorded executions).                                   *)
(***************************************************************************)
EXTENDS Outstation

\* the configuration record the monitors read (same shape as lib/norm.py norm_cfg)
ModelCfg ==
    [oaddr |-> 1024, maddr |-> 1, sol_buf |-> SolBudget + 4, unsol_buf |-> UnsolBudget + 4,
     rx_buf |-> 2048, confirm_to |-> ConfirmTO, select_to |-> SelectTO, unsol |-> UnsolOn,
     broadcast |-> TRUE, self_addr |-> FALSE, any_master |-> FALSE, retries |-> Retries,
     retry_delay |-> RetryDelay, keep_alive |-> -1, max_controls |-> -1,
     evmax |-> EvMax, class_zero |-> <<TRUE, TRUE, TRUE, TRUE, TRUE, TRUE, TRUE, TRUE>>,
     points |-> [i \in 1..NP |-> [ty |-> Pts[i].ty, ix |-> Pts[i].ix, cls |-> Pts[i].cls,
                                  svar |-> Pts[i].sv, evar |-> Pts[i].ev, init |-> InitVal(i)]],
     close |-> TRUE,
     app |-> [time |-> FALSE, local |-> FALSE, trouble |-> FALSE, cfg |-> FALSE]]

HdrRec(h) ==
    IF h.n = "bi" THEN [g |-> 2, v |-> h.v, q |-> IF h.lim >= 0 THEN 7 ELSE 6, a |-> h.lim, b |-> -1]
    ELSE
    LET v == CASE h.n = "c0" -> 1 [] h.n = "c1" -> 2 [] h.n = "c2" -> 3 [] OTHER -> 4
    IN [g |-> 60, v |-> v, q |-> IF h.lim >= 0 THEN 7 ELSE 6, a |-> h.lim, b |-> -1]
ClsHdrs(cl) == [i \in 1..Cardinality(cl) |->
                  LET c == CHOOSE c \in cl : Cardinality({d \in cl : d < c}) = i - 1
                  IN [g |-> 60, v |-> c + 1, q |-> 6, a |-> -1, b |-> -1]]

\* the event (trace line) of one applied stimulus
BuildEv(s0, in, s1) ==
    LET base == [k |-> in.k, t |-> s0.now, cls |-> "ok", tag |-> "", tx |-> s1.otx, ltx |-> <<>>,
                 cb |-> SelectSeq(s1.ocb, LAMBDA c : c.k # "panic"),
                 panic |-> s1.pc = "Dead" /\ s0.pc # "Dead", pmsg |-> "", ended |-> FALSE,
                 eof |-> FALSE, sess |-> <<>>, txerr |-> 0]
        rxf(fc, seq, uns, hdrs, bid) ==
            [k |-> "rx", fc |-> fc, seq |-> seq, fir |-> TRUE, fin |-> TRUE, con |-> FALSE,
             uns |-> uns, bid |-> bid, obid |-> bid, wf |-> TRUE, len |-> 2, hdrs |-> hdrs,
             robjs |-> <<>>, src |-> "M", dst |-> "U", noconn |-> s0.pc = "Down"]
    IN CASE in.k = "upd" ->
              LET n == s1.nupd
                  created == s1.nextId > s0.nextId
                  id == s0.nextId
                  lost == {s0.events[i].id : i \in 1..Len(s0.events)}
                            \ {s1.events[i].id : i \in 1..Len(s1.events)}
                  it == [ty |-> Pts[in.p].ty, ix |-> Pts[in.p].ix, val |-> UpdVal(in.p, n),
                         fl |-> 1, tm |-> UpdTm(n), tq |-> "s", static |-> TRUE, mode |-> "force",
                         info |-> IF ~created THEN "noevent" ELSE IF lost # {} THEN "overflow" ELSE "created",
                         id |-> IF created THEN id ELSE -1,
                         disc |-> IF lost # {} THEN CHOOSE x \in lost : TRUE ELSE -1]
              IN base @@ [items |-> <<it>>]
         [] in.k = "adv" -> base @@ [dt |-> in.dt]
         [] in.k \in {"read", "req"} ->
              \* the fragment as sent (a repeat re-sends the previous bytes)
              LET b == IF s0.pc \in {"Down", "Dead"} THEN
                          [k |-> IF in.k = "read" THEN "read" ELSE in.f, seq |-> in.seq,
                           hs |-> IF in.k = "read" THEN in.hs ELSE <<>>,
                           cl |-> IF in.k = "req" THEN in.cl ELSE {},
                           ob |-> Fld(in, "ob", ""), bad |-> Fld(in, "bad", "")]
                       ELSE s1.mlast
                  isCtl == b.k \in {"select", "operate", "dop", "dopnr"}
                  hdrs == CASE b.k = "read" /\ b.bad = "" -> [i \in 1..Len(b.hs) |-> HdrRec(b.hs[i])]
                            [] b.k \in {"enable", "disable"} -> ClsHdrs(b.cl)
                            [] isCtl -> <<[g |-> 12, v |-> 1, q |-> IF b.ob = "a2" THEN 40 ELSE 23, a |-> 1, b |-> -1]>>
                            [] b.k = "write_rst" -> <<[g |-> 80, v |-> 1, q |-> 0, a |-> 7, b |-> 7]>>
                            [] b.k = "wtabs" -> <<[g |-> 50, v |-> 1, q |-> 7, a |-> 1, b |-> -1]>>
                            [] b.k = "wtlast" -> <<[g |-> 50, v |-> 3, q |-> 7, a |-> 1, b |-> -1]>>
                            [] b.k = "write2" ->
                                 LET h(i) == [g |-> 80, v |-> 1, q |-> 0, a |-> i, b |-> i]
                                 IN IF b.ob = "bg" THEN <<h(4), h(7)>> ELSE <<h(7), h(4)>>
                            [] b.k \in FrzFns ->
                                 LET g20 == [g |-> 20, v |-> 0, q |-> 6, a |-> -1, b |-> -1]
                                     g30 == [g |-> 30, v |-> 0, q |-> 6, a |-> -1, b |-> -1]
                                 IN CASE b.ob = "rng" -> <<[g |-> 20, v |-> 0, q |-> 0, a |-> 0, b |-> 1]>>
                                      [] b.ob = "gb" -> <<g20, g30>> [] b.ob = "bg" -> <<g30, g20>>
                                      [] b.ob = "bad" -> <<g30>>
                                      [] b.ob = "timed" -> <<[g |-> 50, v |-> 2, q |-> 7, a |-> 1, b |-> -1], g20>>
                                      [] OTHER -> <<g20>>
                            [] OTHER -> <<>>
                  robjs == CASE isCtl -> <<CtlObj(b.ob, 0)>>
                             [] b.k = "write_rst" ->
                                  <<[g |-> 80, v |-> 1, ix |-> 7, ty |-> "", ev |-> FALSE, val |-> "0",
                                     fl |-> -1, tm |-> "", tq |-> "", st |-> -1]>>
                             [] b.k \in {"wtabs", "wtlast"} ->
                                  <<[g |-> 50, v |-> IF b.k = "wtabs" THEN 1 ELSE 3, ix |-> -1, ty |-> "", ev |-> FALSE,
                                     val |-> "", fl |-> -1, tm |-> "5000", tq |-> "", st |-> -1]>>
                             [] b.k = "write2" ->
                                  LET o(i) == [g |-> 80, v |-> 1, ix |-> i, ty |-> "", ev |-> FALSE, val |-> "0",
                                               fl |-> -1, tm |-> "", tq |-> "", st |-> -1]
                                  IN IF b.ob = "bg" THEN <<o(4), o(7)>> ELSE <<o(7), o(4)>>
                             [] OTHER -> <<>>
                  bid == Intern(s0, b).id + 1000
                  r == rxf(FcOf(b.k), b.seq, FALSE, hdrs, bid)
              IN [r EXCEPT !.src = Fld(in, "src", "M"), !.dst = Fld(in, "dst", "U"),
                           !.wf = b.bad # "badobj", !.robjs = robjs,
                           !.obid = IF isCtl THEN 2000 + CtlIx(b.ob) + (IF b.ob = "a2" THEN 10 ELSE 0) ELSE bid]
                 @@ [base EXCEPT !.cls = IF b.bad # "" THEN b.bad ELSE "ok"]
         [] in.k = "app" ->
              base @@ [app |-> [b \in {"time", "local", "trouble", "cfg"} |-> IF b = in.bit THEN (IF in.on THEN 1 ELSE 0) ELSE -1]]
         [] in.k = "conf" -> [rxf(0, in.seq, in.uns, <<>>, 999) EXCEPT !.src = Fld(in, "src", "M")] @@ base
         [] OTHER -> base

ResetEv == [k |-> "reset", t |-> 0, cls |-> "", tag |-> "", id |-> "mc", cfg |-> ModelCfg]

=============================================================================
