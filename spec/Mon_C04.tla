------------------------------ MODULE Mon_C04 ------------------------------
(***************************************************************************)
(* C04 - OPERATE actuates only after its own matching, fresh, directly     *)
(* preceding SELECT.  The monitor keeps a window over the application      *)
(* fragments the outstation received.  For an OPERATE it derives           *)
(*    must     the directly preceding fragment was the SELECT, which       *)
(*             succeeded for byte-identical objects, the OPERATE carries   *)
(*             the next sequence number, arrives within the select timeout *)
(*             and no reconnect intervened                                 *)
(*    mustnot  one of those conjuncts is plainly false                     *)
(*    (neither: only retransmissions of the SELECT intervened - the        *)
(*     statement allows but does not require execution; or the OPERATE is  *)
(*     itself a retransmission, which is C05's concern)                    *)
(* and compares with the ControlHandler operate callbacks and the statuses *)
(* echoed in the response.                                                 *)
(***************************************************************************)
EXTENDS MonBase

NoSel == [has |-> FALSE, seq |-> -1, obid |-> -1, t0 |-> 0, tlast |-> 0, ok |-> FALSE, bid |-> -1,
          adjacent |-> FALSE,   \* the SELECT (or a retransmission of it) is the last fragment received
          pure |-> FALSE]       \* ... and it is the original SELECT itself (no retransmission since)

MonInit == [cfg |-> [select_to |-> 5000, any_master |-> FALSE, self_addr |-> FALSE], sc |-> "",
            viol |-> <<>>, sel |-> NoSel, last |-> [bid |-> -1, seq |-> -1, fc |-> -1]]

V(m, reason, l, ctx) == [m EXCEPT !.viol = IF Len(@) >= 300 THEN @ ELSE Append(@, Viol("C04", reason, l, m.sc, ctx))]

\* operate callbacks of type select-before-operate (the last integer of the callback is the
\* operate type: 1 = SelectBeforeOperate, 2 = DirectOperate, 3 = DirectOperateNoAck)
SboOps(e) == SelectSeq(e.cb, LAMBDA c : c.k = "ctl" /\ c.n = "operate" /\ c.i # <<>> /\ c.i[Len(c.i)] = 1)
\* statuses echoed for this request
Echo(e) == LET rs == SelectSeq(e.tx, LAMBDA x : ~x.uns /\ x.fir /\ x.seq = e.seq)
           IN IF rs = <<>> THEN <<>> ELSE SelectSeq(rs[1].objs, LAMBDA o : o.st # -1)
ReplyOf(e) == SelectSeq(e.tx, LAMBDA x : ~x.uns /\ x.fir /\ x.seq = e.seq)

MonStep(m, e, l) ==
    IF e.k = "reset" THEN [MonInit EXCEPT !.cfg = e.cfg, !.sc = e.id, !.viol = m.viol]
    ELSE IF ~HasOutputs(e) THEN m
    ELSE IF e.k \in {"cut", "conn"} THEN [m EXCEPT !.sel = NoSel, !.last = [bid |-> -1, seq |-> -1, fc |-> -1]]
    ELSE IF e.k # "rx" \/ e.noconn THEN m
    ELSE
    \* every application fragment delivered to the outstation counts as "received"
    LET mine == SrcOk(e, m.cfg) /\ Unicast(e, m.cfg)
        \* a retransmission of the SELECT in the sense of C05: same bytes and sequence number as the
        \* request processed last (confirms and fragments that are not executed do not count)
        isRetransSel == mine /\ m.sel.has /\ e.fc = 3 /\ e.bid = m.sel.bid /\ e.seq = m.sel.seq
                        /\ m.last.bid = e.bid /\ m.last.seq = e.seq
        isRetransOp  == mine /\ e.fc = 4 /\ e.bid = m.last.bid /\ e.seq = m.last.seq /\ m.last.fc = 4
    IN
    IF mine /\ e.fc = 4 /\ e.wf /\ ~e.panic THEN
        LET ops == Len(SboOps(e))
            echo == Echo(e)
            s == m.sel
            conj == s.has /\ s.ok /\ s.adjacent /\ e.obid = s.obid /\ e.seq = Seq16(s.seq + 1)
            must == conj /\ s.pure /\ e.t - s.t0 <= m.cfg.select_to - 2
            \* the age counts from the SELECT that was executed, not from its retransmissions
            mustnot == ~isRetransOp /\ (~conj \/ e.t - s.t0 > m.cfg.select_to + 2)
            nobj == Len(SelectSeq(e.robjs, LAMBDA o : o.g \in {12, 41}))
            m1 == IF isRetransOp /\ ops > 0
                    THEN V(m, "operated-twice", l, "retransmitted OPERATE actuated again") ELSE m
            m2 == IF mustnot /\ ops > 0
                    THEN V(m1, "operated-without-select", l,
                           "OPERATE reached the control handler without its own fresh adjacent SELECT") ELSE m1
            m3 == IF mustnot /\ \E i \in 1..Len(echo) : echo[i].st = 0
                    THEN V(m2, "success-status", l, "OPERATE answered SUCCESS without a matching SELECT") ELSE m2
            m4 == IF must /\ ops # nobj
                    THEN V(m3, IF ops < nobj THEN "not-operated" ELSE "operated-twice", l,
                           "SELECT directly followed by its matching OPERATE must actuate exactly once") ELSE m3
        IN [m4 EXCEPT !.sel.adjacent = FALSE, !.sel.pure = FALSE,
                      !.last = [bid |-> e.bid, seq |-> e.seq, fc |-> e.fc]]
    ELSE IF mine /\ e.fc = 3 /\ e.wf /\ ~isRetransSel THEN
        \* a new SELECT: did it succeed for every object?
        LET rp == ReplyOf(e)
            echo == Echo(e)
            nobj == Len(SelectSeq(e.robjs, LAMBDA o : o.g \in {12, 41}))
            ok == rp # <<>> /\ ~Iin2Err(rp[1]) /\ Len(echo) = nobj /\ nobj > 0
                  /\ \A i \in 1..Len(echo) : echo[i].st = 0
        IN [m EXCEPT !.sel = [has |-> TRUE, seq |-> e.seq, obid |-> e.obid, t0 |-> e.t, tlast |-> e.t,
                              ok |-> ok, bid |-> e.bid, adjacent |-> TRUE, pure |-> TRUE],
                     !.last = [bid |-> e.bid, seq |-> e.seq, fc |-> e.fc]]
    ELSE IF isRetransSel THEN
        \* allowed, not required, to keep the pair alive
        [m EXCEPT !.sel.tlast = e.t, !.sel.pure = FALSE, !.sel.adjacent = TRUE,
                  !.last = [bid |-> e.bid, seq |-> e.seq, fc |-> e.fc]]
    ELSE
        \* any other fragment (a confirm, a broadcast, another master's, malformed ...) breaks adjacency
        [m EXCEPT !.sel.adjacent = FALSE, !.sel.pure = FALSE,
                  \* (whether a rejected request counts as "processed last" is not determined: a
                  \*  retransmission of the request before it is accepted either way)
                  !.last = IF mine /\ e.fc # 0 /\ ProcessedNow(e) /\ e.wf /\ e.cls = "ok"
                             THEN [bid |-> e.bid, seq |-> e.seq, fc |-> e.fc] ELSE @]

Claimed == {"C04"}
=============================================================================
