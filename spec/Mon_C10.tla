------------------------------ MODULE Mon_C10 ------------------------------
(***************************************************************************)
(* C10 - measurement values survive the trip from the outstation database  *)
(* to the master's handler.                                                *)
(*                                                                         *)
(* One line per scenario: the points of one type (configured static and    *)
(* event variation), their final values (pts, by index) and the events in  *)
(* creation order (evs) as written into the real outstation database, and  *)
(* what the master's extraction delivered for the static objects (sitems)  *)
(* and event objects (eitems) of the outstation's responses.               *)
(*   extract-failed     the response did not parse / extract               *)
(*   static-count / event-count                                            *)
(*                      an object missing, duplicated or invented          *)
(*   packed-not-online  a packed variation used for a point whose flags    *)
(*                      are not plainly ONLINE (or the flagged one used    *)
(*                      without need, or another variation than the one    *)
(*                      configured)                                        *)
(*   static-value / event-value                                            *)
(*                      index, value, flags (with OVER_RANGE exactly when  *)
(*                      the value saturated), time or time quality differ  *)
(*                      from what the variation can carry (Values.tla)     *)
(***************************************************************************)
EXTENDS Values

MonInit == [viol |-> <<>>, n |-> 0]
V(m, reason, l, e, ctx) == [m EXCEPT !.viol = IF Len(@) >= 300 THEN @ ELSE Append(@, [prop |-> "C10", reason |-> reason, line |-> l, sc |-> e.id, ctx |-> ctx])]

BadStatic(e) == {i \in 1..Len(e.pts) :
                    LET it == e.sitems[i] p == e.pts[i]
                    IN ~ItemOk(e.ty, it.g, it.v, p, it)}
WrongVar(e) == {i \in 1..Len(e.pts) :
                    LET it == e.sitems[i] p == e.pts[i]
                    IN it.g # StaticGroup(e.ty) \/ it.v # WireStaticVar(e.ty, e.sv, p.fl)}
BadEvent(e) == {i \in 1..Len(e.evs) :
                    LET it == e.eitems[i] p == e.evs[i]
                    IN it.g # EventGroup(e.ty) \/ it.v # e.ev \/ ~ItemOk(e.ty, it.g, it.v, p, it)}

MonStep(m, e, l) ==
    IF e.k # "vals" THEN m
    ELSE
    LET m0 == [m EXCEPT !.n = @ + 1] IN
    IF e.err # "" THEN V(m0, "extract-failed", l, e, e.err)
    ELSE IF Len(e.sitems) # Len(e.pts) THEN V(m0, "static-count", l, e, "")
    ELSE IF Len(e.eitems) # Len(e.evs) THEN V(m0, "event-count", l, e, "")
    ELSE IF WrongVar(e) # {} THEN V(m0, "packed-not-online", l, e, ToString(CHOOSE i \in WrongVar(e) : TRUE))
    ELSE IF BadStatic(e) # {} THEN V(m0, "static-value", l, e, ToString(CHOOSE i \in BadStatic(e) : TRUE))
    ELSE IF BadEvent(e) # {} THEN V(m0, "event-value", l, e, ToString(CHOOSE i \in BadEvent(e) : TRUE))
    ELSE m0
=============================================================================
