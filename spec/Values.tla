------------------------------- MODULE Values -------------------------------
(***************************************************************************)
(* What a static or event variation of the DNP3 object library can carry   *)
(* of a measurement (IEEE 1815, object library), as tables and operators   *)
(* over value tokens: the reference for C10.                               *)
(*                                                                         *)
(* TLC computes with 32-bit integers and has no floats; values are         *)
(* therefore named tokens (boundary values of every representation) and    *)
(* the conversions are finite tables.  The harness maps tokens to the      *)
(* numbers they name and recorded numbers back to tokens by exact          *)
(* equality (lib/values.py).                                               *)
(***************************************************************************)
EXTENDS Naturals, Integers, Sequences, FiniteSets, TLC

\* ---- variations: [w: width of the value, fl: carries a flag octet, tm: "none" | "abs" | "rel", packed]
Var(w, fl, tm, packed) == [w |-> w, fl |-> fl, tm |-> tm, packed |-> packed]
NoVar == Var("?", FALSE, "none", FALSE)

VarOf(g, v) ==
    CASE g \in {1, 10} /\ v = 1 -> Var("bit", FALSE, "none", TRUE)
      [] g \in {1, 10} /\ v = 2 -> Var("bit", TRUE, "none", FALSE)
      [] g = 3 /\ v = 1 -> Var("bit2", FALSE, "none", TRUE)
      [] g = 3 /\ v = 2 -> Var("bit2", TRUE, "none", FALSE)
      [] g \in {2, 11} /\ v = 1 -> Var("bit", TRUE, "none", FALSE)
      [] g \in {2, 11} /\ v = 2 -> Var("bit", TRUE, "abs", FALSE)
      [] g = 2 /\ v = 3 -> Var("bit", TRUE, "rel", FALSE)
      [] g = 4 /\ v = 1 -> Var("bit2", TRUE, "none", FALSE)
      [] g = 4 /\ v = 2 -> Var("bit2", TRUE, "abs", FALSE)
      [] g = 4 /\ v = 3 -> Var("bit2", TRUE, "rel", FALSE)
      [] g \in {20, 21, 22, 23} /\ v = 1 -> Var("u32", TRUE, "none", FALSE)
      [] g \in {20, 21, 22, 23} /\ v = 2 -> Var("u16", TRUE, "none", FALSE)
      [] (g = 20 /\ v = 5) \/ (g = 21 /\ v = 9) -> Var("u32", FALSE, "none", FALSE)
      [] (g = 20 /\ v = 6) \/ (g = 21 /\ v = 10) -> Var("u16", FALSE, "none", FALSE)
      [] g \in {21, 22, 23} /\ v = 5 -> Var("u32", TRUE, "abs", FALSE)
      [] g \in {21, 22, 23} /\ v = 6 -> Var("u16", TRUE, "abs", FALSE)
      [] g \in {30, 32, 40, 42} /\ v = 1 -> Var("i32", TRUE, "none", FALSE)
      [] g \in {30, 32, 40, 42} /\ v = 2 -> Var("i16", TRUE, "none", FALSE)
      [] g = 30 /\ v = 3 -> Var("i32", FALSE, "none", FALSE)
      [] g = 30 /\ v = 4 -> Var("i16", FALSE, "none", FALSE)
      [] (g = 30 /\ v = 5) \/ (g = 40 /\ v = 3) \/ (g \in {32, 42} /\ v = 5) -> Var("f32", TRUE, "none", FALSE)
      [] (g = 30 /\ v = 6) \/ (g = 40 /\ v = 4) \/ (g \in {32, 42} /\ v = 6) -> Var("f64", TRUE, "none", FALSE)
      [] g \in {32, 42} /\ v = 3 -> Var("i32", TRUE, "abs", FALSE)
      [] g \in {32, 42} /\ v = 4 -> Var("i16", TRUE, "abs", FALSE)
      [] g \in {32, 42} /\ v = 7 -> Var("f32", TRUE, "abs", FALSE)
      [] g \in {32, 42} /\ v = 8 -> Var("f64", TRUE, "abs", FALSE)
      [] OTHER -> NoVar

StaticGroup(ty) == CASE ty = "bi" -> 1 [] ty = "dbi" -> 3 [] ty = "bos" -> 10 [] ty = "ctr" -> 20 [] ty = "fctr" -> 21
                     [] ty = "ai" -> 30 [] ty = "aos" -> 40 [] OTHER -> 0
EventGroup(ty) == CASE ty = "bi" -> 2 [] ty = "dbi" -> 4 [] ty = "bos" -> 11 [] ty = "ctr" -> 22 [] ty = "fctr" -> 23
                    [] ty = "ai" -> 32 [] ty = "aos" -> 42 [] OTHER -> 0
StaticVars(ty) == CASE ty \in {"bi", "dbi", "bos"} -> {1, 2} [] ty = "ctr" -> {1, 2, 5, 6} [] ty = "fctr" -> {1, 2, 5, 6, 9, 10}
                    [] ty = "ai" -> 1..6 [] ty = "aos" -> 1..4 [] OTHER -> {}
EventVars(ty) == CASE ty \in {"bi", "dbi"} -> {1, 2, 3} [] ty = "bos" -> {1, 2} [] ty \in {"ctr", "fctr"} -> {1, 2, 5, 6}
                   [] ty \in {"ai", "aos"} -> 1..8 [] OTHER -> {}
Types == {"bi", "dbi", "bos", "ctr", "fctr", "ai", "aos"}

\* ---- analog value tokens and their conversions.  R(v, over): the value token carried and whether OVER_RANGE must be set
R(v, over) == [v |-> v, over |-> over]
AnalogTokens == {"z0", "p1", "m1", "p3_5", "m3_5", "p0_1", "p32767", "p32768", "m32768", "m32769", "p16777217",
                 "p2147483647", "p2147483648", "m2147483648", "m2147483649", "f32max", "pbig", "mbig", "pinf", "minf", "nan"}

\* conversions return the SET of acceptable results (the standard leaves rounding of fractions open)
ToI16(t) ==
    CASE t \in {"z0", "p1", "m1", "p32767", "m32768"} -> {R(t, FALSE)}
      [] t = "p3_5" -> {R("p3", FALSE), R("p4", FALSE)}
      [] t = "m3_5" -> {R("m3", FALSE), R("m4", FALSE)}
      [] t = "p0_1" -> {R("z0", FALSE)}
      [] t \in {"p32768", "p16777217", "p2147483647", "p2147483648", "f32max", "pbig", "pinf"} -> {R("p32767", TRUE)}
      [] t \in {"m32769", "m2147483648", "m2147483649", "mbig", "minf"} -> {R("m32768", TRUE)}
      [] t = "nan" -> {R(x, TRUE) : x \in {"z0", "p32767", "m32768"}}
      [] OTHER -> {}
ToI32(t) ==
    CASE t \in {"z0", "p1", "m1", "p32767", "p32768", "m32768", "m32769", "p16777217", "p2147483647", "m2147483648"} -> {R(t, FALSE)}
      [] t = "p3_5" -> {R("p3", FALSE), R("p4", FALSE)}
      [] t = "m3_5" -> {R("m3", FALSE), R("m4", FALSE)}
      [] t = "p0_1" -> {R("z0", FALSE)}
      [] t \in {"p2147483648", "f32max", "pbig", "pinf"} -> {R("p2147483647", TRUE)}
      [] t \in {"m2147483649", "mbig", "minf"} -> {R("m2147483648", TRUE)}
      [] t = "nan" -> {R(x, TRUE) : x \in {"z0", "p2147483647", "m2147483648"}}
      [] OTHER -> {}
ToF32(t) ==
    CASE t \in {"z0", "p1", "m1", "p3_5", "m3_5", "p32767", "p32768", "m32768", "m32769", "p2147483648", "m2147483648", "f32max", "nan"} -> {R(t, FALSE)}
      [] t = "p0_1" -> {R("p0_1f", FALSE)}
      [] t = "p16777217" -> {R("p16777216", FALSE)}
      [] t = "p2147483647" -> {R("p2147483648", FALSE)}
      [] t = "m2147483649" -> {R("m2147483648", FALSE)}
      [] t = "pbig" -> {R("f32max", TRUE)}
      [] t = "mbig" -> {R("mf32max", TRUE)}
      [] t = "pinf" -> {R("pinf", FALSE), R("f32max", TRUE)}
      [] t = "minf" -> {R("minf", FALSE), R("mf32max", TRUE)}
      [] OTHER -> {}
AnalogRep(t, w) == CASE w = "i16" -> ToI16(t) [] w = "i32" -> ToI32(t) [] w = "f32" -> ToF32(t) [] w = "f64" -> {R(t, FALSE)} [] OTHER -> {}

\* ---- counters: a 16-bit variation keeps the low 16 bits
CounterTokens == {"c0", "c1", "c65535", "c65536", "c65537", "c4294967295"}
Low16(t) == CASE t = "c65536" -> "c0" [] t = "c65537" -> "c1" [] t = "c4294967295" -> "c65535" [] OTHER -> t
CounterRep(t, w) == IF w = "u16" THEN {R(Low16(t), FALSE)} ELSE {R(t, FALSE)}

\* ---- flags (octets as numbers 0..255)
ONLINE == 1
OVER_RANGE == 32
BitAnd(x, m) == LET RECURSIVE f(_, _, _) f(a, b, p) == IF p > 128 THEN 0 ELSE (IF (a \div p) % 2 = 1 /\ (b \div p) % 2 = 1 THEN p ELSE 0) + f(a, b, 2 * p) IN f(x, m, 1)
BitOr(x, m) == x + m - BitAnd(x, m)
\* bits of the flag octet that are flags proper (the others carry the state of binary / double-bit points on the wire)
FlagMask(ty) == CASE ty \in {"bi", "bos"} -> 127 [] ty = "dbi" -> 63 [] OTHER -> 255
PlainOnline(ty, fl) == BitAnd(fl, FlagMask(ty)) = ONLINE

\* variation actually used on the wire for a configured static variation: packed formats only for plainly ONLINE points
WireStaticVar(ty, sv, fl) == IF ty \in {"bi", "dbi", "bos"} /\ sv = 1 /\ ~PlainOnline(ty, fl) THEN 2 ELSE sv

\* flags the handler must see (masked with FlagMask(ty)): the point's flags, OVER_RANGE added when the value saturated;
\* a variation without flag octet delivers plain ONLINE
FlagsOut(ty, var, fl, over) ==
    IF var.fl THEN BitAnd(IF over THEN BitOr(fl, OVER_RANGE) ELSE fl, FlagMask(ty)) ELSE ONLINE

\* ---- values
ValueRep(ty, var, val) ==
    CASE ty \in {"bi", "dbi", "bos"} -> {R(val, FALSE)}
      [] ty \in {"ctr", "fctr"} -> CounterRep(val, var.w)
      [] OTHER -> AnalogRep(val, var.w)

\* ---- the handler item for a point / event [ix, val, fl, tm, tq] sent with variation (g, v)
\* item: [ty, g, v, ix, val, fl, tm, tq]
ItemOk(ty, g, v, p, item) ==
    LET var == VarOf(g, v) IN
    /\ item.ty = ty /\ item.ix = p.ix
    /\ \E r \in ValueRep(ty, var, p.val) :
          /\ item.val = r.v
          /\ BitAnd(item.fl, FlagMask(ty)) = FlagsOut(ty, var, p.fl, r.over)
    /\ (var.tm = "none" => item.tq = "i")
    /\ (var.tm = "abs" => item.tm = p.tm /\ item.tq # "i")
    /\ (var.tm = "rel" => item.tm = p.tm /\ item.tq = p.tq)
=============================================================================
