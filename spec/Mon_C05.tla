------------------------------ MODULE Mon_C05 ------------------------------
(***************************************************************************)
(* C05 - A retransmitted request is answered from memory and never         *)
(* executed twice; every re-sent fragment is identical to one already      *)
(* transmitted.                                                            *)
(*   - a non-READ fragment with the sequence number and bytes of the       *)
(*     request processed last fires no executing callback and its reply    *)
(*     carries the byte identity of the reply sent before                  *)
(*   - the echo to a READ repeated during a solicited confirm wait, and an *)
(*     unsolicited retry, carry the byte identity of a fragment sent before*)
(***************************************************************************)
EXTENDS EvLedger

MonInit == [L |-> LInit([confirm_to |-> 5000,
                         app |-> [time |-> FALSE, local |-> FALSE, trouble |-> FALSE, cfg |-> FALSE]],
                        "", <<>>),
            resp |-> -2,      \* byte identity of the reply to the request processed last (-1 none, -2 unknown)
            respErr |-> FALSE]  \* that reply rejected the request (IIN2 error bit): it was not executed and
                                \* may be answered afresh

\* the reply to the request on this line: first solicited FIR fragment with its sequence number
ReplyBid(e) ==
    LET rs == SelectSeq(e.tx, LAMBDA x : ~x.uns /\ x.fir /\ x.seq = e.seq)
    IN IF rs = <<>> THEN -1 ELSE rs[1].bid
ReplyErr(e) ==
    LET rs == SelectSeq(e.tx, LAMBDA x : ~x.uns /\ x.fir /\ x.seq = e.seq)
    IN rs # <<>> /\ Iin2Err(rs[1])

TxStep(acc, x, e, l) ==
    LET L  == acc.L
        L1 == IF IsSolEcho(L, x) /\ x.bid \notin L.sent
                THEN AddViol(L, "C05", "resend-mixture", l,
                             "echo in the confirm wait equals no fragment transmitted before")
                ELSE L
        \* an unsolicited fragment with the sequence number of the one whose series is still open is its retry
        \* (a new series takes the next number): it must be that fragment, byte for byte
        L2 == IF x.uns /\ L1.uns.has /\ L1.uns.active
                    /\ x.seq = L1.uns.seq /\ x.bid # L1.uns.bid
                THEN AddViol(L1, "C05", "retry-changed", l,
                             "unsolicited retry differs from the fragment it repeats")
                ELSE L1
    IN [acc EXCEPT !.L = ApplyTx(L2, x, e, l)]

MonStep(m, e, l) ==
    IF e.k = "reset" THEN [L |-> LInit(e.cfg, e.id, m.L.viol), resp |-> -2, respErr |-> FALSE]
    ELSE IF ~HasOutputs(e) THEN m
    ELSE LET L1  == ApplyStimulus(m.L, e, l)
             L2  == IF e.k # "rx" THEN ApplyRelease(L1, e, l) ELSE L1
             isReq == IsReq(e) /\ SrcOk(e, L2.cfg) /\ Unicast(e, L2.cfg) /\ ~e.noconn
             rep == isReq /\ L2.repeat /\ e.fc # 1
             execs == SelectSeq(e.cb, LAMBDA c : ExecCb(c))
             L3  == IF rep /\ execs # <<>>
                      THEN AddViol(L2, "C05", "re-executed", l,
                                   "retransmitted request was executed again")
                      ELSE L2
             L4  == IF rep /\ m.resp # -2 /\ ~m.respErr /\ ReplyBid(e) # m.resp
                      THEN AddViol(L3, "C05", "echo-differs", l,
                                   "reply to a retransmitted request differs from the reply sent before")
                      ELSE L3
             m1  == FoldLeft(LAMBDA acc, x : TxStep(acc, x, e, l), [m EXCEPT !.L = L4], e.tx)
         IN [m1 EXCEPT !.resp = IF e.k \in {"cut", "conn"} THEN -2
                                ELSE IF isReq /\ ~rep /\ e.wf /\ ProcessedNow(e) THEN ReplyBid(e)
                                ELSE IF isReq /\ ~e.wf THEN -2
                                ELSE @,
                       !.respErr = IF isReq /\ ~rep /\ e.wf /\ ProcessedNow(e) THEN ReplyErr(e) ELSE @]

Claimed == {"C05"}
=============================================================================
