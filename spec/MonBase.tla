------------------------------ MODULE MonBase ------------------------------
(***************************************************************************)
(* Helpers shared by the outstation-side monitors (Mon_Cxx).  A monitor is *)
(* the property itself written as a deterministic observer of the event    *)
(* alphabet (DESIGN.md section 3): a ledger `m`, MonInit and a pure        *)
(* MonStep(m, e, l).  Monitors never look at specification state, only at  *)
(* events, so they judge recorded executions of the real code and the      *)
(* events emitted by the implementation-shaped specifications alike.       *)
(***************************************************************************)
EXTENDS Naturals, Integers, Sequences, FiniteSets, SequencesExt, TLC

Viol(p, reason, l, sc, ctx) ==
    [prop |-> p, reason |-> reason, line |-> l, sc |-> sc, ctx |-> ctx]

HasOutputs(e) == e.k \notin {"reset", "dead", "hang", "bad_scenario"}

IsRx(e)      == e.k = "rx"
IsConfirm(e) == e.k = "rx" /\ e.fc = 0
IsReq(e)     == e.k = "rx" /\ e.fc # 0

\* the session-level filter: does the outstation act on fragments from this source?
SrcOk(e, cfg)   == e.src = "M" \/ cfg.any_master
Unicast(e, cfg) == e.dst = "U" \/ (e.dst = "SELF" /\ cfg.self_addr)
Broadcast(e)    == e.dst \in {"BC_OPT", "BC_MAN", "BC_NR"}

\* callbacks of one kind on a line
Cbs(e, k, n) == SelectSeq(e.cb, LAMBDA c : c.k = k /\ c.n = n)
CbKinds(e, k) == SelectSeq(e.cb, LAMBDA c : c.k = k)

\* callbacks that mean "the request was executed"
ExecCb(c) ==
    \/ c.k = "ctl"
    \/ c.k = "app" /\ c.n \in {"write_time", "cold_restart", "warm_restart", "freeze",
                               "begin_deadbands", "deadband", "end_deadbands"}
    \/ c.k = "info" /\ c.n = "clear_restart_iin"

\* Was the request on this line processed now?  A READ that is deferred (received during an
\* unsolicited confirm wait) is answered later and is not "the request processed last" until then.
RepliedOnLine(e) == \E i \in 1..Len(e.tx) : ~e.tx[i].uns /\ e.tx[i].fir /\ e.tx[i].seq = e.seq
ProcessedNow(e) == e.fc # 1 \/ RepliedOnLine(e)

Iin2Err(x) == x.iin.nofn \/ x.iin.unk \/ x.iin.param

EventGroups  == {2, 4, 11, 22, 23, 32, 42, 111}
TypeOfEvGroup(g) ==
    CASE g = 2 -> "bi" [] g = 4 -> "dbi" [] g = 11 -> "bos" [] g = 22 -> "ctr"
      [] g = 23 -> "fctr" [] g = 32 -> "ai" [] g = 42 -> "aos" [] g = 111 -> "os"
      [] OTHER -> ""
TypeIndex(ty) ==
    CASE ty = "bi" -> 1 [] ty = "dbi" -> 2 [] ty = "bos" -> 3 [] ty = "ctr" -> 4
      [] ty = "fctr" -> 5 [] ty = "ai" -> 6 [] ty = "aos" -> 7 [] ty = "os" -> 8
      [] OTHER -> 0

PointCls(cfg, ty, ix) ==
    LET ps == SelectSeq(cfg.points, LAMBDA p : p.ty = ty /\ p.ix = ix)
    IN  IF ps = <<>> THEN 0 ELSE ps[1].cls

Min2(a, b) == IF a < b THEN a ELSE b
Max2(a, b) == IF a > b THEN a ELSE b
Seq16(n) == n % 16

SeqToSet(s) == {s[i] : i \in 1..Len(s)}
RemoveIds(s, ids) == SelectSeq(s, LAMBDA x : x \notin ids)
HasDup(s) == Cardinality(SeqToSet(s)) # Len(s)
Ascending(s) == \A i \in 1..(Len(s) - 1) : s[i] < s[i + 1]

=============================================================================
