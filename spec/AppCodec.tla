------------------------------ MODULE AppCodec ------------------------------
(***************************************************************************)
(* The object-header grammar of DNP3 application fragments as a table and  *)
(* a few operators (IEEE 1815 object library, the part the library         *)
(* supports): what bytes a header of a given group, variation, qualifier   *)
(* and count or range implies, and therefore what a parser may accept.     *)
(*                                                                         *)
(* This is not a transition system: TLC is used to enumerate the product   *)
(* space of headers (MC_AppCodec) and, in trace validation (Mon_C09), to   *)
(* evaluate these operators on what the library's parser said about the    *)
(* bytes the harness built for every case.                                 *)
(***************************************************************************)
EXTENDS Naturals, Integers, Sequences, FiniteSets, TLC

\* ---- layout of one object of a variation
\*   none   no object data (variation 0 "any", class objects g60)
\*   fixed  n bytes per object
\*   bit1 / bit2  packed, 1 / 2 bits per object
\*   varlen octet strings: the variation is the length
\*   free   free format (g70): length inside the header
\*   attr   device attributes (g0): own grammar, sizes only
Fixed(n) == [k |-> "fixed", n |-> n]
NoData == [k |-> "none", n |-> 0]
Unknown == [k |-> "unknown", n |-> 0]

Lay(g, v) ==
    CASE g \in {1, 10} /\ v = 1 -> [k |-> "bit1", n |-> 0]
      [] g = 80 /\ v = 1 -> [k |-> "bit1", n |-> 0]
      [] g = 3 /\ v = 1 -> [k |-> "bit2", n |-> 0]
      [] g \in {1, 2, 3, 4, 10, 11, 12, 13, 20, 21, 22, 23, 30, 31, 32, 33, 34, 40, 41, 42, 43} /\ v = 0 -> NoData
      [] g = 60 /\ v \in 1..4 -> NoData
      [] g \in {110, 111} /\ v = 0 -> NoData
      [] g \in {110, 111} -> [k |-> "varlen", n |-> v]
      [] (g \in {1, 10} /\ v = 2) \/ (g \in {2, 11} /\ v = 1) -> Fixed(1)
      [] g \in {2, 11} /\ v = 2 -> Fixed(7)
      [] g = 2 /\ v = 3 -> Fixed(3)
      [] (g = 3 /\ v = 2) \/ (g = 4 /\ v = 1) -> Fixed(1)
      [] g = 4 /\ v = 2 -> Fixed(7)
      [] g = 4 /\ v = 3 -> Fixed(3)
      [] g = 12 /\ v = 1 -> Fixed(11)
      [] g = 13 /\ v = 1 -> Fixed(1)
      [] g = 13 /\ v = 2 -> Fixed(7)
      [] g \in {20, 21, 22, 23} /\ v = 1 -> Fixed(5)
      [] g \in {20, 21, 22, 23} /\ v = 2 -> Fixed(3)
      [] (g = 20 /\ v = 5) \/ (g = 21 /\ v = 9) -> Fixed(4)
      [] (g = 20 /\ v = 6) \/ (g = 21 /\ v = 10) -> Fixed(2)
      [] g \in {21, 22, 23} /\ v = 5 -> Fixed(11)
      [] g \in {21, 22, 23} /\ v = 6 -> Fixed(9)
      [] g \in {30, 31, 32, 33, 40, 42} /\ v = 1 -> Fixed(5)
      [] g \in {30, 31, 32, 33, 40, 42} /\ v = 2 -> Fixed(3)
      [] (g = 30 /\ v = 3) \/ (g = 31 /\ v = 5) -> Fixed(4)
      [] (g = 30 /\ v = 4) \/ (g = 31 /\ v = 6) -> Fixed(2)
      [] (g = 30 /\ v = 5) \/ (g = 31 /\ v = 7) \/ (g \in {32, 33, 42} /\ v = 5) \/ (g = 40 /\ v = 3) -> Fixed(5)
      [] (g = 30 /\ v = 6) \/ (g = 31 /\ v = 8) \/ (g \in {32, 33, 42} /\ v = 6) \/ (g = 40 /\ v = 4) -> Fixed(9)
      [] g \in {31, 32, 33, 42} /\ v = 3 -> Fixed(11)
      [] g \in {31, 32, 33, 42} /\ v = 4 -> Fixed(9)
      [] g \in {32, 33, 42} /\ v = 7 -> Fixed(11)
      [] g \in {32, 33, 42} /\ v = 8 -> Fixed(15)
      [] g = 34 /\ v = 1 -> Fixed(2)
      [] g = 34 /\ v \in {2, 3} -> Fixed(4)
      [] g = 41 /\ v = 1 -> Fixed(5)
      [] g = 41 /\ v = 2 -> Fixed(3)
      [] g = 41 /\ v = 3 -> Fixed(5)
      [] g = 41 /\ v = 4 -> Fixed(9)
      [] g = 43 /\ v \in {1, 5} -> Fixed(5)
      [] g = 43 /\ v = 2 -> Fixed(3)
      [] g = 43 /\ v \in {3, 7} -> Fixed(11)
      [] g = 43 /\ v \in {4, 6} -> Fixed(9)
      [] g = 43 /\ v = 8 -> Fixed(15)
      [] g = 50 /\ v \in {1, 3} -> Fixed(6)
      [] g = 50 /\ v = 2 -> Fixed(10)
      [] g = 50 /\ v = 4 -> Fixed(11)
      [] g = 51 /\ v \in {1, 2} -> Fixed(6)
      [] g = 52 /\ v \in {1, 2} -> Fixed(2)
      [] g = 70 /\ v \in 2..8 -> [k |-> "free", n |-> 0]
      [] g = 102 /\ v = 1 -> Fixed(1)
      [] g = 0 /\ v # 0 -> [k |-> "attr", n |-> 0]
      [] OTHER -> Unknown

\* every (group, variation) of the table, plus some the table does not know
Groups == {0, 1, 2, 3, 4, 10, 11, 12, 13, 20, 21, 22, 23, 30, 31, 32, 33, 34, 40, 41, 42, 43, 50, 51, 52, 60, 70, 80, 102, 110, 111}
KnownVars == {gv \in Groups \X (0..10) : Lay(gv[1], gv[2]).k # "unknown"}
                \cup {<<110, 1>>, <<110, 4>>, <<110, 255>>, <<111, 1>>, <<111, 3>>, <<111, 255>>}
UnknownVars == {<<1, 3>>, <<2, 4>>, <<5, 1>>, <<12, 4>>, <<30, 7>>, <<60, 5>>, <<200, 1>>, <<255, 255>>, <<50, 5>>, <<80, 2>>}

\* ---- qualifier codes
QR8 == 0  QR16 == 1  QAll == 6  QC8 == 7  QC16 == 8  QCP8 == 23  QCP16 == 40  QFF == 91
Qualifiers == {QR8, QR16, QAll, QC8, QC16, QCP8, QCP16}
BadQualifiers == {2, 3, 9, 25, 107, 255}

\* bytes of the header proper: group, variation, qualifier, range / count field
RangeFieldLen(q) == CASE q = QR8 -> 2 [] q = QR16 -> 4 [] q = QAll -> 0 [] q \in {QC8, QCP8} -> 1 [] q \in {QC16, QCP16} -> 2 [] OTHER -> 0
HeaderLen(q) == 3 + RangeFieldLen(q)
PrefixLen(q) == CASE q = QCP8 -> 1 [] q = QCP16 -> 2 [] OTHER -> 0

\* number of objects a header declares: a = start or count, b = stop
NumObjects(q, a, b) == CASE q \in {QR8, QR16} -> (IF b >= a THEN b - a + 1 ELSE 0) [] q = QAll -> 0 [] OTHER -> a

CeilDiv(x, d) == (x + d - 1) \div d
\* bytes of object data that must follow the header.  READ requests carry no object data after range / count /
\* all-objects headers; index-prefixed headers keep their prefixes but this library's parser does not distinguish
\* the function there (fn = "read" with a prefix qualifier is outside the must-accept set)
DataLen(g, v, q, a, b, fnc) ==
    LET lay == Lay(g, v)
        n == NumObjects(q, a, b)
        per == CASE lay.k = "fixed" -> lay.n [] lay.k = "varlen" -> lay.n [] OTHER -> 0
    IN IF fnc = "read" /\ q \in {QR8, QR16, QAll, QC8, QC16} THEN 0
       ELSE CASE q = QAll -> 0
              [] lay.k = "bit1" /\ q \in {QR8, QR16} -> CeilDiv(n, 8)
              [] lay.k = "bit2" /\ q \in {QR8, QR16} -> CeilDiv(n, 4)
              [] lay.k \in {"bit1", "bit2"} -> n * (PrefixLen(q) + 1)      \* not a legal combination; any guess
              [] OTHER -> n * (PrefixLen(q) + per)

\* a case: one object header in a fragment of function class fnc, with delta bytes more (+) or fewer (-) than implied
\*   [g, v, q, a, b, fnc, delta]
Reversed(c) == c.q \in {QR8, QR16} /\ c.b < c.a
Implied(c) == HeaderLen(c.q) + DataLen(c.g, c.v, c.q, c.a, c.b, c.fnc)

\* combinations the library's own encoders produce (and its peers must therefore parse)
StaticGroups == {1, 3, 10, 20, 21, 30, 31, 40}
EventGroups == {2, 4, 11, 22, 23, 32, 33, 42}
Produced(c) ==
    LET lay == Lay(c.g, c.v) IN
    \/ c.fnc = "resp" /\ c.g \in StaticGroups /\ c.q \in {QR8, QR16} /\ lay.k \in {"fixed", "bit1", "bit2"}
    \/ c.fnc = "resp" /\ c.g = 110 /\ c.v # 0 /\ c.q \in {QR8, QR16}
    \/ c.fnc = "resp" /\ c.g \in EventGroups /\ c.q = QCP16 /\ lay.k = "fixed"
    \/ c.fnc = "resp" /\ c.g = 111 /\ c.v # 0 /\ c.q = QCP16
    \/ c.fnc \in {"write", "resp"} /\ c.g \in {12, 41} /\ c.v # 0 /\ c.q \in {QCP8, QCP16}
    \/ c.fnc = "read" /\ c.g = 60 /\ c.q = QAll
    \/ c.fnc = "read" /\ c.g \in StaticGroups \cup EventGroups /\ c.q = QAll
    \/ c.fnc = "read" /\ c.g \in StaticGroups /\ c.q \in {QR8, QR16}
    \/ c.fnc = "read" /\ c.g \in EventGroups \cup {60} /\ c.q \in {QC8, QC16} /\ (c.g # 60 \/ c.v \in 2..4)
    \/ c.fnc = "write" /\ c.g = 80 /\ c.v = 1 /\ c.q = QR8
    \/ c.fnc = "write" /\ c.g = 50 /\ c.v \in {1, 3} /\ c.q = QC8
    \/ c.fnc = "resp" /\ c.g = 52 /\ c.q = QC8
    \/ c.fnc = "resp" /\ c.g = 51 /\ c.q = QC8

\* what a parser that accepts only exact encodings may say about case c
\*   "reject"  the bytes are not what the header implies
\*   "accept"  a combination the library itself produces, exactly encoded
\*   "either"  exact, but support for the combination is not required
Verdict(c) ==
    IF Lay(c.g, c.v).k = "unknown" \/ c.q \notin Qualifiers \/ Reversed(c) \/ c.delta # 0 THEN "reject"
    ELSE IF Lay(c.g, c.v).k \in {"free", "attr"} THEN "either"
    ELSE IF Produced(c) /\ NumObjects(c.q, c.a, c.b) > 0 THEN "accept"
    ELSE IF Produced(c) /\ c.q = QAll THEN "accept"
    ELSE "either"

\* when accepted: the one header reported, and the indices of a range
ExpCount(c) == NumObjects(c.q, c.a, c.b)

\* ---- device attributes (group 0): <data type code> <length> <value>; a case is [v, set, code, len, delta, fnc]
\* the data type the value must be classified as, or "reject"
AttrType(a) ==
    IF a.delta # 0 THEN "reject"
    ELSE CASE a.code = 1 -> "VSTR"
           [] a.code = 2 -> IF a.len \in {1, 2, 4} THEN "UINT" ELSE "reject"
           [] a.code = 3 -> IF a.len \in {1, 2, 4} THEN "INT" ELSE "reject"
           [] a.code = 4 -> IF a.len \in {4, 8} THEN "FLT" ELSE "reject"
           [] a.code = 5 -> "OSTR"
           [] a.code = 6 -> "BSTR"
           [] a.code = 7 -> IF a.len = 6 THEN "TIME" ELSE "reject"
           [] a.code = 254 -> IF a.len % 2 = 0 THEN "LIST" ELSE "reject"
           [] a.code = 255 -> "either"
           [] OTHER -> "reject"

\* ---- free-format objects (group 70, qualifier 5B): <count = 1> <length, 2 bytes> <object>.  A case is
\* [v, n, delta, follow, trunc, fnc]: the object of variation v with n bytes of variable data (strings, file data), the
\* declared length = true size + delta (the declared number of bytes is present: padding after the object when
\* delta > 0, the object cut short when delta < 0), followed by a second, exact, free-format header when follow = 1,
\* and the last byte of the fragment missing when trunc = 1.
\* v2, v3, v7 carry their own string lengths, so that the object's size is implied by its content; in v4, v5, v6, v8
\* the variable part extends to the end of the declared length.
FfFixed(v) == CASE v = 2 -> 12 [] v = 3 -> 26 [] v = 4 -> 13 [] v = 5 -> 8 [] v = 6 -> 9 [] v = 7 -> 20 [] OTHER -> 0
FfSelfSized(v) == v \in {2, 3, 7}
FfVerdict(c) ==
    IF c.trunc = 1 THEN "reject"
    ELSE IF FfSelfSized(c.v) THEN (IF c.delta = 0 THEN "accept" ELSE "reject")
    ELSE IF FfFixed(c.v) + c.n + c.delta >= FfFixed(c.v) THEN "accept" ELSE "reject"
=============================================================================
