------------------------------ MODULE Mon_C07L ------------------------------
(***************************************************************************)
(* C07 (link half) - a station acts on, and replies to, a link frame only  *)
(* when it is addressed to it (own address; outstations also the broadcast *)
(* addresses; the self address when that feature is on), comes from the    *)
(* opposite station type and from a non-reserved source; link status       *)
(* requests so addressed are always answered; confirmed user data is       *)
(* delivered at most once per frame-count-bit toggle after a link reset;   *)
(* nothing is transmitted in reply to a broadcast.                         *)
(* Events: {k: "lframe", h: header, deliver, bc, reply} one per injected   *)
(* frame, {k: "lreset"} new session.                                       *)
(***************************************************************************)
EXTENDS Naturals, Sequences, TLC

MonInit == [viol |-> <<>>, sc |-> "", isMaster |-> FALSE, selfAddr |-> FALSE,
            reset |-> FALSE, lastFcb |-> "none"]   \* lastFcb: fcb of the last delivered confirmed-data frame
V(m, reason, l, ctx) == [m EXCEPT !.viol = IF Len(@) >= 300 THEN @ ELSE Append(@, [prop |-> "C07", reason |-> reason, line |-> l, sc |-> m.sc, ctx |-> ctx])]

Addressed(m, h) ==
    \/ h.dst = "OWN"
    \/ h.dst = "SELF" /\ m.selfAddr
    \/ h.dst \in {"BC_OPT", "BC_MAN", "BC_NR"} /\ ~m.isMaster
Eligible(m, h) == Addressed(m, h) /\ h.dir # m.isMaster /\ h.src = "EP"

MonStep(m, e, l) ==
    IF e.k = "reset" THEN [MonInit EXCEPT !.viol = m.viol, !.sc = e.id, !.isMaster = e.cfg.is_master,
                                          !.selfAddr = e.cfg.self_addr]
    ELSE IF e.k = "lreset" THEN [m EXCEPT !.reset = FALSE, !.lastFcb = "none"]
    ELSE IF e.k # "lframe" THEN m
    ELSE
    LET h == e.h
        acted == e.deliver # "none" \/ e.reply # "none"
        isBc == h.dst \in {"BC_OPT", "BC_MAN", "BC_NR"}
        m1 == IF ~Eligible(m, h) /\ acted
                THEN V(m, "acted-misaddressed", l, "frame not addressed to this station / wrong direction / reserved source was acted on")
                ELSE m
        m2 == IF isBc /\ e.reply # "none"
                THEN V(m1, "replied-broadcast", l, "link-layer reply to a broadcast frame") ELSE m1
        m3 == IF Eligible(m, h) /\ ~isBc /\ h.func = "REQ_STATUS" /\ ~h.fcv /\ e.reply # "status"
                THEN V(m2, "link-status-unanswered", l, "link status request addressed to the station not answered") ELSE m2
        \* confirmed user data: only after a reset, at most once per FCB value in a row
        isConf == h.func = "CONF_DATA" /\ e.deliver = "data"
        m4 == IF isConf /\ (~m.reset \/ (m.lastFcb # "none" /\ m.lastFcb = (IF h.fcb THEN "1" ELSE "0")))
                THEN V(m3, "dup-confirmed-data", l, "confirmed user data delivered without reset / twice for one frame count bit") ELSE m3
        m5 == IF isBc /\ e.deliver # "none" /\ h.func \notin {"UNCONF_DATA", "CONF_DATA"}
                THEN V(m4, "acted-misaddressed", l, "broadcast of a non-data function acted on") ELSE m4
    IN [m5 EXCEPT !.reset = IF Eligible(m, h) /\ h.func = "RESET" /\ ~h.fcv /\ e.reply = "ack" THEN TRUE ELSE @,
                  !.lastFcb = IF Eligible(m, h) /\ h.func = "RESET" /\ ~h.fcv /\ e.reply = "ack" THEN "none"
                              ELSE IF isConf THEN (IF h.fcb THEN "1" ELSE "0") ELSE @]

Claimed == {"C07"}
=============================================================================
