------------------------------ MODULE MMonBase ------------------------------
(* helpers shared by the master-side monitors *)
EXTENDS Naturals, Integers, Sequences, FiniteSets, SequencesExt, TLC

Viol(p, reason, l, sc, ctx) == [prop |-> p, reason |-> reason, line |-> l, sc |-> sc, ctx |-> ctx]
HasOutputs(e) == e.k \notin {"reset", "dead", "hang", "bad_scenario", "crash", "end"}
Seq16(n) == n % 16

IsAssoc(cfg, addr) == \E i \in 1..Len(cfg.assocs) : cfg.assocs[i].addr = addr
ACfg(cfg, addr) == LET xs == SelectSeq(cfg.assocs, LAMBDA a : a.addr = addr) IN xs[1]

Iin2Err(iin) == iin.nofn \/ iin.unk \/ iin.param

\* requests (not confirms) written on this line
ReqTx(e) == SelectSeq(e.tx, LAMBDA x : x.fc # 0)
Confirms(e, uns, seq, dst) == SelectSeq(e.tx, LAMBDA x : x.fc = 0 /\ x.uns = uns /\ x.seq = seq /\ x.dst = dst)
CbsOf(e, k, n) == SelectSeq(e.cb, LAMBDA c : c.k = k /\ c.n = n)
\* handler deliveries that are the result of a task (not unsolicited)
TaskBegins(e) == SelectSeq(e.cb, LAMBDA c : c.k = "rh" /\ c.n = "begin" /\ c.s # "unsol")
UnsolBegins(e) == SelectSeq(e.cb, LAMBDA c : c.k = "rh" /\ c.n = "begin" /\ c.s = "unsol")
Items(e) == SelectSeq(e.cb, LAMBDA c : c.k = "rh" /\ c.n = "item")
Succ(e) == CbsOf(e, "ai", "task_success")
Fails(e) == CbsOf(e, "ai", "task_fail")
Starts(e) == CbsOf(e, "ai", "task_start")

\* the outstanding request as seen on the wire: out = [has, a, fc, seq, first, t, obid, read]
NoOut == [has |-> FALSE, a |-> 0, fc |-> 0, seq |-> 0, first |-> TRUE, t |-> 0, obid |-> 0, read |-> FALSE]

\* does fragment x (e.rx) answer the outstanding request?
Answers(out, x) ==
    /\ out.has /\ x.fc = 129 /\ ~x.uns /\ x.src = out.a /\ x.seq = out.seq
    /\ x.body \notin {"bad", "hdrbad"} /\ ~Iin2Err(x.iin)
    /\ IF out.read THEN x.fir = out.first /\ (x.fin \/ x.con) ELSE x.fir /\ x.fin

\* follow the outstanding request across one line: an accepted non-final read fragment moves the series on,
\* completion callbacks end it, the last request written on the line (if not ended later) is the new one
TrackOut(out, e) ==
    LET o1 == IF e.k = "rx" /\ Answers(out, e.rx) /\ out.read /\ ~e.rx.fin
                THEN [out EXCEPT !.seq = Seq16(@ + 1), !.first = FALSE, !.t = e.t] ELSE out
        ends == Succ(e) \o Fails(e)
        rq == ReqTx(e)
    IN IF rq = <<>> THEN (IF ends # <<>> THEN [o1 EXCEPT !.has = FALSE] ELSE o1)
       ELSE LET r == rq[Len(rq)]
            IN [has |-> ~\E i \in 1..Len(ends) : ends[i].t > r.t, a |-> r.dst, fc |-> r.fc, seq |-> r.seq,
                first |-> TRUE, t |-> r.t, obid |-> r.obid, read |-> r.fc = 1]

LineEnd(e) == IF e.k = "adv" THEN e.t + e.dt ELSE e.t + 1
=============================================================================
