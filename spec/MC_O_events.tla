---------------------------- MODULE MC_O_events ----------------------------
(***************************************************************************)
(* Model-checking configuration of Outstation.tla for the event / read /   *)
(* unsolicited core (serves C03 C13 C14 C05 C11).  The monitors run in     *)
(* lock-step on the events the specification emits; `hist` is the scenario *)
(* (resolved inputs) that reproduces the behaviour in the real code.       *)
(***************************************************************************)
EXTENDS Outstation, Json

CONSTANTS MaxUpd, MaxSteps, Classes

VARIABLES s, ev, m, hist
vars == <<s, ev, m, hist>>

Mon03 == INSTANCE Mon_C03

\* the configuration record the monitors read (same shape as lib/norm.py norm_cfg)
ModelCfg ==
    [oaddr |-> 1024, maddr |-> 1, sol_buf |-> SolBudget + 4, unsol_buf |-> UnsolBudget + 4,
     rx_buf |-> 2048, confirm_to |-> ConfirmTO, select_to |-> SelectTO, unsol |-> UnsolOn,
     broadcast |-> TRUE, self_addr |-> FALSE, any_master |-> FALSE, retries |-> Retries,
     retry_delay |-> RetryDelay, keep_alive |-> -1, max_controls |-> -1,
     evmax |-> EvMax, class_zero |-> <<TRUE, TRUE, TRUE, TRUE, TRUE, TRUE, TRUE, TRUE>>,
     points |-> [i \in 1..NP |-> [ty |-> Pts[i].ty, ix |-> Pts[i].ix, cls |-> Pts[i].cls,
                                  svar |-> Pts[i].sv, evar |-> Pts[i].ev]],
     close |-> TRUE,
     app |-> [time |-> FALSE, local |-> FALSE, trouble |-> FALSE, cfg |-> FALSE]]

HdrRec(h) ==
    LET v == CASE h.n = "c0" -> 1 [] h.n = "c1" -> 2 [] h.n = "c2" -> 3 [] OTHER -> 4
    IN [g |-> 60, v |-> v, q |-> IF h.lim >= 0 THEN 7 ELSE 6, a |-> h.lim, b |-> -1]
ClsHdrs(cl) == [i \in 1..Cardinality(cl) |->
                  LET c == CHOOSE c \in cl : Cardinality({d \in cl : d < c}) = i - 1
                  IN [g |-> 60, v |-> c + 1, q |-> 6, a |-> -1, b |-> -1]]

\* the event (trace line) of one applied stimulus
BuildEv(s0, in, s1) ==
    LET base == [k |-> in.k, t |-> s0.now, cls |-> "ok", tag |-> "", tx |-> s1.otx, ltx |-> <<>>,
                 cb |-> SelectSeq(s1.ocb, LAMBDA c : c.k # "panic"),
                 panic |-> s1.pc = "Dead" /\ s0.pc # "Dead", pmsg |-> "", ended |-> FALSE,
                 eof |-> FALSE, sess |-> <<>>, txerr |-> 0]
        rxf(fc, seq, uns, hdrs, bid) ==
            [k |-> "rx", fc |-> fc, seq |-> seq, fir |-> TRUE, fin |-> TRUE, con |-> FALSE,
             uns |-> uns, bid |-> bid, obid |-> bid, wf |-> TRUE, len |-> 2, hdrs |-> hdrs,
             robjs |-> <<>>, src |-> "M", dst |-> "U", noconn |-> s0.pc = "Down"]
    IN CASE in.k = "upd" ->
              LET n == s1.nupd
                  created == s1.nextId > s0.nextId
                  id == s0.nextId
                  lost == {s0.events[i].id : i \in 1..Len(s0.events)}
                            \ {s1.events[i].id : i \in 1..Len(s1.events)}
                  it == [ty |-> Pts[in.p].ty, ix |-> Pts[in.p].ix, val |-> UpdVal(in.p, n),
                         fl |-> 1, tm |-> UpdTm(n), tq |-> "s", static |-> TRUE, mode |-> "force",
                         info |-> IF ~created THEN "noevent" ELSE IF lost # {} THEN "overflow" ELSE "created",
                         id |-> IF created THEN id ELSE -1,
                         disc |-> IF lost # {} THEN CHOOSE x \in lost : TRUE ELSE -1]
              IN base @@ [items |-> <<it>>]
         [] in.k = "adv" -> base @@ [dt |-> in.dt]
         [] in.k = "read" ->
              rxf(1, s1.mlast.seq, FALSE, [i \in 1..Len(s1.mlast.hs) |-> HdrRec(s1.mlast.hs[i])],
                  Intern(s0, s1.mlast).id + 1000) @@ base
         [] in.k = "req" ->
              rxf(FcOf(s1.mlast.k), s1.mlast.seq, FALSE, ClsHdrs(s1.mlast.cl),
                  Intern(s0, s1.mlast).id + 1000) @@ base
         [] in.k = "conf" -> rxf(0, in.seq, in.uns, <<>>, 999) @@ base
         [] OTHER -> base

ResetEv == [k |-> "reset", t |-> 0, cls |-> "", tag |-> "", id |-> "mc", cfg |-> ModelCfg]

\* ---- the inputs offered to the outstation in each state
H(n) == [n |-> n, lim |-> -1]
ReadHeaders == {<<H("c1")>>, <<H("c2")>>, <<H("c1"), H("c2"), H("c3")>>, <<H("c0")>>,
                <<H("c1"), H("c2"), H("c3"), H("c0")>>, <<[n |-> "c1", lim |-> 1]>>}

Inputs(st) ==
    (IF st.pc = "Down" THEN {[k |-> "conn"]} ELSE {[k |-> "cut"]})
    \cup {[k |-> "upd", p |-> p] : p \in {q \in 1..NP : st.nupd < MaxUpd}}
    \cup (IF st.pc \in {"Down", "Dead"} THEN {} ELSE
            {[k |-> "read", seq |-> NextReqSeq(st), hs |-> h, rep |-> FALSE] : h \in ReadHeaders}
            \cup {[k |-> "req", f |-> "delay", seq |-> NextReqSeq(st), cl |-> {}, rep |-> FALSE]}
            \cup {[k |-> "req", f |-> f, seq |-> NextReqSeq(st), cl |-> Classes, rep |-> FALSE] :
                      f \in {"enable", "disable"}}
            \cup (IF st.mlast.k = "none" THEN {} ELSE
                    IF st.mlast.k = "read"
                      THEN {[k |-> "read", seq |-> st.mlast.seq, hs |-> st.mlast.hs, rep |-> TRUE]}
                      ELSE {[k |-> "req", f |-> st.mlast.k, seq |-> st.mlast.seq, cl |-> st.mlast.cl,
                             rep |-> TRUE]})
            \cup UNION {{[k |-> "conf", uns |-> u, seq |-> sq] :
                              sq \in {RightConfirmSeq(st, u), S16(RightConfirmSeq(st, u) + 1)}} :
                          u \in BOOLEAN})
    \cup (LET d == NextTimer(st, st.now + 100000)
          IN IF d = NoTime THEN {} ELSE {[k |-> "adv", dt |-> (d - st.now) + 5]})
    \cup {[k |-> "adv", dt |-> 3]}

Init == /\ s = Init0
        /\ ev = ResetEv
        /\ m = Mon03!MonStep(Mon03!MonInit, ResetEv, 0)
        /\ hist = <<>>

Next == /\ Len(hist) < MaxSteps
        /\ \E in \in Inputs(s) :
              LET s1 == Apply(s, in)
                  e  == BuildEv(s, in, s1)
              IN /\ s' = s1
                 /\ ev' = e
                 /\ m' = Mon03!MonStep(m, e, Len(hist) + 1)
                 /\ hist' = Append(hist, in)

Spec == Init /\ [][Next]_vars

\* ---- properties
NoViolation == m.viol = <<>>
NoPanic == s.pc # "Dead"
\* code-shaped counters never go stale
CountersExact ==
    \A c \in 1..3 :
        /\ s.total[c] = Len(SelectSeq(s.events, LAMBDA r : PCls(r.p) = c))
        /\ s.written[c] = Len(SelectSeq(s.events, LAMBDA r : PCls(r.p) = c /\ r.st = "W"))

\* the monitor ledger and the specification agree on which events exist
LedgerAgrees == {m.live[i].id : i \in 1..Len(m.live)} = {s.events[i].id : i \in 1..Len(s.events)}

View == <<s, m>>

\* ---- constant values (cfg files can only hold simple values)
OsPt(ix, cls, L) == [ty |-> "os", ix |-> ix, cls |-> cls, esz |-> L + 2, ssz |-> L, eg |-> 111,
                     ev |-> L, sg |-> 110, sv |-> L]
BiPt(ix, cls)    == [ty |-> "bi", ix |-> ix, cls |-> cls, esz |-> 9, ssz |-> 1, eg |-> 2,
                     ev |-> 2, sg |-> 1, sv |-> 2]
Pts_os2_cap1 == <<OsPt(0, 1, 130), OsPt(1, 2, 130)>>
Pts_os2_cap2 == <<OsPt(0, 1, 100), OsPt(1, 2, 100)>>
Pts_mixed    == <<OsPt(0, 1, 130), BiPt(0, 2)>>
EvMax_os2    == <<0, 0, 0, 0, 0, 0, 0, 2>>
EvMax_os1    == <<0, 0, 0, 0, 0, 0, 0, 1>>
EvMax_mixed  == <<2, 0, 0, 0, 0, 0, 0, 2>>
DEV_none     == {}
DEV_EchoUsesFirstHeader == {"EchoUsesFirstHeader"}
DEV_OverflowKeepsWrittenCount == {"OverflowKeepsWrittenCount"}
DEV_UnsolAbortKeepsWritten == {"UnsolAbortKeepsWritten"}
DEV_asbuilt  == {"UnsolAbortKeepsWritten", "OverflowKeepsWrittenCount", "EchoUsesFirstHeader",
                 "DisconnectKeepsWritten"}
CZ_os        == {"os", "bi"}
Cl123        == {1, 2, 3}

\* scenario export: every behaviour prefix of length MaxSteps (simulation mode)
Export == Len(hist) < MaxSteps \/ PrintT(<<"SCENARIO", ToJson(hist)>>)
=============================================================================
