---------------------------- MODULE MC_O_events ----------------------------
(***************************************************************************)
(* Model-checking configuration of Outstation.tla for the event / read /   *)
(* unsolicited core (serves C03 C13 C14 C05 C11).  The monitors run in     *)
(* lock-step on the events the specification emits; `hist` is the scenario *)
(* (resolved inputs) that reproduces the behaviour in the real code.       *)
(***************************************************************************)
EXTENDS OutstationEv, Json, DevSets

CONSTANTS MaxUpd, MaxSteps, Classes,
          Alpha,      \* input alphabet: "events" | "ctl"
          MonName     \* which monitor runs in lock-step: "C03" | "C13" | "C05" | "C14" | "none"

VARIABLES s, ev, m, hist, prev      \* prev: the state before the last step (for the transition cover)
vars == <<s, ev, m, hist, prev>>

Mon03 == INSTANCE Mon_C03
Mon13 == INSTANCE Mon_C13
Mon05 == INSTANCE Mon_C05
Mon14 == INSTANCE Mon_C14
Mon04 == INSTANCE Mon_C04
Mon12 == INSTANCE Mon_C12
Mon07 == INSTANCE Mon_C07
Mon11 == INSTANCE Mon_C11

MInit == CASE MonName = "C03" -> Mon03!MonInit [] MonName = "C13" -> Mon13!MonInit
           [] MonName = "C05" -> Mon05!MonInit [] MonName = "C14" -> Mon14!MonInit
           [] MonName = "C04" -> Mon04!MonInit [] MonName = "C12" -> Mon12!MonInit
           [] MonName = "C07" -> Mon07!MonInit [] MonName = "C11" -> Mon11!MonInit
           [] OTHER -> [viol |-> <<>>]
MStep(mm, e, l) ==
    CASE MonName = "C03" -> Mon03!MonStep(mm, e, l) [] MonName = "C13" -> Mon13!MonStep(mm, e, l)
      [] MonName = "C05" -> Mon05!MonStep(mm, e, l) [] MonName = "C14" -> Mon14!MonStep(mm, e, l)
      [] MonName = "C04" -> Mon04!MonStep(mm, e, l) [] MonName = "C12" -> Mon12!MonStep(mm, e, l)
      [] MonName = "C07" -> Mon07!MonStep(mm, e, l) [] MonName = "C11" -> Mon11!MonStep(mm, e, l)
      [] OTHER -> mm
MViol(mm) == IF MonName \in {"C05", "C14"} THEN mm.L.viol ELSE mm.viol
\* only the violations of the property under check count
PViol(mm) == SelectSeq(MViol(mm), LAMBDA v : v.prop = MonName)

\* ---- the inputs offered to the outstation in each state
H(n) == [n |-> n, lim |-> -1, v |-> 0]
HasBi == \E p \in 1..NP : Pts[p].ty = "bi"
ReadHeaders == {<<H("c1")>>, <<H("c2")>>, <<H("c1"), H("c2"), H("c3")>>, <<H("c0")>>,
                <<H("c1"), H("c2"), H("c3"), H("c0")>>, <<[n |-> "c1", lim |-> 1, v |-> 0]>>}
               \cup (IF HasBi THEN {<<[n |-> "bi", lim |-> -1, v |-> 1]>>} ELSE {})
ClassSets == {Classes, {1}}

R(f, st, more) == [k |-> "req", f |-> f, seq |-> NextReqSeq(st), cl |-> {}, rep |-> FALSE] @@ more

RepeatLast(st) ==
    IF st.mlast.k = "none" THEN {}
    ELSE IF st.mlast.k = "read"
      THEN {[k |-> "read", seq |-> st.mlast.seq, hs |-> st.mlast.hs, rep |-> TRUE]}
      ELSE {[k |-> "req", f |-> st.mlast.k, seq |-> st.mlast.seq, cl |-> st.mlast.cl, rep |-> TRUE]}

InputsEvents(st) ==
    (IF st.pc = "Down" THEN {[k |-> "conn"]} ELSE {[k |-> "cut"]})
    \cup {[k |-> "upd", p |-> p] : p \in {q \in 1..NP : st.nupd < MaxUpd}}
    \cup (IF st.pc \in {"Down", "Dead"} THEN {} ELSE
            {[k |-> "read", seq |-> NextReqSeq(st), hs |-> h, rep |-> FALSE] : h \in ReadHeaders}
            \cup {[k |-> "req", f |-> "delay", seq |-> NextReqSeq(st), cl |-> {}, rep |-> FALSE]}
            \cup {[k |-> "req", f |-> f, seq |-> NextReqSeq(st), cl |-> c, rep |-> FALSE] :
                      f \in {"enable", "disable"}, c \in ClassSets}
            \cup RepeatLast(st)
            \cup UNION {{[k |-> "conf", uns |-> u, seq |-> sq] :
                              sq \in {RightConfirmSeq(st, u), S16(RightConfirmSeq(st, u) + 1)}} :
                          u \in BOOLEAN})
    \cup (LET d == NextTimer(st, st.now + 100000)
          IN IF d = NoTime THEN {} ELSE {[k |-> "adv", dt |-> (d - st.now) + 5]})
    \cup {[k |-> "adv", dt |-> 3]}

\* controls, addressing, rejected requests
InputsCtl(st) ==
    (IF st.pc = "Down" THEN {[k |-> "conn"]} ELSE {[k |-> "cut"]})
    \cup {[k |-> "upd", p |-> 1] : x \in {q \in {1} : st.nupd < MaxUpd}}
    \cup {[k |-> "app", bit |-> b, on |-> ~st.app[b]] : b \in {"time", "trouble"}}
    \cup (IF st.pc \in {"Down", "Dead"} THEN {} ELSE
            {R(f, st, [ob |-> o]) : f \in {"select", "operate"}, o \in {"a", "b", "a2"}}
            \cup {[R("operate", st, [ob |-> "a"]) EXCEPT !.seq = S16(@ + 1)]}
            \cup (IF st.select.has THEN {[R("operate", st, [ob |-> "a"]) EXCEPT !.seq = S16(st.select.seq + 1)]}
                  ELSE {})
            \cup {R("dop", st, [ob |-> "a"]), R("dopnr", st, [ob |-> "a"]), R("delay", st, <<>>),
                  R("record", st, <<>>), R("wtabs", st, <<>>), R("wtlast", st, <<>>), R("cold", st, <<>>), R("warm", st, <<>>),
                  R("write_rst", st, <<>>), R("write2", st, [ob |-> "bg", bad |-> "reject"]),
                  R("write2", st, [ob |-> "gb", bad |-> "reject"])}
            \cup {R("delay", st, [src |-> "X"]), R("select", st, [ob |-> "a", src |-> "X"])}
            \cup {R("dopnr", st, [ob |-> "a", dst |-> d]) : d \in {"BC_OPT", "BC_MAN"}}
            \cup {R("write_rst", st, [dst |-> "BC_NR"]), R("delay", st, [dst |-> "BC_OPT"])}
            \cup {R("unkfn", st, [bad |-> "unkfn"]), R("unkfn", st, [bad |-> "unkfn", src |-> "X"]),
                  R("unkfn", st, [bad |-> "unkfn", dst |-> "BC_OPT"])}
            \cup {[k |-> "read", seq |-> NextReqSeq(st), hs |-> <<>>, rep |-> FALSE, bad |-> "badobj"],
                  [k |-> "read", seq |-> NextReqSeq(st), hs |-> <<H("c0")>>, rep |-> FALSE],
                  [k |-> "read", seq |-> NextReqSeq(st), hs |-> <<H("c1")>>, rep |-> FALSE]}
            \cup {[k |-> "read", seq |-> NextReqSeq(st), hs |-> <<>>, rep |-> FALSE, bad |-> "badobj", dst |-> "BC_OPT"]}
            \cup RepeatLast(st)
            \cup {[k |-> "conf", uns |-> u, seq |-> RightConfirmSeq(st, u)] : u \in BOOLEAN}
            \* the right confirm, but from another master
            \cup {[k |-> "conf", uns |-> u, seq |-> RightConfirmSeq(st, u), src |-> "X"] : u \in BOOLEAN})
    \cup (LET d == NextTimer(st, st.now + 100000)
          IN IF d = NoTime THEN {} ELSE {[k |-> "adv", dt |-> (d - st.now) + 5]})
    \cup {[k |-> "adv", dt |-> SelectTO - 10], [k |-> "adv", dt |-> 20]}

\* freeze requests, requests that broadcast allows, time requests
InputsMisc(st) ==
    (IF st.pc = "Down" THEN {[k |-> "conn"]} ELSE {[k |-> "cut"]})
    \cup {[k |-> "upd", p |-> 1] : x \in {q \in {1} : st.nupd < MaxUpd}}
    \cup (IF st.pc \in {"Down", "Dead"} THEN {} ELSE
            {R("frz", st, [ob |-> o]) : o \in {"all", "rng"}}
            \cup {R("frz", st, [ob |-> o, bad |-> "reject"]) : o \in {"gb", "bg", "bad"}}
            \cup {R("frznr", st, [ob |-> "all"]), R("frznr", st, [ob |-> "bad", bad |-> "reject"]),
                  R("frzclr", st, [ob |-> "all"]), R("frzclr", st, [ob |-> "bg", bad |-> "reject"]),
                  R("frzclrnr", st, [ob |-> "rng"]),
                  R("frzat", st, [ob |-> "timed"]), R("frzat", st, [ob |-> "all", bad |-> "reject"]),
                  R("frzatnr", st, [ob |-> "timed"])}
            \cup {R("frznr", st, [ob |-> "all", dst |-> "BC_OPT"]), R("frzclrnr", st, [ob |-> "all", dst |-> "BC_MAN"]),
                  R("frzatnr", st, [ob |-> "timed", dst |-> "BC_NR"]), R("frz", st, [ob |-> "all", dst |-> "BC_OPT"]),
                  R("record", st, [dst |-> "BC_NR"]), R("wtabs", st, [dst |-> "BC_OPT"]),
                  R("frznr", st, [ob |-> "all", src |-> "X"])}
            \cup {R("record", st, <<>>), R("wtlast", st, <<>>), R("delay", st, <<>>)}
            \cup {[k |-> "read", seq |-> NextReqSeq(st), hs |-> <<H("c0")>>, rep |-> FALSE],
                  [k |-> "read", seq |-> NextReqSeq(st), hs |-> <<H("c1")>>, rep |-> FALSE]}
            \cup RepeatLast(st)
            \cup {[k |-> "conf", uns |-> u, seq |-> RightConfirmSeq(st, u)] : u \in BOOLEAN})
    \cup (LET d == NextTimer(st, st.now + 100000)
          IN IF d = NoTime THEN {} ELSE {[k |-> "adv", dt |-> (d - st.now) + 5]})
    \cup {[k |-> "adv", dt |-> 20]}

Inputs(st) == CASE Alpha = "ctl" -> InputsCtl(st) [] Alpha = "misc" -> InputsMisc(st) [] OTHER -> InputsEvents(st)

Init == /\ s = Init0
        /\ ev = ResetEv
        /\ m = MStep(MInit, ResetEv, 0)
        /\ hist = <<>>
        /\ prev = Init0

Next == /\ Len(hist) < MaxSteps
        /\ \E in \in Inputs(s) :
              LET s1 == Apply(s, in)
                  e  == BuildEv(s, in, s1)
              IN /\ s' = s1
                 /\ ev' = e
                 /\ m' = MStep(m, e, Len(hist) + 1)
                 /\ hist' = Append(hist, in)
                 /\ prev' = s

Spec == Init /\ [][Next]_vars

\* ---- properties
NoViolation == PViol(m) = <<>>
NoPanic == s.pc # "Dead"
\* code-shaped counters never go stale
CountersExact ==
    \A c \in 1..3 :
        /\ s.total[c] = Len(SelectSeq(s.events, LAMBDA r : PCls(r.p) = c))
        /\ s.written[c] = Len(SelectSeq(s.events, LAMBDA r : PCls(r.p) = c /\ r.st = "W"))

\* the monitor ledger and the specification agree on which events exist
LedgerAgrees == MonName # "C03" \/
                {m.live[i].id : i \in 1..Len(m.live)} = {s.events[i].id : i \in 1..Len(s.events)}

View == <<s, m>>

\* ---- constant values (cfg files can only hold simple values)
OsPt(ix, cls, L) == [ty |-> "os", ix |-> ix, cls |-> cls, esz |-> L + 2, ssz |-> L, eg |-> 111,
                     ev |-> L, sg |-> 110, sv |-> L]
BiPt(ix, cls)    == [ty |-> "bi", ix |-> ix, cls |-> cls, esz |-> 9, ssz |-> 1, eg |-> 2,
                     ev |-> 2, sg |-> 1, sv |-> 2]
Pts_os2_cap1 == <<OsPt(0, 1, 130), OsPt(1, 2, 130)>>
Pts_os2_cap2 == <<OsPt(0, 1, 100), OsPt(1, 2, 100)>>
Pts_mixed    == <<BiPt(0, 2), OsPt(0, 1, 130)>>   \* class 0 reports in type order
Pts_os_big   == <<BiPt(0, 2), OsPt(0, 1, 250)>>   \* an octet string larger than a 249-byte fragment
Pts_mixed_pk == <<[BiPt(0, 2) EXCEPT !.sv = 1], OsPt(0, 1, 130)>>   \* the binary input is configured packed (g1v1)
EvMax_os2    == <<0, 0, 0, 0, 0, 0, 0, 2>>
EvMax_os1    == <<0, 0, 0, 0, 0, 0, 0, 1>>
EvMax_mixed  == <<2, 0, 0, 0, 0, 0, 0, 2>>
DEV_DisconnectKeepsWritten == {"DisconnectKeepsWritten"}
DEV_EchoUsesFirstHeader == {"EchoUsesFirstHeader"}
DEV_OverflowKeepsWrittenCount == {"OverflowKeepsWrittenCount"}
DEV_UnsolAbortKeepsWritten == {"UnsolAbortKeepsWritten"}
DEV_asbuilt  == {"UnsolAbortKeepsWritten", "OverflowKeepsWrittenCount", "EchoUsesFirstHeader",
                 "DisconnectKeepsWritten", "IdleRepeatRefreshesIin"}
CZ_os        == {"os", "bi"}
Cl123        == {1, 2, 3}

\* ---- abstract-transition cover (behaviour generation, not verification): with CoverView as VIEW
\* TLC explores one representative per (abstract state, incoming input kind), so every such pair
\* reachable within MaxSteps gets a history; ExportAll prints them all
Cap2(n) == IF n > 2 THEN 2 ELSE n
CountSt(st, x) == Cap2(Len(SelectSeq(st.events, LAMBDA r : r.st = x)))
AbsState(st) ==
    <<st.pc, st.cont, st.unsol, st.enabled = {}, st.notBefore # NoTime /\ st.now < st.notBefore,
      st.deferred.has, st.last.has, st.last.resp.has /\ st.last.resp.body # <<>>,
      CountSt(st, "U"), CountSt(st, "S"), CountSt(st, "W"), Cap2(Len(st.selq)), st.ovf, st.isNull,
      Cap2(IF st.retries < 0 THEN 2 ELSE st.retries), Len(st.inbox), st.lastBc, st.restart,
      st.select.has, st.select.has /\ st.select.fid + 1 = st.fid,
      {PCls(st.events[i].p) : i \in 1..Len(st.events)},
      st.series.fin, st.mlast.k>>
InKind(h) == IF h = <<>> THEN <<"init">>
             ELSE LET i == h[Len(h)]
                  IN <<i.k, Fld(i, "f", ""), Fld(i, "rep", FALSE), Fld(i, "uns", FALSE), Fld(i, "src", "M"),
                       Fld(i, "dst", "U"), Fld(i, "bad", ""), Fld(i, "ob", ""), Fld(i, "p", 0),
                       IF i.k = "read" THEN i.hs ELSE <<>>,
                       IF i.k = "adv" THEN i.dt > 50 ELSE FALSE>>
\* abstract transition = (abstract source state, input kind, abstract target state)
CoverView == <<AbsState(prev), InKind(hist), AbsState(s)>>
ExportAll == hist = <<>> \/ PrintT(<<"SCENARIO", ToJson(hist)>>)

\* scenario export: every behaviour prefix of length MaxSteps (simulation mode)
Export == Len(hist) < MaxSteps \/ PrintT(<<"SCENARIO", ToJson(hist)>>)
=============================================================================
