------------------------------ MODULE Mon_C09 ------------------------------
(***************************************************************************)
(* C09 - what one side encodes, the other side's parser decodes to the     *)
(* same objects; the parser accepts an object header only if the bytes     *)
(* present are exactly what it implies.                                    *)
(*                                                                         *)
(* Lines of the codec trace:                                               *)
(*   case  one enumerated header (MC_AppCodec) as built by the harness and *)
(*         what ParsedFragment::parse / HeaderCollection::iter / the       *)
(*         master's extraction said about it                               *)
(*   pair  two exactly encoded headers in one fragment                     *)
(*   frag  a fragment one endpoint transmitted in some other check's run,  *)
(*         re-parsed by the other role's parser and by the harness codec   *)
(* Reasons:                                                                *)
(*   accepted-inexact       bytes short / long / reversed range / unknown  *)
(*                          variation or qualifier accepted                *)
(*   rejected-own-encoding  an exact encoding the library itself produces  *)
(*                          is rejected                                    *)
(*   wrong-summary          accepted, but group / variation / qualifier /  *)
(*                          count / range reported differ from the bytes   *)
(*   iteration-mismatch     iterating an accepted header does not yield    *)
(*                          the declared number of objects / indices       *)
(*   panic                  the parser or an iterator panicked             *)
(*   peer-disagrees         a transmitted fragment is not parsed by the    *)
(*                          peer's parser into what the reference decoder  *)
(*                          reads                                          *)
(***************************************************************************)
EXTENDS AppCodec

MonInit == [viol |-> <<>>, n |-> 0]
V(m, reason, l, ctx) == [m EXCEPT !.viol = IF Len(@) >= 300 THEN @ ELSE Append(@, [prop |-> "C09", reason |-> reason, line |-> l, sc |-> ctx, ctx |-> ctx])]

Accepted(e) == e.hv = "ok" /\ e.ov = "ok" /\ e.role = "ok"
ObjectsOk(e) == e.hv = "ok" /\ e.ov = "ok"
\* frozen analog inputs (g31 / g33) are parsed but have no ReadHandler callback
Measurement(c) == c.g \in (StaticGroups \cup EventGroups \cup {110, 111}) \ {31, 33} /\ Lay(c.g, c.v).k \in {"fixed", "bit1", "bit2", "varlen"}

HeaderMatches(h, c) ==
    /\ h.g = c.g /\ h.v = c.v /\ h.q = c.q
    /\ h.count = ExpCount(c)
    /\ (c.q \in {QR8, QR16} => h.first = c.a /\ h.last = c.b)

CaseStep(m, e, l) ==
    LET c == e.c
        vd == e.exp
        tag == "case " \o ToString(e.id)
    IN IF e.panic THEN V(m, "panic", l, tag)
       ELSE IF vd = "reject" /\ ObjectsOk(e) THEN V(m, "accepted-inexact", l, tag)
       ELSE IF vd = "accept" /\ ~ObjectsOk(e) THEN V(m, "rejected-own-encoding", l, tag)
       ELSE IF ObjectsOk(e) /\ (Len(e.hs) # 1 \/ ~HeaderMatches(e.hs[1], c)) THEN V(m, "wrong-summary", l, tag)
       ELSE IF ObjectsOk(e) /\ c.fnc = "resp" /\ Measurement(c) /\ e.ex /\
               (e.items # ExpCount(c) \/ (c.q \in {QR8, QR16} /\ ExpCount(c) > 0 /\ (e.ifirst # c.a \/ e.ilast # c.b)))
            THEN V(m, "iteration-mismatch", l, tag)
       ELSE m

PairStep(m, e, l) ==
    LET tag == "pair " \o ToString(e.id)
    IN IF e.panic THEN V(m, "panic", l, tag)
       ELSE IF ~ObjectsOk(e) THEN V(m, "rejected-own-encoding", l, tag)
       ELSE IF Len(e.hs) # 2 \/ ~HeaderMatches(e.hs[1], e.c1) \/ ~HeaderMatches(e.hs[2], e.c2) THEN V(m, "wrong-summary", l, tag)
       ELSE IF e.c1.fnc = "resp" /\ Measurement(e.c1) /\ Measurement(e.c2) /\ e.ex /\ e.items # ExpCount(e.c1) + ExpCount(e.c2)
            THEN V(m, "iteration-mismatch", l, tag)
       ELSE m

\* a device attribute: the value must be classified as the data type its code says
AttrStep(m, e, l) ==
    LET tag == "attr " \o ToString(e.id)
    IN IF e.panic THEN V(m, "panic", l, tag)
       ELSE IF e.exp = "reject" /\ ObjectsOk(e) THEN V(m, "accepted-inexact", l, tag)
       ELSE IF e.exp \notin {"reject", "either"} /\ ~ObjectsOk(e) THEN V(m, "rejected-own-encoding", l, tag)
       ELSE IF e.exp \notin {"reject", "either"} /\ (Len(e.hs) # 1 \/ e.hs[1].attr # e.exp) THEN V(m, "wrong-summary", l, tag)
       ELSE m

\* a free-format object: accepted exactly when the declared length is what the object implies
FfStep(m, e, l) ==
    LET tag == "ff " \o ToString(e.id)
        nh == 1 + e.ff.follow
    IN IF e.panic THEN V(m, "panic", l, tag)
       ELSE IF e.exp = "reject" /\ ObjectsOk(e) THEN V(m, "accepted-inexact", l, tag)
       ELSE IF e.exp = "accept" /\ ~ObjectsOk(e) THEN V(m, "rejected-own-encoding", l, tag)
       ELSE IF e.exp = "accept" /\ (Len(e.hs) # nh \/ e.hs[1].g # 70 \/ e.hs[1].v # e.ff.v \/ e.hs[1].q # 91
                                     \/ e.hs[1].count # 1)
            THEN V(m, "wrong-summary", l, tag)
       ELSE m

FragStep(m, e, l) ==
    IF e.panic THEN V(m, "panic", l, e.src)
    ELSE IF ~e.agree THEN V(m, "peer-disagrees", l, e.src)
    ELSE m

MonStep(m, e, l) ==
    LET m1 == [m EXCEPT !.n = @ + 1] IN
    CASE e.k = "case" -> CaseStep(m1, e, l)
      [] e.k = "pair" -> PairStep(m1, e, l)
      [] e.k = "attr" -> AttrStep(m1, e, l)
      [] e.k = "ff" -> FfStep(m1, e, l)
      [] e.k = "frag" -> FragStep(m1, e, l)
      [] OTHER -> m
=============================================================================
