--------------------------- MODULE Trace_Master ---------------------------
(***************************************************************************)
(* Conformance of recorded master-side executions to Master.tla: every     *)
(* line is mapped back to its abstract input, the specification takes that *)
(* step and the predicted event is compared with the recorded one:         *)
(* requests and confirms written (function, sequence, UNS, destination,    *)
(* time), link status requests, callbacks (handler begin/end, task start / *)
(* success / fail with arguments, unsolicited notifications) with times,   *)
(* completions of user requests.                                           *)
(***************************************************************************)
EXTENDS MasterEv, MDevSets, Json, IOUtils

Rec == ndJsonDeserialize(IOEnv.TRACE)
VARIABLES l, s, sc, mode, res
tvars == <<l, s, sc, mode, res>>

PTx(x) == [t |-> x.t, fc |-> x.fc, seq |-> x.seq, uns |-> x.uns, dst |-> x.dst, pid |-> x.pid]
PLtx(x) == [t |-> x.t, dst |-> x.dst]
PCb(c) == [t |-> c.t, k |-> c.k, n |-> c.n, i |-> c.i, s |-> c.s, x |-> c.x]
Cbs(e) == SelectSeq(e.cb, LAMBDA c : ~(c.k = "rh" /\ c.n = "item") /\ c.k # "ah")
PDone(d) == [t |-> d.t, id |-> d.id, res |-> d.res]

Differ(pe, e) ==
    IF Len(pe.tx) # Len(e.tx) THEN "tx-count"
    ELSE IF \E i \in 1..Len(e.tx) : PTx(pe.tx[i]) # PTx(e.tx[i]) THEN "tx"
    ELSE IF Len(pe.ltx) # Len(e.ltx) \/ \E i \in 1..Len(e.ltx) : PLtx(pe.ltx[i]) # PLtx(e.ltx[i]) THEN "ltx"
    ELSE IF Len(Cbs(pe)) # Len(Cbs(e)) THEN "cb-count"
    ELSE IF \E i \in 1..Len(Cbs(e)) : PCb(Cbs(pe)[i]) # PCb(Cbs(e)[i]) THEN "cb"
    ELSE IF Len(pe.done) # Len(e.done) THEN "done-count"
    ELSE IF {PDone(pe.done[i]) : i \in 1..Len(pe.done)} # {PDone(e.done[i]) : i \in 1..Len(e.done)} THEN "done"
    ELSE "ok"

TInit == /\ l = 1 /\ s = Init0 /\ sc = "" /\ mode = "skip"
         /\ res = [ok |-> 0, div |-> <<>>, unmodelled |-> <<>>, steps |-> 0, fired |-> <<>>]
End(r) == IF mode = "run" THEN [r EXCEPT !.ok = @ + 1] ELSE r

\* the scenario's configuration must be the one of this run's constants
CfgMatches(c) == Len(c.assocs) = NA /\ \A a \in 1..NA : c.assocs[a] = Assocs[a]

TNext ==
    /\ l <= Len(Rec) /\ l' = l + 1
    /\ LET e == Rec[l] IN
       IF e.k = "reset" THEN
            /\ s' = [Init0 EXCEPT !.enabled = e.cfg.enabled] /\ sc' = e.id
            /\ mode' = IF CfgMatches(e.cfg) THEN "run" ELSE "skip"
            /\ res' = End(res)
       ELSE IF mode = "skip" \/ e.k \in {"dead", "hang", "bad_scenario", "crash"} THEN UNCHANGED <<s, sc, mode, res>>
       ELSE LET in == InOf(e) IN
            IF in.k = "?" THEN
                /\ mode' = "skip" /\ res' = [res EXCEPT !.unmodelled = Append(@, [sc |-> sc, line |-> l])]
                /\ UNCHANGED <<s, sc>>
            ELSE LET s1 == Apply(s, in)
                     pe == BuildEv(s, in, s1)
                     d == Differ(pe, e)
                 IN /\ s' = s1 /\ sc' = sc
                    /\ IF d = "ok" THEN /\ mode' = mode
                                        /\ res' = [res EXCEPT !.steps = @ + 1,
                                                               !.fired = @ \o SetToSeq({[sc |-> sc, line |-> l, dev |-> x] : x \in s1.devs \ s.devs})]
                       ELSE /\ mode' = "skip"
                            /\ res' = [res EXCEPT !.div = Append(@, [sc |-> sc, line |-> l, what |-> d,
                                    pdone |-> pe.done, edone |-> e.done,
                                    pcb |-> [i \in 1..Len(Cbs(pe)) |-> <<Cbs(pe)[i].n, Cbs(pe)[i].i, Cbs(pe)[i].s, Cbs(pe)[i].t>>],
                                    ecb |-> [i \in 1..Len(Cbs(e)) |-> <<Cbs(e)[i].n, Cbs(e)[i].i, Cbs(e)[i].s, Cbs(e)[i].t>>],
                                    ptx |-> [i \in 1..Len(pe.tx) |-> PTx(pe.tx[i])] \o [i \in 1..Len(pe.ltx) |-> PLtx(pe.ltx[i])],
                                    etx |-> [i \in 1..Len(e.tx) |-> PTx(e.tx[i])] \o [i \in 1..Len(e.ltx) |-> PLtx(e.ltx[i])]])]

TSpec == TInit /\ [][TNext]_tvars
Finished == l <= Len(Rec) \/ JsonSerialize(IOEnv.OUT, [lines |-> Len(Rec), res |-> End(res)])

\* ---- constant values
A_quiet(addr) == [addr |-> addr, rt |-> 1000, dis |-> FALSE, integ |-> FALSE, en |-> FALSE, tsync |-> "",
                  rmin |-> 1000, rmax |-> 4000, ka |-> -1, ovfInteg |-> FALSE, evscan |-> FALSE, maxq |-> 2, clock |-> TRUE]
A_full(addr) == [addr |-> addr, rt |-> 1000, dis |-> TRUE, integ |-> TRUE, en |-> TRUE, tsync |-> "",
                 rmin |-> 1000, rmax |-> 4000, ka |-> -1, ovfInteg |-> TRUE, evscan |-> FALSE, maxq |-> 2, clock |-> TRUE]
A_ka(addr) == [A_quiet(addr) EXCEPT !.ka = 3000]
Cfg_quiet1 == <<A_quiet(1024)>>
Cfg_full1 == <<A_full(1024)>>
Cfg_quiet2 == <<A_quiet(1024), A_quiet(1025)>>
Cfg_ka2 == <<A_ka(1024), A_quiet(1025)>>
Cfg_quiet3 == <<A_quiet(1024), A_quiet(1025), A_quiet(1026)>>
Cfg_tsync1 == <<[A_full(1024) EXCEPT !.tsync = "nonlan"]>>
Cfg_tlan1 == <<[A_full(1024) EXCEPT !.tsync = "lan"]>>
Cfg_noclock1 == <<[A_quiet(1024) EXCEPT !.clock = FALSE]>>
Cfg_tnoclock1 == <<[A_full(1024) EXCEPT !.tsync = "nonlan", !.clock = FALSE]>>
DEVM_none == {}
DEVM_d9 == {"NoConfirmForNonRead"}
=============================================================================
