------------------------------ MODULE EvLedger ------------------------------
(***************************************************************************)
(* The event ledger shared by Mon_C03 (no event lost / invented / released *)
(* early) and Mon_C13 (IIN bits tell the truth).  It is built only from    *)
(* observed events: UpdateInfo results, transmitted fragments, received    *)
(* fragments, confirm callbacks and virtual time.                          *)
(*                                                                         *)
(*   live      events recorded and not yet released / discarded, oldest    *)
(*             first: [id, ty, ix, cls, val, fl, tm]                       *)
(*   sol, uns  the most recent solicited / unsolicited fragment that asked *)
(*             for confirmation: which event ids it carried, when it was   *)
(*             last (re)transmitted, whether it is still awaiting          *)
(*   rd        the READ whose first response fragment has not been seen    *)
(*   ser       the response series in progress: ids still expected (S)     *)
(***************************************************************************)
EXTENDS MonBase

NoFrag == [has |-> FALSE, active |-> FALSE, seq |-> -1, bid |-> -1, ids |-> <<>>,
           t |-> 0, sends |-> 0, bc |-> 0]      \* bc: generation of the broadcast this fragment reported

LInit(cfg, sc, viol) ==
    [cfg |-> cfg, sc |-> sc, viol |-> viol,
     live |-> <<>>, released |-> {},
     sol |-> NoFrag, uns |-> NoFrag,
     rd  |-> [pend |-> FALSE, seq |-> -1, hdrs |-> <<>>, bid |-> -1],
     ser |-> [active |-> FALSE, S |-> <<>>, check |-> FALSE, next |-> -1, hdrs |-> <<>>],
     ovf |-> FALSE, rst |-> TRUE,
     bc  |-> [set |-> FALSE, man |-> FALSE, reported |-> FALSE, maybe |-> FALSE, gen |-> 0],
     app |-> cfg.app,
     lastReq |-> [bid |-> -1, seq |-> -1],
     repeat |-> FALSE,
     sent |-> {}]

AddViol(L, p, reason, l, ctx) == [L EXCEPT !.viol = IF Len(@) >= 2000 THEN @ ELSE Append(@, Viol(p, reason, l, L.sc, ctx))]

LiveIds(L) == {L.live[i].id : i \in 1..Len(L.live)}
CountCls(L, c) == Len(SelectSeq(L.live, LAMBDA ev : ev.cls = c))
CountTy(L, ty) == Len(SelectSeq(L.live, LAMBDA ev : ev.ty = ty))

\* a fragment is "still awaiting confirmation" while it is active and its confirm timer runs
Awaiting(f, L, t) == f.has /\ f.active /\ t < f.t + L.cfg.confirm_to
\* ids that are part of a response still awaiting confirmation at time t
InFlight(L, t) ==
    (IF Awaiting(L.sol, L, t) THEN SeqToSet(L.sol.ids) ELSE {})
    \cup (IF Awaiting(L.uns, L, t) THEN SeqToSet(L.uns.ids) ELSE {})

-----------------------------------------------------------------------------
(* updates *)

ApplyItem(L, it, l) ==
    LET cls == PointCls(L.cfg, it.ty, it.ix)
        rec == [id |-> it.id, ty |-> it.ty, ix |-> it.ix, cls |-> cls,
                val |-> it.val, fl |-> it.fl, tm |-> it.tm]
    IN CASE it.info = "created" ->
              [L EXCEPT !.live = Append(@, rec)]
         [] it.info = "overflow" ->
              LET victim == SelectSeq(L.live, LAMBDA ev : ev.id = it.disc)
                  L1 == IF victim = <<>>
                          THEN AddViol(L, "C03", "bad-discard", l, "discarded id not live")
                        ELSE IF victim[1].ty # it.ty
                          THEN AddViol(L, "C03", "bad-discard", l, "discarded another type")
                        ELSE L
              IN [L1 EXCEPT !.live = Append(SelectSeq(@, LAMBDA ev : ev.id # it.disc), rec),
                            !.sol.ids = RemoveIds(@, {it.disc}),
                            !.uns.ids = RemoveIds(@, {it.disc}),
                            !.ser.S = RemoveIds(@, {it.disc}),
                            !.ovf = TRUE]
         [] OTHER -> L

ApplyUpd(L, e, l) == FoldLeft(LAMBDA acc, it : ApplyItem(acc, it, l), L, e.items)

-----------------------------------------------------------------------------
(* releases: cleared(id) callbacks must be justified by the stimulus of this line *)

ClearedIds(e) == LET cs == Cbs(e, "app", "cleared") IN [i \in 1..Len(cs) |-> cs[i].i[1]]

ApplyRelease(L, e, l) ==
    LET cleared == ClearedIds(e)
        cset    == SeqToSet(cleared)
        isConf  == IsConfirm(e) /\ SrcOk(e, L.cfg) /\ Unicast(e, L.cfg)
        f       == IF isConf THEN (IF e.uns THEN L.uns ELSE L.sol) ELSE NoFrag
        matches == isConf /\ f.has /\ f.seq = e.seq
        allowed == IF matches THEN SeqToSet(f.ids) ELSE {}
        required == IF matches /\ Awaiting(f, L, e.t) THEN SeqToSet(f.ids) ELSE {}
        L1 == IF HasDup(cleared) \/ cset \cap L.released # {}
                THEN AddViol(L, "C03", "double-release", l, "event released twice") ELSE L
        L2 == IF ~(cset \subseteq allowed)
                THEN AddViol(L1, "C03", "released-unconfirmed", l,
                             "event released without a confirmed response that carried it")
                ELSE L1
        L3 == IF ~(required \subseteq cset)
                THEN AddViol(L2, "C03", "not-released", l,
                             "confirmed response but its events were not released")
                ELSE L2
        \* a matching confirm that arrives in time ends the wait whether or not events were carried
        L4 == IF matches /\ (Awaiting(f, L, e.t) \/ cset # {})
                THEN (IF e.uns THEN [L3 EXCEPT !.uns.active = FALSE]
                               ELSE [L3 EXCEPT !.sol.active = FALSE])
                ELSE L3
    IN [L4 EXCEPT !.live = SelectSeq(@, LAMBDA ev : ev.id \notin cset),
                  !.released = @ \cup cset,
                  !.sol.ids = RemoveIds(@, cset),
                  !.uns.ids = RemoveIds(@, cset),
                  !.ser.S = RemoveIds(@, cset)]

\* end_confirm reports how many events remain: must agree with the ledger
CheckCounts(L, e, l) ==
    LET ends == Cbs(e, "app", "end_confirm")
    IN IF ends = <<>> THEN L
       ELSE LET c == ends[Len(ends)].i
            IN IF Len(c) >= 3 /\ (c[1] # CountCls(L, 1) \/ c[2] # CountCls(L, 2) \/ c[3] # CountCls(L, 3))
                 THEN AddViol(L, "C03", "count-mismatch", l,
                              "buffer state reported after confirm disagrees with the ledger (event lost or kept)")
                 ELSE L

\* overflow latch: cleared when a confirmation leaves every type below capacity
AnyFull(L) == \E i \in 1..8 : L.cfg.evmax[i] > 0 /\
                  Len(SelectSeq(L.live, LAMBDA ev : TypeIndex(ev.ty) = i)) >= L.cfg.evmax[i]
ApplyOvfClear(L, e) ==
    IF Cbs(e, "app", "end_confirm") # <<>> /\ ~AnyFull(L) THEN [L EXCEPT !.ovf = FALSE] ELSE L

-----------------------------------------------------------------------------
(* stimulus bookkeeping *)

\* executed WRITE of g80v1 index 7 = 0 clears the restart latch
ClearsRestart(e) ==
    e.fc = 2 /\ e.wf /\ \E i \in 1..Len(e.robjs) :
        e.robjs[i].g = 80 /\ e.robjs[i].ix = 7 /\ e.robjs[i].val = "0"

ApplyStimulus(L, e, l) ==
    LET L0 == [L EXCEPT !.repeat = FALSE]
    IN
    CASE e.k = "upd" -> ApplyUpd(L0, e, l)
      [] e.k = "cut" -> [L0 EXCEPT !.sol.active = FALSE, !.uns.active = FALSE,
                                   !.rd.pend = FALSE, !.ser.active = FALSE,
                                   !.lastReq = [bid |-> -1, seq |-> -1]]
      [] e.k = "conn" -> [L0 EXCEPT !.sol.active = FALSE, !.uns.active = FALSE,
                                    !.rd.pend = FALSE, !.ser.active = FALSE,
                                    !.lastReq = [bid |-> -1, seq |-> -1], !.sent = {}]
      [] e.k = "app" ->
            [L0 EXCEPT !.app = [time    |-> IF e.app.time = -1 THEN @.time ELSE e.app.time = 1,
                                local   |-> IF e.app.local = -1 THEN @.local ELSE e.app.local = 1,
                                trouble |-> IF e.app.trouble = -1 THEN @.trouble ELSE e.app.trouble = 1,
                                cfg     |-> IF e.app.cfg = -1 THEN @.cfg ELSE e.app.cfg = 1]]
      [] e.k = "raw" \/ e.k = "lrx" ->
            \* line noise / bare link frames: in Close mode the session may end; nothing is required
            \* of an awaiting fragment any more
            IF e.k = "raw" THEN [L0 EXCEPT !.sol.active = FALSE, !.uns.active = FALSE,
                                           !.rd.pend = FALSE, !.ser.active = FALSE]
            ELSE L0
      [] e.k = "rx" ->
            LET L1 == ApplyRelease(L0, e, l)
                L2 == ApplyOvfClear(CheckCounts(L1, e, l), e)
                acted == SrcOk(e, L.cfg) /\ (Unicast(e, L.cfg) \/ Broadcast(e)) /\ ~e.noconn
            IN IF ~acted THEN L2
               ELSE IF IsConfirm(e) THEN
                  \* a mandatory-broadcast indication is cleared by the confirm of a response that
                  \* reported it; after any other confirm its state is not determined by the property
                  LET f == IF e.uns THEN L.uns ELSE L.sol
                      hit == f.has /\ f.seq = e.seq /\ Awaiting(f, L, e.t)
                  IN IF L2.bc.set /\ L2.bc.man /\ hit /\ f.bc = L2.bc.gen
                       THEN [L2 EXCEPT !.bc.set = FALSE]
                     \* the right confirm for the reporting fragment, but no longer awaited (late): left open
                     ELSE IF L2.bc.set /\ L2.bc.man /\ f.has /\ f.seq = e.seq /\ f.bc = L2.bc.gen
                       THEN [L2 EXCEPT !.bc.maybe = TRUE]
                       ELSE L2
               ELSE
                  LET rep == Unicast(e, L.cfg) /\ e.bid = L.lastReq.bid /\ e.seq = L.lastReq.seq
                      L3 == [L2 EXCEPT
                                \* any new request ends a solicited confirm wait
                                !.sol.active = IF rep /\ e.fc = 1 THEN @ ELSE FALSE,
                                !.ser.active = IF rep /\ e.fc = 1 THEN @ ELSE FALSE,
                                !.repeat = rep,
                                !.lastReq = IF Unicast(e, L.cfg) /\ e.wf /\ ProcessedNow(e)
                                              THEN [bid |-> e.bid, seq |-> e.seq]
                                              ELSE @,
                                !.rd = IF e.fc = 1 /\ Unicast(e, L.cfg) /\ e.wf
                                         THEN [pend |-> TRUE, seq |-> e.seq, hdrs |-> e.hdrs, bid |-> e.bid]
                                         ELSE [@ EXCEPT !.pend = FALSE],
                                \* (a unicast WRITE takes effect when its reply is written, see ApplyTx)
                                !.rst = IF ClearsRestart(e) /\ Broadcast(e) /\ L.cfg.broadcast
                                          THEN FALSE ELSE @,
                                \* a fragment rejected at the application header (unknown function code,
                                \* bad header flags) never reaches the place where the broadcast is
                                \* latched: whether it counts as "a received broadcast" is left open
                                !.bc = IF Broadcast(e) /\ e.fc <= 33 /\ e.fir /\ e.fin /\ ~e.uns
                                         THEN [set |-> TRUE, man |-> e.dst = "BC_MAN", reported |-> FALSE,
                                               maybe |-> FALSE, gen |-> @.gen + 1]
                                       ELSE IF Broadcast(e) THEN [@ EXCEPT !.maybe = TRUE]
                                       ELSE @]
                  IN L3
      [] OTHER -> L0

-----------------------------------------------------------------------------
(* transmitted fragments *)

EvObjs(x) == SelectSeq(x.objs, LAMBDA o : o.ev)

\* match the event objects of a fragment, oldest candidate first
MatchObj(st, o, live) ==
    LET cands == SelectSeq(live, LAMBDA ev :
                    /\ ev.id \notin st.used /\ ev.ty = o.ty /\ ev.ix = o.ix
                    /\ ev.val = o.val
                    /\ (o.fl = -1 \/ o.fl = ev.fl)      \* fields the variation does not carry
                    /\ (o.tm = "" \/ o.tm = ev.tm))
    IN IF cands = <<>> THEN [st EXCEPT !.bad = @ + 1]
       ELSE [st EXCEPT !.ids = Append(@, cands[1].id), !.used = @ \cup {cands[1].id}]

MatchFragment(L, x) ==
    FoldLeft(LAMBDA st, o : MatchObj(st, o, L.live), [ids |-> <<>>, used |-> {}, bad |-> 0], EvObjs(x))

\* which live events does a READ select (transcription of the selection rule: headers in order,
\* each takes the oldest not-yet-selected matching events up to its count limit)
SelHeader(sel, h, live) ==
    LET isCls == h.g = 60 /\ h.v \in 2..4
        isEv  == h.g \in EventGroups
        limit == IF h.q \in {7, 8} THEN h.a ELSE 1000000
        cands == SelectSeq(live, LAMBDA ev :
                    /\ ev.id \notin sel
                    /\ (IF isCls THEN ev.cls = h.v - 1 ELSE isEv /\ ev.ty = TypeOfEvGroup(h.g)))
        n == Min2(limit, Len(cands))
    IN sel \cup {cands[i].id : i \in 1..n}

Selected(L, hdrs) ==
    LET sel == FoldLeft(LAMBDA acc, h : SelHeader(acc, h, L.live), {}, hdrs)
        pick == SelectSeq(L.live, LAMBDA ev : ev.id \in sel)
    IN [i \in 1..Len(pick) |-> pick[i].id]

\* headers whose effect on event selection the ledger models
HdrModelled(h) ==
    \/ h.g = 60 /\ h.v = 1
    \/ h.g = 60 /\ h.v \in 2..4 /\ h.q \in {6, 7, 8}
    \/ h.g \in EventGroups /\ h.q \in {6, 7, 8}
    \/ h.g \in {1, 3, 10, 20, 21, 30, 40, 110}
AllModelled(hdrs) == \A i \in 1..Len(hdrs) : HdrModelled(hdrs[i])

\* the variation an event object may be reported in: the point's configured event variation, or a
\* variation the READ being answered names explicitly for that group (octet strings: the length)
PointEvar(cfg, ty, ix) ==
    LET ps == SelectSeq(cfg.points, LAMBDA p : p.ty = ty /\ p.ix = ix)
    IN  IF ps = <<>> THEN 0 ELSE ps[1].evar
VarOk(L, o, hdrs) ==
    \/ o.ty = "os"
    \/ o.v = PointEvar(L.cfg, o.ty, o.ix)
    \/ \E i \in 1..Len(hdrs) : hdrs[i].g = o.g /\ hdrs[i].v = o.v /\ hdrs[i].v # 0

IsPrefixOf(a, b) == Len(a) <= Len(b) /\ \A i \in 1..Len(a) : a[i] = b[i]

\* a re-sent fragment (unsolicited retry, echo of a repeated READ in the confirm wait) is the same
\* fragment again: nothing is matched anew, only its confirm timer restarts
IsUnsolRetry(L, x) == x.uns /\ L.uns.has /\ L.uns.active /\ L.uns.seq = x.seq /\ L.uns.bid = x.bid
IsSolEcho(L, x)    == ~x.uns /\ L.repeat /\ Awaiting(L.sol, L, x.t)

\* the reply to DISABLE_UNSOLICITED marks the moment the request took effect: an unsolicited
\* fragment transmitted earlier (possibly earlier on this very line) is no longer awaited
\* (a retransmitted DISABLE is not executed again and ends nothing)
EndsUnsolWait(L, e, x) == ~x.uns /\ e.k = "rx" /\ e.fc = 21 /\ e.wf /\ x.seq = e.seq /\ ~L.repeat

\* the reply to an executed WRITE of g80v1[7]=0 marks the moment the restart latch was cleared (an
\* unsolicited response written earlier on the same line still shows the bit)
ClearsRestartNow(L, e, x) == ~x.uns /\ e.k = "rx" /\ x.seq = e.seq /\ ClearsRestart(e) /\ ~L.repeat
                               /\ SrcOk(e, L.cfg) /\ Unicast(e, L.cfg)

ApplyTx(L000, x, e, l) ==
    LET L00 == IF ClearsRestartNow(L000, e, x) THEN [L000 EXCEPT !.rst = FALSE] ELSE L000
        L == IF EndsUnsolWait(L00, e, x) THEN [L00 EXCEPT !.uns.active = FALSE] ELSE L00 IN
    IF IsUnsolRetry(L, x) THEN [L EXCEPT !.uns.t = x.t, !.uns.sends = @ + 1, !.sent = @ \cup {x.bid}]
    ELSE IF IsSolEcho(L, x) THEN [L EXCEPT !.sol.t = x.t, !.sol.sends = @ + 1, !.rd.pend = FALSE,
                                           !.sent = @ \cup {x.bid}]
    ELSE
    LET mt  == MatchFragment(L, x)
        ids == mt.ids
        L0 == [L EXCEPT !.sent = @ \cup {x.bid}]
        L1 == IF mt.bad > 0
                THEN AddViol(L0, "C03", "no-match", l,
                             "transmitted event object matches no recorded, unreleased event (invented or altered)")
                ELSE L0
        L2a == IF ~Ascending(ids)
                THEN AddViol(L1, "C03", "order", l, "events not reported oldest first")
                ELSE L1
        hdrsNow == IF x.uns THEN <<>>
                   ELSE IF x.fir /\ L.rd.pend /\ x.seq = L.rd.seq THEN L.rd.hdrs ELSE L.ser.hdrs
        L2 == IF \E i \in 1..Len(x.objs) : x.objs[i].ev /\ ~VarOk(L, x.objs[i], hdrsNow)
                THEN AddViol(L2a, "C03", "wrong-variation", l,
                             "event reported in a variation that is neither configured nor requested (fields dropped or altered)")
                ELSE L2a
    IN
    IF x.uns THEN
        [L2 EXCEPT !.uns = [has |-> TRUE, active |-> x.con, seq |-> x.seq, bid |-> x.bid,
                            ids |-> ids, t |-> x.t, sends |-> 1, bc |-> IF x.iin.bc THEN L2.bc.gen ELSE 0]]
    ELSE
        \* solicited: start of a series?
        LET starts == x.fir /\ L2.rd.pend /\ x.seq = L2.rd.seq
            L3 == IF starts
                    THEN [L2 EXCEPT !.rd.pend = FALSE,
                                    \* a deferred READ becomes "the request processed last" when it is answered
                                    !.lastReq = [bid |-> L2.rd.bid, seq |-> L2.rd.seq],
                                    !.ser = [active |-> TRUE, hdrs |-> L2.rd.hdrs,
                                             S |-> Selected(L2, L2.rd.hdrs),
                                             check |-> AllModelled(L2.rd.hdrs) /\ ~Iin2Err(x),
                                             next |-> x.seq]]
                    ELSE L2
            inSeries == L3.ser.active /\ x.seq = L3.ser.next /\ (starts \/ ~x.fir)
            L4 == IF inSeries /\ L3.ser.check /\ ~IsPrefixOf(ids, L3.ser.S)
                    THEN AddViol(L3, "C03", "withheld", l,
                                 "poll response skips an eligible event while carrying a younger one")
                    ELSE L3
            rest == IF inSeries THEN RemoveIds(L4.ser.S, SeqToSet(ids)) ELSE L4.ser.S
            L5 == IF inSeries /\ L4.ser.check /\ x.fin /\ rest # <<>> /\ IsPrefixOf(ids, L4.ser.S)
                    THEN AddViol(L4, "C03", "withheld", l,
                                 "final response of a poll omits eligible events")
                    ELSE L4
            L6 == IF inSeries
                    THEN [L5 EXCEPT !.ser.S = rest, !.ser.next = Seq16(x.seq + 1),
                                    !.ser.active = ~x.fin]
                    ELSE L5
        IN IF x.con \/ ids # <<>>
             THEN [L6 EXCEPT !.sol = [has |-> TRUE, active |-> x.con, seq |-> x.seq, bid |-> x.bid,
                                      ids |-> ids, t |-> x.t, sends |-> 1, bc |-> IF x.iin.bc THEN L2.bc.gen ELSE 0]]
             ELSE L6

=============================================================================
