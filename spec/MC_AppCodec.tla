---------------------------- MODULE MC_AppCodec ----------------------------
(***************************************************************************)
(* Enumeration of the object-header product space of AppCodec.tla: every   *)
(* known variation (and some unknown ones) x every qualifier (and some     *)
(* undefined ones) x boundary counts / ranges x function class x           *)
(* {one byte short, exact, one byte long}, plus pairs of headers.  TLC     *)
(* prints each case with the number of data bytes the table implies; the   *)
(* harness builds the bytes and asks the library's parser.                 *)
(***************************************************************************)
EXTENDS AppCodec, Json

CONSTANTS Part, Parts     \* the enumeration is split into Parts slices (by group) to bound the output of one run
VARIABLE x

MaxBytes == 6000          \* larger implied encodings are only offered truncated

Fields(q) ==
    CASE q = QR8  -> {<<0, 0>>, <<0, 1>>, <<5, 5>>, <<0, 255>>, <<255, 255>>, <<254, 255>>, <<3, 2>>, <<7, 14>>}
      [] q = QR16 -> {<<0, 0>>, <<0, 255>>, <<0, 256>>, <<65535, 65535>>, <<65534, 65535>>, <<0, 65535>>, <<7, 3>>, <<300, 308>>}
      [] q = QAll -> {<<0, 0>>}
      [] q \in {QC8, QCP8} -> {<<0, 0>>, <<1, 0>>, <<2, 0>>, <<9, 0>>, <<255, 0>>}
      [] q \in {QC16, QCP16} -> {<<0, 0>>, <<1, 0>>, <<2, 0>>, <<256, 0>>, <<65535, 0>>}
      [] OTHER -> {<<0, 0>>, <<1, 1>>}

FnClasses == {"read", "write", "resp"}
Mk(gv, q, f, fnc, d) == [g |-> gv[1], v |-> gv[2], q |-> q, a |-> f[1], b |-> f[2], fnc |-> fnc, delta |-> d]

Cases ==
    UNION {UNION {UNION {{Mk(gv, q, f, fnc, d) : d \in {-1, 0, 1}, fnc \in FnClasses} : f \in Fields(q)} : q \in Qualifiers} :
                  gv \in {p \in KnownVars : p[1] % Parts = Part /\ Lay(p[1], p[2]).k \notin {"free", "attr"}}}
       \cup (IF Part = 0 THEN
               UNION {{Mk(gv, q, f, fnc, 0) : f \in Fields(q), fnc \in FnClasses} : gv \in UnknownVars, q \in {QR8, QAll, QCP16}}
               \cup {Mk(gv, q, <<0, 1>>, fnc, 0) : gv \in {<<1, 2>>, <<30, 1>>, <<2, 1>>, <<12, 1>>, <<60, 2>>}, q \in BadQualifiers, fnc \in FnClasses}
             ELSE {})

\* bytes of object data the harness must supply for case c (implied + delta, truncated when huge); -1 = cut the header
Supply(c) ==
    LET d == DataLen(c.g, c.v, c.q, c.a, c.b, c.fnc)
    IN IF d + c.delta > MaxBytes THEN [n |-> 300, cut |-> TRUE]
       ELSE [n |-> d + c.delta, cut |-> FALSE]
Usable(c) == ~(Supply(c).cut /\ c.delta # -1)       \* a huge case is kept once, as the truncated one
Line(c) == [c |-> c, n |-> Supply(c).n]

\* pairs of exactly encoded headers the library produces: consumption of the first decides where the second starts
PairPool(fnc) ==
    CASE fnc = "resp" -> {Mk(<<1, 2>>, QR8, <<0, 1>>, fnc, 0), Mk(<<1, 1>>, QR8, <<0, 8>>, fnc, 0), Mk(<<3, 1>>, QR16, <<3, 7>>, fnc, 0),
                          Mk(<<30, 1>>, QR8, <<5, 5>>, fnc, 0), Mk(<<2, 2>>, QCP16, <<2, 0>>, fnc, 0), Mk(<<32, 8>>, QCP16, <<1, 0>>, fnc, 0),
                          Mk(<<110, 4>>, QR8, <<0, 1>>, fnc, 0), Mk(<<111, 3>>, QCP16, <<2, 0>>, fnc, 0), Mk(<<51, 1>>, QC8, <<1, 0>>, fnc, 0),
                          Mk(<<2, 3>>, QCP16, <<2, 0>>, fnc, 0), Mk(<<20, 6>>, QR16, <<256, 257>>, fnc, 0), Mk(<<12, 1>>, QCP8, <<2, 0>>, fnc, 0)}
      [] fnc = "write" -> {Mk(<<12, 1>>, QCP8, <<2, 0>>, fnc, 0), Mk(<<12, 1>>, QCP16, <<1, 0>>, fnc, 0), Mk(<<41, 2>>, QCP8, <<3, 0>>, fnc, 0),
                           Mk(<<41, 4>>, QCP16, <<1, 0>>, fnc, 0), Mk(<<80, 1>>, QR8, <<7, 7>>, fnc, 0), Mk(<<50, 1>>, QC8, <<1, 0>>, fnc, 0)}
      [] OTHER -> {Mk(<<60, 2>>, QAll, <<0, 0>>, fnc, 0), Mk(<<60, 3>>, QC8, <<5, 0>>, fnc, 0), Mk(<<1, 2>>, QR8, <<0, 7>>, fnc, 0),
                   Mk(<<30, 0>>, QAll, <<0, 0>>, fnc, 0), Mk(<<2, 0>>, QC16, <<300, 0>>, fnc, 0), Mk(<<20, 1>>, QR16, <<0, 65535>>, fnc, 0)}
Pairs == IF Part # 0 THEN {} ELSE UNION {{<<p, q>> : p \in PairPool(fnc), q \in PairPool(fnc)} : fnc \in FnClasses}

ASSUME \A c \in Cases : ~Usable(c) \/ PrintT(<<"CASE", ToJson([c |-> c, n |-> Supply(c).n, exp |-> Verdict(IF Supply(c).cut THEN [c EXCEPT !.delta = -1] ELSE c)])>>)
ASSUME \A pq \in Pairs : PrintT(<<"PAIR", ToJson([c1 |-> pq[1], n1 |-> Supply(pq[1]).n, c2 |-> pq[2], n2 |-> Supply(pq[2]).n])>>)

\* device attributes: every data type code (and undefined ones) x lengths around the legal ones x {short, exact, long}
AttrCases == IF Part # 0 THEN {} ELSE
    {[v |-> v, set |-> st, code |-> cd, len |-> ln, delta |-> d, fnc |-> f] :
        v \in {1, 196, 211, 252}, st \in {0, 7}, cd \in {0, 1, 2, 3, 4, 5, 6, 7, 8, 100, 254}, ln \in {0, 1, 2, 3, 4, 5, 6, 8, 40},
        d \in {-1, 0, 1}, f \in {"write", "resp"}}
ASSUME \A a \in AttrCases : (a.len + a.delta < 0) \/ PrintT(<<"ATTR", ToJson([at |-> a, exp |-> AttrType(a)])>>)

\* free-format objects
FfCases == IF Part # 0 THEN {} ELSE
    {[v |-> v, n |-> n, delta |-> d, follow |-> fo, trunc |-> tr, fnc |-> f] :
        v \in 2..8, n \in {0, 3, 40}, d \in {-1, 0, 2}, fo \in {0, 1}, tr \in {0, 1}, f \in {"write", "resp"}}
ASSUME \A c \in FfCases : (FfFixed(c.v) + c.n + c.delta < 0) \/ PrintT(<<"FF", ToJson([ff |-> c, exp |-> FfVerdict(c)])>>)

Init == x = 0
Next == x' = x
Spec == Init /\ [][Next]_x
=============================================================================
