------------------------------ MODULE Mon_C19 ------------------------------
(***************************************************************************)
(* C19 - Master scheduling: requests first and in order, polls on period,  *)
(* one at a time.                                                           *)
(*                                                                         *)
(* The monitor keeps the user requests accepted and not yet started (Q, in *)
(* submission order), the polls with the earliest instant each may run     *)
(* next, the last link activity per association and whether a request is   *)
(* outstanding; the callbacks and link-status requests of a line are       *)
(* merged by virtual time and examined in order.                           *)
(*   fifo                 a user task started that is not the oldest       *)
(*                        accepted request of its association              *)
(*   poll-before-request  a periodic poll started while a user request is  *)
(*                        waiting                                          *)
(*   poll-early           a periodic poll started before completion of its *)
(*                        previous run + period without being demanded     *)
(*   poll-starved         channel idle at the end of a line although a     *)
(*                        poll is due (or demanded)                        *)
(*   no-turns             an association served again while another one    *)
(*                        has had the same request waiting since the       *)
(*                        first one's previous turn                        *)
(*   keepalive-early      link status request before the configured        *)
(*                        silence (or without keep-alive configured)       *)
(*   two-outstanding      a request started while another is outstanding   *)
(*   spin                 the master does not come to rest (watchdog)      *)
(***************************************************************************)
EXTENDS MMonBase

TaskKinds == {"read", "cmd", "restart", "link_status", "empty", "time"}
KindOfName(n) == CASE n = "UserRead" -> "read" [] n = "Command" -> "cmd" [] n = "Restart" -> "restart"
                   [] n = "GenericEmptyResponse" -> "empty" [] n = "TimeSync" -> "time" [] OTHER -> ""

MonInit == [cfg |-> [assocs |-> <<>>], sc |-> "", viol |-> <<>>,
            up |-> FALSE, en |-> TRUE, pipe |-> FALSE,
            Q |-> <<>>,             \* <<[id, kind, a, t]>>
            polls |-> <<>>,         \* <<[a, pid, period, next, dem]>>
            runPoll |-> [a |-> 0, pid |-> -1],
            nout |-> 0, link |-> [on |-> FALSE, t |-> 0, a |-> 0],
            act |-> <<>>,           \* <<[a, t]>> last link activity
            served |-> 0, waiting |-> {}, since |-> <<>>, sawIin |-> FALSE,
            runId |-> 0,            \* id of the user request whose task is running (0: none / an automatic task)
            runA |-> 0,             \* association of the outstanding request
            ghost |-> FALSE]        \* the outstanding request belongs to an association that has been removed: its end
                                    \* (answer, timeout) is not reported to anybody
V(m, reason, l, ctx) == [m EXCEPT !.viol = IF Len(@) >= 300 THEN @ ELSE Append(@, Viol("C19", reason, l, m.sc, ctx))]

Quiet(cfg) == \A i \in 1..Len(cfg.assocs) : ~cfg.assocs[i].dis /\ ~cfg.assocs[i].integ /\ ~cfg.assocs[i].en
                                             /\ cfg.assocs[i].tsync = ""
QOf(m, a) == SelectSeq(m.Q, LAMBDA r : r.a = a)
ActOf(m, a) == LET xs == SelectSeq(m.act, LAMBDA x : x.a = a) IN IF xs = <<>> THEN 0 ELSE xs[1].t
PollIx(m, a, pid) == IF \E i \in 1..Len(m.polls) : m.polls[i].a = a /\ m.polls[i].pid = pid
                       THEN CHOOSE i \in 1..Len(m.polls) : m.polls[i].a = a /\ m.polls[i].pid = pid ELSE 0
DropId(q, id) == SelectSeq(q, LAMBDA r : r.id # id)

\* a link status request resolves silently: by any fragment received or after the response timeout
LinkExpire(m, t) == IF m.link.on /\ IsAssoc(m.cfg, m.link.a) /\ t >= m.link.t + ACfg(m.cfg, m.link.a).rt
                      THEN [m EXCEPT !.link.on = FALSE, !.nout = 0] ELSE m

Begin(m, l, what) == IF m.nout > 0 /\ ~m.ghost THEN V(m, "two-outstanding", l, "request started while another one is outstanding: " \o what)
                     ELSE [m EXCEPT !.nout = 1, !.ghost = FALSE]

\* ---- items of a line in order: callbacks and link status requests
CbItem(m0, e, c, l) ==
    LET m == LinkExpire(m0, c.t) IN
    IF c.k # "ai" \/ c.n \notin {"task_start", "task_success", "task_fail"} THEN m
    ELSE
    LET a == c.i[1] IN
    IF c.n = "task_start" THEN
        LET m1 == [Begin(m, l, c.s) EXCEPT !.runA = a]
            \* a time synchronisation is a user task only if one is at the head of the association's queue;
            \* otherwise it is the automatic one of the start-up sequence
            userTask == KindOfName(c.s) # "" /\ (c.s # "TimeSync" \/ (QOf(m, a) # <<>> /\ QOf(m, a)[1].kind = "time"))
        IN
        IF userTask THEN
            LET qa == QOf(m1, a)
                okHead == qa # <<>> /\ qa[1].kind = KindOfName(c.s)
                m2 == IF ~okHead THEN V(m1, "fifo", l, "user task started that is not the oldest accepted request of its association: " \o c.s) ELSE m1
                victim == IF okHead THEN qa[1].id
                          ELSE LET same == SelectSeq(qa, LAMBDA r : r.kind = KindOfName(c.s)) IN IF same = <<>> THEN -1 ELSE same[1].id
                \* turns: an association that was waiting (same oldest request) when `a` was served last must have been
                \* served before `a` is served again
                prevW == LET xs == SelectSeq(m.since, LAMBDA r : r.a = a) IN IF xs = <<>> THEN {} ELSE xs[1].w
                m3 == IF \E w \in prevW : w.a # a /\ QOf(m2, w.a) # <<>> /\ QOf(m2, w.a)[1].id = w.id
                        THEN V(m2, "no-turns", l, "association served again while another one has been waiting since its previous turn") ELSE m2
                q1 == DropId(m3.Q, victim)
                addrs == {q1[i].a : i \in 1..Len(q1)}
                wnow == {[a |-> b, id |-> SelectSeq(q1, LAMBDA r : r.a = b)[1].id] : b \in addrs}
            IN [m3 EXCEPT !.Q = q1, !.served = a, !.waiting = wnow, !.runId = IF victim = -1 THEN 0 ELSE victim,
                          !.since = Append(SelectSeq(@, LAMBDA r : r.a # a), [a |-> a, w |-> wnow])]
        ELSE IF c.s = "PeriodicPoll" THEN
            LET xs == SelectSeq(e.tx, LAMBDA x : x.fc = 1 /\ x.dst = a /\ x.t = c.t)
                pid == IF xs = <<>> THEN -1 ELSE xs[1].pid
                i == PollIx(m1, a, pid)
                m2 == IF m1.Q # <<>> THEN V(m1, "poll-before-request", l, "periodic poll started while a user request is waiting") ELSE m1
                m3 == IF i # 0 /\ c.t < m2.polls[i].next /\ ~m2.polls[i].dem
                        THEN V(m2, "poll-early", l, "periodic poll started before one period after its previous completion") ELSE m2
            IN IF i = 0 THEN [m3 EXCEPT !.runPoll = [a |-> a, pid |-> -1], !.served = 0]
               ELSE [m3 EXCEPT !.runPoll = [a |-> a, pid |-> pid], !.polls[i].dem = FALSE, !.served = 0]
        ELSE [m1 EXCEPT !.served = 0]
    ELSE \* success / fail: the outstanding request is over
        LET m1 == [m EXCEPT !.nout = 0]
            i == PollIx(m1, m.runPoll.a, m.runPoll.pid)
        IN IF c.s = "PeriodicPoll" /\ i # 0 /\ m.runPoll.a = a
             THEN [m1 EXCEPT !.polls[i].next = c.t + m1.polls[i].period, !.polls[i].dem = FALSE, !.runPoll = [a |-> 0, pid |-> -1]]
             ELSE m1

LtxItem(m0, e, x, l) ==
    LET m == LinkExpire(m0, x.t)
        a == x.dst
        qa == QOf(m, a)
        user == qa # <<>> /\ qa[1].kind = "link_status"
        m1 == [Begin(m, l, "link status") EXCEPT !.runA = a]
        ka == IF IsAssoc(m.cfg, a) THEN ACfg(m.cfg, a).ka ELSE -1
        m2 == IF ~user /\ (ka < 0 \/ x.t < ActOf(m, a) + ka)
                THEN V(m1, "keepalive-early", l, "link status request before the configured silence") ELSE m1
    IN [m2 EXCEPT !.Q = IF user THEN DropId(@, qa[1].id) ELSE @, !.link = [on |-> TRUE, t |-> x.t, a |-> a],
                  !.runId = IF user THEN qa[1].id ELSE 0,
                  !.served = IF user THEN a ELSE 0]

RECURSIVE Walk(_, _, _, _, _)
Walk(m, e, cs, xs, l) ==
    IF cs = <<>> /\ xs = <<>> THEN m
    ELSE IF xs = <<>> \/ (cs # <<>> /\ Head(cs).t <= Head(xs).t) THEN Walk(CbItem(m, e, Head(cs), l), e, Tail(cs), xs, l)
    ELSE Walk(LtxItem(m, e, Head(xs), l), e, cs, Tail(xs), l)

MonStep(m, e, l) ==
    IF e.k = "reset" THEN [MonInit EXCEPT !.cfg = e.cfg, !.sc = e.id, !.viol = m.viol, !.en = e.cfg.enabled]
    ELSE IF e.k = "hang" THEN V(m, "spin", l, "the master did not come to rest")
    ELSE IF ~HasOutputs(e) THEN m
    ELSE
    LET up1 == CASE e.k = "conn" -> m.up \/ m.en [] e.k = "enable" -> m.up \/ m.pipe
                 [] e.k \in {"cut", "disable"} -> FALSE [] OTHER -> m.up
        pipe1 == CASE e.k = "conn" -> ~m.up /\ ~m.en [] e.k \in {"enable", "cut"} -> FALSE [] OTHER -> m.pipe
        en1 == CASE e.k = "enable" -> TRUE [] e.k = "disable" -> FALSE [] OTHER -> m.en
        isRx == e.k = "rx" /\ ~e.rx.noconn
        \* activity and silent resolution of a link status request by anything received
        mA == IF isRx THEN [m EXCEPT !.act = Append(SelectSeq(@, LAMBDA x : x.a # e.rx.src), [a |-> e.rx.src, t |-> e.t]),
                                     !.nout = IF m.link.on THEN 0 ELSE @, !.link.on = FALSE,
                                     !.sawIin = @ \/ e.rx.iin.rst \/ e.rx.iin.time \/ e.rx.iin.ovf \/ e.rx.iin.c1 \/ e.rx.iin.c2 \/ e.rx.iin.c3]
              ELSE m
        \* the request of this line
        mQ == IF e.k = "req" THEN
                  LET r == e.req
                      refused == \E i \in 1..Len(e.done) : e.done[i].id = r.id
                  IN CASE r.kind \in TaskKinds /\ ~refused ->
                              [mA EXCEPT !.Q = Append(@, [id |-> r.id, kind |-> r.kind, a |-> r.a, t |-> e.t])]
                       [] r.kind = "poll_add" /\ (\E i \in 1..Len(e.done) : e.done[i].id = r.id /\ e.done[i].res = "ok") ->
                              [mA EXCEPT !.polls = Append(@, [a |-> r.a, pid |-> r.pid, period |-> r.period,
                                                              next |-> e.t + r.period, dem |-> FALSE])]
                       [] r.kind = "poll_demand" ->
                              LET i == PollIx(mA, r.a, r.pid) IN IF i = 0 THEN mA ELSE [mA EXCEPT !.polls[i].dem = TRUE]
                       [] r.kind = "assoc_remove" ->
                              [mA EXCEPT !.polls = SelectSeq(@, LAMBDA p : p.a # r.a), !.Q = SelectSeq(@, LAMBDA q : q.a # r.a),
                                         !.ghost = @ \/ (mA.nout > 0 /\ mA.runA = r.a)]
                       [] OTHER -> mA
              ELSE mA
        ids == {e.done[i].id : i \in 1..Len(e.done)}
        \* a time synchronisation that is cancelled when it is about to start (no system time) never starts: it leaves
        \* the queue with its outcome
        cancelled == {e.done[i].id : i \in {j \in 1..Len(e.done) : e.done[j].res = "SystemTimeNotAvailable"}}
        mQ0 == [mQ EXCEPT !.Q = SelectSeq(@, LAMBDA r : r.id \notin cancelled)]
        mQ1 == IF mQ0.runId # 0 /\ mQ0.runId \in ids THEN [mQ0 EXCEPT !.nout = 0, !.runId = 0, !.link.on = FALSE] ELSE mQ0
        mI0 == Walk(mQ1, e, e.cb, e.ltx, l)
        mI == IF mI0.runId # 0 /\ mI0.runId \in ids THEN [mI0 EXCEPT !.nout = 0, !.runId = 0, !.link.on = FALSE] ELSE mI0
        mE == LinkExpire(mI, LineEnd(e))
        \* completions take requests out of the queue (disconnect, disable, removal)
        mD == [mE EXCEPT !.Q = SelectSeq(@, LAMBDA r : r.id \notin ids),
                         !.nout = IF e.k \in {"cut", "disable"} THEN 0 ELSE @,
                         !.link.on = IF e.k \in {"cut", "disable"} THEN FALSE ELSE @]
        due == \E i \in 1..Len(mD.polls) : mD.polls[i].dem \/ mD.polls[i].next <= LineEnd(e)
        mS == IF up1 /\ m.up /\ mD.nout = 0 /\ ~mD.ghost /\ mD.Q = <<>> /\ due /\ Quiet(m.cfg) /\ ~mD.sawIin /\ ~e.panic
                THEN V(mD, "poll-starved", l, "channel idle although a periodic poll is due") ELSE mD
    IN [mS EXCEPT !.up = up1, !.pipe = pipe1, !.en = en1]

Claimed == {"C19"}
=============================================================================
