------------------------------ MODULE Mon_C18 ------------------------------
(***************************************************************************)
(* C18 - time synchronisation sets the outstation's clock to the master's. *)
(*                                                                         *)
(* One line per executed synchronisation: the parameters c of the run (as  *)
(* in TimeSync.tla), the outcome the master reported (res), whether and    *)
(* with what the outstation application's write_absolute_time was called   *)
(* (tm: offset from the master's clock at virtual time 0; tmAt: virtual    *)
(* time of the call), and the one-way delays actually observed (fwdObs,    *)
(* backObs: they include the harness's settle milliseconds).               *)
(*   inaccurate        reported success, honest outstation, but the time   *)
(*                     handed over is off by more than the one-way delay   *)
(*                     (LAN) / the asymmetry of the delays (non-LAN)       *)
(*   success-unwritten reported success although no time was handed over   *)
(*   false-success     reported success although the outstation still      *)
(*                     needs time, replied with unexpected objects, claimed *)
(*                     a processing delay beyond the round trip, or the    *)
(*                     time would not fit 48 bits                          *)
(*   false-failure     an honest, in-range synchronisation reported failed *)
(*   prediction        outcome / written time differ from TimeSync.tla     *)
(*   lan-stale-record  (outstation alone, any history of RECORD_CURRENT_TIME, *)
(*                     repetitions, WRITE g50v3 and pauses) the time handed  *)
(*                     over is not the time sent plus what elapsed since the *)
(*                     most recent executed RECORD_CURRENT_TIME              *)
(***************************************************************************)
EXTENDS TimeSync

Slack == 3     \* the delays in c are the observed ones of the first exchange; the second leg may differ by the settle milliseconds

MonInit == [viol |-> <<>>, n |-> 0]
V(m, reason, l, e, ctx) == [m EXCEPT !.viol = IF Len(@) >= 300 THEN @ ELSE Append(@, [prop |-> "C18", reason |-> reason, line |-> l, sc |-> e.id, ctx |-> ctx])]

ObsBound(e) == IF e.c.proc = "lan" THEN e.fwdObs ELSE Abs(e.fwdObs - e.backObs)

\* the outstation's side of the LAN procedure: e.ops = the history [op, t, wt] (wt = the time handed to the
\* application by that request, -1 none)
LanStep(m, e, l) ==
    LET exp == LanExpect(e.ops, -1, 1)
        bad == {i \in 1..Len(e.ops) : exp[i] >= 0 /\ e.ops[i].wt # exp[i]}
        dup == {i \in 1..Len(e.ops) : e.ops[i].op \in {"Rr", "A1", "A2", "R"} /\ e.ops[i].wt # -1}
    IN IF bad # {} THEN V([m EXCEPT !.n = @ + 1], "lan-stale-record", l, e,
                          "the time written is not the one sent plus what elapsed since the last RECORD_CURRENT_TIME")
       ELSE IF dup # {} THEN V([m EXCEPT !.n = @ + 1], "lan-spurious-write", l, e, "a request other than a new WRITE set the clock")
       ELSE [m EXCEPT !.n = @ + 1]

MonStep(m, e, l) ==
    IF e.k = "lan" THEN LanStep(m, e, l)
    ELSE IF e.k # "ts" THEN m
    ELSE
    LET m0 == [m EXCEPT !.n = @ + 1]
        c == e.c
        p == RunAll(Init(c))
        bad == c.keep \/ c.junk # 0 \/ DelayTooLarge(c) \/ p.iin2 \/ p.res = "Overflow"
    IN IF e.res = "ok" /\ ~e.wrote THEN V(m0, "success-unwritten", l, e, "")
       ELSE IF e.res = "ok" /\ bad THEN V(m0, "false-success", l, e, "")
       ELSE IF e.res = "ok" /\ Honest(c) /\ Abs(e.tm - e.tmAt) > ObsBound(e) + Slack THEN V(m0, "inaccurate", l, e, ToString(e.tm - e.tmAt))
       ELSE IF e.res # "ok" /\ ~bad THEN V(m0, "false-failure", l, e, e.res)
       ELSE IF e.res # p.res \/ e.wrote # p.wrote THEN V(m0, "prediction", l, e, p.res)
       ELSE IF e.wrote /\ Abs(Abs(e.tm - e.tmAt) - Err(p)) > Slack THEN V(m0, "prediction", l, e, ToString(Err(p)))
       ELSE m0
=============================================================================
