//! Verification shim: compiled *into* the dnp3 library only under `--cfg dnp3_verif`
//! (see hook H1 in /verif/DESIGN.md).  It exposes thin public wrappers around
//! `pub(crate)` items so that the external harness (/verif/harness) can run the
//! production (non-test) stack over an in-memory pipe.  It contains no oracle logic.
#![allow(
    missing_docs,
    unreachable_pub,
    dead_code,
    missing_copy_implementations,
    missing_debug_implementations
)]

use crate::app::parse::options::ParseOptions;
use crate::app::parse::parser::ParsedFragment;
use crate::app::EndpointType;
use crate::decode::DecodeLevel;
use crate::link::header::{BroadcastConfirmMode, FrameType};
use crate::link::parser::FramePayload;
use crate::link::reader::LinkModes;
use crate::link::{EndpointAddress, LinkErrorMode};
use crate::master::task::MasterTask;
use crate::master::{MasterChannel, MasterChannelConfig, MasterChannelType};
use crate::outstation::task::OutstationTask;
use crate::outstation::{
    ControlHandler, Feature, OutstationApplication, OutstationConfig, OutstationHandle,
    OutstationInformation,
};
use crate::transport::{FragmentAddr, TransportData};
use crate::util::phys::{PhysAddr, PhysLayer};
use crate::util::session::{Enabled, RunError, Session, StopReason};

pub type Pipe = tokio::io::DuplexStream;

/// what happened to the endpoint's connection loop
#[derive(Clone, Debug, PartialEq, Eq)]
pub enum SessionEvent {
    /// a pipe was attached and the session started to run
    Connected,
    /// the session ended with a link error (I/O or framing); the string is the Display of it
    LinkError(String),
    /// the session ended because the endpoint was disabled
    Disabled,
    /// the endpoint was shut down
    Shutdown,
    /// the pipe source was dropped
    NoMorePipes,
}

pub type SessionListener = Box<dyn FnMut(SessionEvent) + Send>;

fn link_modes(error_mode: LinkErrorMode, datagram: bool) -> LinkModes {
    if datagram {
        LinkModes::datagram(error_mode)
    } else {
        LinkModes::stream(error_mode)
    }
}

/// an endpoint (master or outstation) that is run over successive pipes, exactly the way
/// `tcp::client::ClientTask` runs it over successive sockets
pub struct Endpoint {
    session: Session,
}

impl Endpoint {
    pub fn outstation(
        config: OutstationConfig,
        error_mode: LinkErrorMode,
        application: Box<dyn OutstationApplication>,
        information: Box<dyn OutstationInformation>,
        control_handler: Box<dyn ControlHandler>,
    ) -> (Self, OutstationHandle) {
        let (task, handle) = OutstationTask::create(
            Enabled::Yes,
            link_modes(error_mode, false),
            ParseOptions::get_static(),
            config,
            PhysAddr::None,
            application,
            information,
            control_handler,
        );
        (
            Self {
                session: Session::outstation(task),
            },
            handle,
        )
    }

    pub fn master(
        config: MasterChannelConfig,
        error_mode: LinkErrorMode,
        initially_enabled: bool,
    ) -> (Self, MasterChannel) {
        let (tx, rx) = crate::util::channel::request_channel();
        let task = MasterTask::new(
            if initially_enabled {
                Enabled::Yes
            } else {
                Enabled::No
            },
            link_modes(error_mode, false),
            ParseOptions::get_static(),
            config,
            rx,
        );
        (
            Self {
                session: Session::master(task),
            },
            MasterChannel::new(tx, MasterChannelType::Stream),
        )
    }

    /// run -> reset -> run ... over the pipes delivered by `pipes` until shutdown
    pub async fn run(
        mut self,
        mut pipes: tokio::sync::mpsc::UnboundedReceiver<Pipe>,
        mut listener: SessionListener,
    ) {
        'outer: loop {
            if self.session.wait_for_enabled().await.is_err() {
                listener(SessionEvent::Shutdown);
                return;
            }
            // wait for a connection while still processing messages (as wait_for_retry does)
            let pipe = loop {
                tokio::select! {
                    p = pipes.recv() => {
                        match p {
                            Some(p) => break p,
                            None => {
                                listener(SessionEvent::NoMorePipes);
                                return;
                            }
                        }
                    }
                    r = self.session.process_next_message() => {
                        if let Err(StopReason::Shutdown) = r {
                            listener(SessionEvent::Shutdown);
                            return;
                        }
                        if self.session.enabled() == Enabled::No {
                            listener(SessionEvent::Disabled);
                            continue 'outer;
                        }
                    }
                }
            };
            listener(SessionEvent::Connected);
            let mut phys = PhysLayer::Pipe(pipe);
            match self.session.run(&mut phys).await {
                RunError::Stop(StopReason::Shutdown) => {
                    listener(SessionEvent::Shutdown);
                    return;
                }
                RunError::Stop(StopReason::Disable) => {
                    listener(SessionEvent::Disabled);
                }
                RunError::Link(err) => {
                    listener(SessionEvent::LinkError(format!("{err}")));
                }
            }
        }
    }
}

// ------------------------------------------------------------------------------------
// layer-level probes
// ------------------------------------------------------------------------------------

#[derive(Clone, Debug, PartialEq, Eq)]
pub struct LinkFrame {
    pub source: u16,
    /// None = unicast; Some(0xFFFF | 0xFFFE | 0xFFFD)
    pub broadcast: Option<u16>,
    /// "data" | "link_status_request" | "link_status_response"
    pub frame_type: &'static str,
    pub payload: Vec<u8>,
}

fn bc(mode: Option<BroadcastConfirmMode>) -> Option<u16> {
    mode.map(|m| m.address())
}

/// the real `link::layer::Layer` (parser + reader + addressing + secondary station) on a pipe
pub struct LinkProbe {
    layer: crate::link::layer::Layer,
    io: PhysLayer,
    level: DecodeLevel,
}

impl LinkProbe {
    #[allow(clippy::too_many_arguments)]
    pub fn new(
        error_mode: LinkErrorMode,
        datagram: bool,
        max_fragment_size: usize,
        is_master: bool,
        self_address: bool,
        local_address: u16,
        level: DecodeLevel,
        pipe: Pipe,
    ) -> Self {
        let layer = crate::link::layer::Layer::new(
            link_modes(error_mode, datagram),
            max_fragment_size,
            if is_master {
                EndpointType::Master
            } else {
                EndpointType::Outstation
            },
            if self_address {
                Feature::Enabled
            } else {
                Feature::Disabled
            },
            EndpointAddress::raw(local_address),
        );
        Self {
            layer,
            io: PhysLayer::Pipe(pipe),
            level,
        }
    }

    /// cancel-safe: await it under a timeout; Err(..) = session-ending link error
    pub async fn read(&mut self) -> Result<LinkFrame, String> {
        let mut payload = FramePayload::new();
        match self.layer.read(&mut self.io, self.level, &mut payload).await {
            Ok(info) => Ok(LinkFrame {
                source: info.source.raw_value(),
                broadcast: bc(info.broadcast),
                frame_type: match info.frame_type {
                    FrameType::Data => "data",
                    FrameType::LinkStatusRequest => "link_status_request",
                    FrameType::LinkStatusResponse => "link_status_response",
                },
                payload: payload.get().to_vec(),
            }),
            Err(err) => Err(format!("{err}")),
        }
    }

    pub fn reset(&mut self) {
        self.layer.reset()
    }
}

#[derive(Clone, Debug, PartialEq, Eq)]
pub enum TransportItem {
    Fragment {
        id: u32,
        source: u16,
        broadcast: Option<u16>,
        data: Vec<u8>,
    },
    LinkStatusRequest(u16),
    LinkStatusResponse(u16),
}

/// the real transport reader (link layer + assembler) on a pipe
pub struct TransportReadProbe {
    reader: crate::transport::real::reader::Reader,
    io: PhysLayer,
    level: DecodeLevel,
}

impl TransportReadProbe {
    #[allow(clippy::too_many_arguments)]
    pub fn new(
        error_mode: LinkErrorMode,
        datagram: bool,
        max_rx_buffer: usize,
        is_master: bool,
        self_address: bool,
        local_address: u16,
        level: DecodeLevel,
        pipe: Pipe,
    ) -> Self {
        let modes = link_modes(error_mode, datagram);
        let addr = EndpointAddress::raw(local_address);
        let reader = if is_master {
            crate::transport::real::reader::Reader::master(modes, addr, max_rx_buffer)
        } else {
            crate::transport::real::reader::Reader::outstation(
                modes,
                addr,
                if self_address {
                    Feature::Enabled
                } else {
                    Feature::Disabled
                },
                max_rx_buffer,
            )
        };
        Self {
            reader,
            io: PhysLayer::Pipe(pipe),
            level,
        }
    }

    /// cancel-safe: read until a fragment or link-layer message is available, then pop it
    pub async fn next(&mut self) -> Result<TransportItem, String> {
        if let Err(err) = self.reader.read(&mut self.io, self.level).await {
            return Err(format!("{err}"));
        }
        match self.reader.pop() {
            Some(TransportData::Fragment(f)) => Ok(TransportItem::Fragment {
                id: f.info.id,
                source: f.info.addr.link.raw_value(),
                broadcast: bc(f.info.broadcast),
                data: f.data.to_vec(),
            }),
            Some(TransportData::LinkLayerMessage(m)) => Ok(match m.message {
                crate::transport::LinkLayerMessageType::LinkStatusRequest => {
                    TransportItem::LinkStatusRequest(m.source.raw_value())
                }
                crate::transport::LinkLayerMessageType::LinkStatusResponse => {
                    TransportItem::LinkStatusResponse(m.source.raw_value())
                }
            }),
            None => Err("read returned Ok but nothing to pop".to_string()),
        }
    }

    pub fn reset(&mut self) {
        self.reader.reset()
    }
}

/// the real transport writer on a pipe
pub struct TransportWriteProbe {
    writer: crate::transport::real::writer::Writer,
    io: PhysLayer,
    level: DecodeLevel,
}

impl TransportWriteProbe {
    pub fn new(is_master: bool, local_address: u16, level: DecodeLevel, pipe: Pipe) -> Self {
        Self {
            writer: crate::transport::real::writer::Writer::new(
                if is_master {
                    EndpointType::Master
                } else {
                    EndpointType::Outstation
                },
                EndpointAddress::raw(local_address),
            ),
            io: PhysLayer::Pipe(pipe),
            level,
        }
    }

    pub async fn write(&mut self, destination: u16, fragment: &[u8]) -> Result<(), String> {
        let dest = FragmentAddr {
            link: EndpointAddress::raw(destination),
            phys: PhysAddr::None,
        };
        self.writer
            .write(&mut self.io, self.level, dest, fragment)
            .await
            .map_err(|e| format!("{e}"))
    }

    pub fn reset(&mut self) {
        self.writer.reset()
    }
}

// ------------------------------------------------------------------------------------
// pure helpers
// ------------------------------------------------------------------------------------

/// format a link frame with the library's own formatter
pub fn format_link_frame(control: u8, dest: u16, src: u16, payload: &[u8]) -> Option<Vec<u8>> {
    use crate::link::format::{format_data_frame, format_header_only, Payload};
    use crate::link::header::{AnyAddress, ControlField, Header};
    let header = Header::new(
        ControlField::from(control),
        AnyAddress::from(dest),
        AnyAddress::from(src),
    );
    let mut buffer = [0u8; 292];
    let mut cursor = scursor::WriteCursor::new(&mut buffer);
    if payload.is_empty() {
        format_header_only(header, &mut cursor)
            .ok()
            .map(|x| x.frame.to_vec())
    } else {
        format_data_frame(header, Payload::new(payload[0], &payload[1..]), &mut cursor)
            .ok()
            .map(|x| x.frame.to_vec())
    }
}

/// summary of what the library's application parser makes of a fragment
#[derive(Clone, Debug, PartialEq, Eq)]
pub struct ParseSummary {
    /// "ok" | "hdr:<HeaderParseError>"
    pub header: String,
    /// "ok" | "<RequestValidationError / ResponseValidationError>"
    pub role: String,
    /// "ok" | "<ObjectParseError>"
    pub objects: String,
    /// per object header: (group, variation, qualifier byte, number of items iterated, first index, last index)
    pub headers: Vec<HeaderSummary>,
    /// Display of the fragment at the requested decode level (forces every lazy iterator)
    pub display_len: usize,
}

#[derive(Clone, Debug, PartialEq, Eq)]
pub struct HeaderSummary {
    pub group: u8,
    pub variation: u8,
    pub qualifier: u8,
    pub count: usize,
    pub first: Option<u32>,
    pub last: Option<u32>,
    /// data type of a device attribute (g0) as parsed, "" otherwise
    pub attr: String,
}

fn summarize_headers(
    objects: &crate::app::parse::parser::HeaderCollection,
) -> Vec<HeaderSummary> {
    let mut out = Vec::new();
    for h in objects.iter() {
        let (g, v) = h.variation.to_group_and_var();
        let q = h.details.qualifier().as_u8();
        let (count, first, last) = details_summary(&h.details);
        out.push(HeaderSummary {
            group: g,
            variation: v,
            qualifier: q,
            count,
            first,
            last,
            attr: attr_type(&h.details),
        });
    }
    out
}

/// data type of a parsed device attribute (g0) as the parser classified it, "" for anything else
fn attr_type(d: &crate::app::parse::parser::HeaderDetails) -> String {
    use crate::app::attr::AttrValue as A;
    use crate::app::gen::ranged::RangedVariation as R;
    use crate::app::parse::parser::HeaderDetails as H;
    let attr = match d {
        H::OneByteStartStop(_, _, R::Group0(_, Some(a))) => a,
        H::TwoByteStartStop(_, _, R::Group0(_, Some(a))) => a,
        _ => return String::new(),
    };
    match attr.value {
        A::VisibleString(_) => "VSTR",
        A::UnsignedInt(_) => "UINT",
        A::SignedInt(_) => "INT",
        A::FloatingPoint(_) => "FLT",
        A::OctetString(_) => "OSTR",
        A::Dnp3Time(_) => "TIME",
        A::BitString(_) => "BSTR",
        A::AttrList(_) => "LIST",
    }
    .to_string()
}

fn details_summary(
    d: &crate::app::parse::parser::HeaderDetails,
) -> (usize, Option<u32>, Option<u32>) {
    use crate::app::parse::parser::HeaderDetails as H;
    match d {
        H::AllObjects(_) => (0, None, None),
        H::OneByteStartStop(s, e, _) => (
            (*e as usize) - (*s as usize) + 1,
            Some(*s as u32),
            Some(*e as u32),
        ),
        H::TwoByteStartStop(s, e, _) => (
            (*e as usize) - (*s as usize) + 1,
            Some(*s as u32),
            Some(*e as u32),
        ),
        H::OneByteCount(c, _) => (*c as usize, None, None),
        H::TwoByteCount(c, _) => (*c as usize, None, None),
        H::OneByteCountAndPrefix(c, _) => (*c as usize, None, None),
        H::TwoByteCountAndPrefix(c, _) => (*c as usize, None, None),
        H::TwoByteFreeFormat(c, _) => (*c as usize, None, None),
    }
}

/// parse `data` the way an outstation (`as_request = true`) or a master would and force all
/// lazy iteration by formatting at `level`
pub fn parse_summary(
    data: &[u8],
    as_request: bool,
    level: crate::decode::AppDecodeLevel,
) -> ParseSummary {
    let parsed = match ParsedFragment::parse(ParseOptions::get_static(), data) {
        Ok(x) => x,
        Err(err) => {
            return ParseSummary {
                header: format!("hdr:{err:?}"),
                role: String::new(),
                objects: String::new(),
                headers: Vec::new(),
                display_len: 0,
            }
        }
    };
    let display = format!("{}", parsed.display(level));
    let role = if as_request {
        match parsed.to_request() {
            Ok(_) => "ok".to_string(),
            Err(e) => format!("{e:?}"),
        }
    } else {
        match parsed.to_response() {
            Ok(_) => "ok".to_string(),
            Err(e) => format!("{e:?}"),
        }
    };
    let (objects, headers) = match parsed.objects {
        Ok(ref x) => ("ok".to_string(), summarize_headers(x)),
        Err(e) => (format!("{e:?}"), Vec::new()),
    };
    ParseSummary {
        header: "ok".to_string(),
        role,
        objects,
        headers,
        display_len: display.len(),
    }
}

/// run the master's measurement extraction over a response fragment into `handler`
/// returns false if the fragment does not parse as a response with valid objects
pub async fn extract_into(
    data: &[u8],
    handler: &mut dyn crate::master::ReadHandler,
) -> bool {
    let parsed = match ParsedFragment::parse(ParseOptions::get_static(), data) {
        Ok(x) => x,
        Err(_) => return false,
    };
    let response = match parsed.to_response() {
        Ok(x) => x,
        Err(_) => return false,
    };
    let objects = match response.objects {
        Ok(x) => x,
        Err(_) => return false,
    };
    crate::master::extract::extract_measurements(
        crate::master::ReadType::SinglePoll,
        response.header,
        objects,
        handler,
    )
    .await;
    true
}

/// raw octet of a control code (the accessor is crate-private)
pub fn control_code_u8(code: crate::app::control::ControlCode) -> u8 {
    code.as_u8()
}

/// (group, variation) of a `Variation` (the accessor is crate-private)
pub fn group_var(v: crate::app::Variation) -> (u8, u8) {
    v.to_group_and_var()
}

/// `Variation` from (group, variation)
pub fn variation(group: u8, var: u8) -> Option<crate::app::Variation> {
    crate::app::Variation::lookup(group, var)
}
